"""Abstract evaluation of numeric expressions over ONE symbolic input vector in the domain of
integer-linear maps (Karr-style): a value is `Lin(M, mod)` = (M · x) [mod m], a folded constant, a list
view of one, or a predicate comparing one with a constant.  Used to decide how the block codes USE their
matrices (generate / syndrome / correction index) independently of spelling
(numpy.dot(G.T, v) == v @ G, divmod(x, 2)[1] == x % 2, ...).  No value of x is ever supplied.
"""
from __future__ import annotations

import ast
from typing import Any, Dict, List, Optional

from .model import AnalysisError, ClassInfo, Folder, NPArr, Repo, Unfoldable, ClassRef, FuncRef, ModRef, FuncInfo


class Sym:
    """the symbolic input vector (identity map, dimension unknown until multiplied)"""

    def __repr__(self):
        return "x"


class Lin:
    def __init__(self, M: List[List[int]], mod: Optional[int] = None):
        self.M, self.mod = M, mod

    def reduced(self):
        m = self.mod
        return [[(v % m) if m else v for v in r] for r in self.M]

    def __repr__(self):
        return f"Lin({len(self.M)}x{len(self.M[0]) if self.M else 0}, mod={self.mod})"


class AsList:
    def __init__(self, v):
        self.v = v


class EqConst:
    def __init__(self, lin: Lin, const):
        self.lin, self.const = lin, const


class IndexOf:
    """<constant list>.index(<Lin as list>)"""

    def __init__(self, haystack, needle: Lin):
        self.haystack, self.needle = haystack, needle


class Opaque:
    def __init__(self, why):
        self.why = why

    def __repr__(self):
        return f"Opaque({self.why})"


class LinEval:
    def __init__(self, repo: Repo, fi: FuncInfo, cls: Optional[ClassInfo], sym_param: str, env: Optional[dict] = None):
        self.repo, self.fi, self.cls, self.sym_param = repo, fi, cls, sym_param
        self.env: Dict[str, Any] = dict(env or {})
        self.folder = Folder(repo, fi.module, None)

    def const(self, n: ast.AST):
        """fold with `cls`/`self` bound to the concrete class"""
        loc = {}
        if self.cls is not None:
            loc["cls"] = ClassRef(self.cls)
        return self.folder.ev(n, loc)

    def ev(self, n: ast.AST):
        try:
            return self._ev(n)
        except Unfoldable as e:
            return Opaque(str(e))

    def _ev(self, n: ast.AST):
        if isinstance(n, ast.Name):
            if n.id == self.sym_param:
                return Sym()
            if n.id in self.env:
                return self.env[n.id]
            return self.const(n)
        if isinstance(n, ast.Constant):
            return n.value
        if isinstance(n, ast.Attribute):
            base = self._ev(n.value)
            if isinstance(base, Lin) and n.attr == "T":
                return base  # 1-D
            if isinstance(base, (Sym, Lin, AsList)):
                return ("method", base, n.attr)
            if isinstance(base, Opaque):
                return base
            if isinstance(base, NPArr):
                if n.attr == "T":
                    return base.T
                if n.attr == "shape":
                    return base.shape
                if n.attr == "tolist":
                    return ("bound", base, "tolist")
            if isinstance(base, list) and n.attr in ("index", "copy"):
                return ("bound", base, n.attr)
            return self.const(n)
        if isinstance(n, ast.Subscript):
            v = self._ev(n.value)
            if isinstance(v, tuple) and v and v[0] == "divmod":
                i = self.const(n.slice)
                if i == 1:
                    return self._mod(v[1], v[2])
                return Opaque("divmod quotient")
            if isinstance(v, (Sym, Lin, AsList, Opaque)):
                return Opaque("subscript of symbolic")
            return self.const(n)
        if isinstance(n, ast.BinOp):
            l, r = self._ev(n.left), self._ev(n.right)
            if isinstance(n.op, ast.MatMult):
                return self._matmul(l, r)
            if isinstance(n.op, ast.Mod):
                return self._mod(l, r)
            if isinstance(l, (Sym, Lin, AsList, Opaque)) or isinstance(r, (Sym, Lin, AsList, Opaque)):
                return Opaque(f"binop {type(n.op).__name__} on symbolic")
            return self.const(n)
        if isinstance(n, ast.Call):
            f = n.func
            ftxt = ast.unparse(f)
            args = [self._ev(a) for a in n.args]
            # method calls on symbolic values
            if isinstance(f, ast.Attribute):
                base = self._ev(f.value)
                if isinstance(base, (Sym, Lin)) and f.attr == "tolist":
                    return AsList(base)
                if isinstance(base, AsList) and f.attr == "copy":
                    return base
                if isinstance(base, NPArr) and f.attr == "tolist":
                    return base.tolist()
                if isinstance(base, (list, NPArr)) and f.attr == "index" and len(args) == 1:
                    needle = args[0]
                    if isinstance(needle, AsList):
                        needle = needle.v
                    if isinstance(needle, Lin):
                        return IndexOf(base.tolist() if isinstance(base, NPArr) else base, needle)
                if isinstance(base, (Sym, Lin, AsList)):
                    return Opaque(f"method {f.attr} on symbolic")
            # resolve callee
            callee = None
            try:
                callee = self.const(f)
            except Unfoldable:
                callee = None
            name = callee.name if isinstance(callee, ModRef) else None
            if name in ("numpy.array", "numpy.asarray") and len(args) >= 1:
                a = args[0]
                if isinstance(a, AsList):
                    return a.v
                if isinstance(a, (Sym, Lin)):
                    return a
                if isinstance(a, Opaque):
                    return a
                return NPArr(a) if not isinstance(a, NPArr) else a
            if name in ("numpy.dot", "numpy.matmul") and len(args) == 2:
                return self._matmul(args[0], args[1])
            if name in ("numpy.mod", "numpy.remainder", "numpy.fmod") and len(args) == 2:
                return self._mod(args[0], args[1])
            if name == "numpy.transpose" and len(args) == 1:
                a = args[0]
                if isinstance(a, NPArr):
                    return a.T
                return a
            if name == "numpy.array_equal" and len(args) == 2:
                a, b = args
                if isinstance(b, Lin):
                    a, b = b, a
                if isinstance(a, Lin) and isinstance(b, (NPArr, list)):
                    return EqConst(a, b.tolist() if isinstance(b, NPArr) else b)
                return Opaque("array_equal shape")
            if callee is divmod or ftxt == "divmod":
                return ("divmod", args[0], args[1])
            if ftxt == "list" and len(args) == 1 and isinstance(args[0], (Sym, Lin)):
                return AsList(args[0])
            if isinstance(callee, FuncRef):
                # inline a repo helper applied to symbolic arguments (e.g. get_syndrome_for_word)
                return self.inline(callee.info, args, {k.arg: self._ev(k.value) for k in n.keywords})
            if any(isinstance(a, (Sym, Lin, AsList, Opaque)) for a in args):
                return Opaque(f"call {ftxt} on symbolic")
            return self.const(n)
        if isinstance(n, ast.Compare) and len(n.ops) == 1 and isinstance(n.ops[0], ast.Eq):
            l, r = self._ev(n.left), self._ev(n.comparators[0])
            if isinstance(l, AsList):
                l = l.v
            if isinstance(r, AsList):
                r = r.v
            if isinstance(r, Lin):
                l, r = r, l
            if isinstance(l, Lin) and isinstance(r, (list, NPArr)):
                return EqConst(l, r.tolist() if isinstance(r, NPArr) else r)
            return Opaque("compare")
        if isinstance(n, (ast.Tuple, ast.List)):
            return [self._ev(e) for e in n.elts]
        return self.const(n)

    def inline(self, fi: FuncInfo, args, kw):
        a = fi.node.args
        params = [x.arg for x in a.posonlyargs + a.args]
        if fi.kind == "classmethod":
            params = params[1:]
        env = {}
        for p, v in zip(params, args):
            env[p] = v
        env.update(kw)
        for p, d in zip(params[len(params) - len(a.defaults):], a.defaults):
            if p not in env:
                env[p] = Folder(self.repo, fi.module, None).ev(d, {})
        sub = LinEval(self.repo, fi, self.cls, "\0none", env)
        body = [s for s in fi.node.body if not (isinstance(s, ast.Expr) and isinstance(s.value, ast.Constant))]
        for st in body:
            if isinstance(st, (ast.Assign, ast.AnnAssign)) and isinstance(st.targets[0] if isinstance(st, ast.Assign) else st.target, ast.Name):
                t = st.targets[0] if isinstance(st, ast.Assign) else st.target
                sub.env[t.id] = sub.ev(st.value)
            elif isinstance(st, ast.Return):
                return sub.ev(st.value)
            elif isinstance(st, ast.Assert):
                continue
            else:
                return Opaque(f"inline {fi.name}: statement {type(st).__name__}")
        return Opaque(f"inline {fi.name}: no return")

    def _mod(self, v, m):
        if isinstance(v, Lin) and isinstance(m, int):
            if v.mod is None or v.mod == m:
                return Lin(v.M, m)
        if isinstance(v, (int, NPArr)) and isinstance(m, int):
            return v % m if isinstance(v, int) else NPArr([[x % m for x in r] for r in v.data] if v.ndim == 2 else [x % m for x in v.data])
        return Opaque("mod")

    def _matmul(self, l, r):
        # vector · matrix  or  matrix · vector, one side symbolic
        if isinstance(l, NPArr) and isinstance(r, (Sym, Lin)):
            A = l.data if l.ndim == 2 else None
            if A is None:
                return Opaque("1-D const times symbolic")
            if isinstance(r, Sym):
                return Lin([list(row) for row in A])
            if r.mod is not None:
                return Opaque("product after reduction")
            return Lin(_mm(A, r.M))
        if isinstance(r, NPArr) and isinstance(l, (Sym, Lin)):
            if r.ndim != 2:
                return Opaque("symbolic times 1-D const")
            At = [list(c) for c in zip(*r.data)]  # x @ B == B^T x
            if isinstance(l, Sym):
                return Lin(At)
            if l.mod is not None:
                return Opaque("product after reduction")
            return Lin(_mm(At, l.M))
        if isinstance(l, NPArr) and isinstance(r, NPArr):
            from .model import np_matmul
            return np_matmul(l, r)
        return Opaque("matmul operands")


def _mm(A, B):
    Bt = list(zip(*B))
    return [[sum(x * y for x, y in zip(r, c)) for c in Bt] for r in A]
