"""Generic codec-pair analysis on top of sa/bitabs.py.

For a reader R (from_bits / from_bytes) and a writer W (as_bits / as_bytes) of one PDU class and a wire
size N it enumerates every path of R on N symbolic wire bits (discriminator tests fork and substitute),
constructs the object through the real __init__, runs W on it and compares position by position:

  decode-then-encode   W(R(w))[p] must be w[p], unless no field of the object depends on w[p] (reserved bit)
  symbolic defaults    every attribute that R left at a constant default is replaced by a fresh symbol and W is
                       run again: a position that now carries such a symbol is transmitted by W but ignored by
                       R on this branch (decoder-drops-field)
  encode-then-decode   R(W(obj')) must have the same field forms as obj' (all writer-visible fields symbolic)
"""
from __future__ import annotations

from typing import Any, Dict, List, Optional

from .bitabs import (ABits, ACond, AEnum, AFin, AInt, AObj, AOpq, AScaled, Abort, F, Interp, OB, PartialRaise,
                     PathRaise, explore)
from .model import AnalysisError, ClassInfo, ClassRef, EnumMember, FuncInfo, Rec

DOCUMENTED = {"KeyError", "ValueError", "NotImplementedError", "AssertionError", "LookupError", "IndexError?"}
CRASHES = {"TypeError", "AttributeError", "NameError", "ZeroDivisionError", "OverflowError", "UnboundLocalError", "RecursionError", "IndexError"}


def atoms_of_value(I: Interp, v, acc: set, seen=None, skip_attrs=()):
    seen = seen if seen is not None else set()
    if id(v) in seen:
        return
    if isinstance(v, F):
        acc.update(I.simp(v).atoms() if isinstance(I.simp(v), F) else [])
    elif isinstance(v, AFin):
        acc.update(v.atoms)
    elif isinstance(v, AInt):
        for b in v.bits:
            atoms_of_value(I, b, acc, seen)
    elif isinstance(v, ABits):
        for b in v.items:
            atoms_of_value(I, b, acc, seen)
    elif isinstance(v, AEnum):
        atoms_of_value(I, v.val, acc, seen)
    elif isinstance(v, AScaled):
        atoms_of_value(I, v.aint, acc, seen)
    elif isinstance(v, AObj):
        seen.add(id(v))
        for k, x in v.attrs.items():
            if k in skip_attrs:
                continue
            atoms_of_value(I, x, acc, seen)
    elif isinstance(v, (list, tuple)):
        for x in v:
            atoms_of_value(I, x, acc, seen)
    elif isinstance(v, dict):
        for x in v.values():
            atoms_of_value(I, x, acc, seen)


def is_fn_atom(I: Interp, a: int) -> bool:
    n = I.atoms.names[a]
    return isinstance(n, tuple) and n and n[0] == "fn"


def is_wire_atom(I: Interp, a: int, wname="w") -> bool:
    n = I.atoms.names[a]
    return isinstance(n, tuple) and len(n) == 2 and n[0] == wname


INDICATORS = ("crc_ok", "crc9_ok", "fec_parity_ok", "emb_parity_ok", "checksum_correct")


def symbolise_fields(I: Interp, obj: AObj, prefix="f") -> Dict[str, Any]:
    """replace every scalar / bit-sequence attribute by fresh symbols of the same shape; returns the ORIGINAL values"""
    orig = {}
    for k, v in list(obj.attrs.items()):
        if k in INDICATORS or k.startswith("_"):
            continue
        name = f"{prefix}.{k}"
        if isinstance(v, bool) or (isinstance(v, AInt) and v.isbool):
            s = AInt([I.atom_form((name, "int", 0))], isbool=True)
        elif isinstance(v, (int, AInt)) and not isinstance(v, bool):
            s = AInt([], ext=name, interp=I)
        elif isinstance(v, (EnumMember, AEnum)):
            if k in DISCRIMINATORS:
                continue
            if isinstance(v, AEnum):
                if v.val.ext is None and all(isinstance(I.simp(b), F) and I.simp(b).is_const for b in v.val.bits):
                    continue  # fixed by the reader's branch condition: a discriminator
                ci = v.cls
            else:
                if not isinstance(v.value, int):
                    continue
                ci = None
                for c in I.repo.all_classes():
                    if c.name == v.cls and I.repo.is_enum(c):
                        ci = c
                if ci is None:
                    continue
            s = AEnum(ci, AInt([], ext=name, interp=I))
        elif isinstance(v, ABits):
            s = ABits([I.atom_form((name, "seq", i)) for i in range(len(v.items))], v.kind, v.endian)
        else:
            continue
        orig[k] = v
        obj.attrs[k] = s
    return orig


def field_bit(I: Interp, v, kind, j):
    """bit j (value bit for ints, sequence index for bit strings) of the value the reader stored"""
    if isinstance(v, AEnum):
        v = v.val
    if isinstance(v, EnumMember):
        v = v.value
    if isinstance(v, bool):
        v = int(v)
    if kind == "int":
        if isinstance(v, int):
            return cbit_((v >> j) & 1) if v >= 0 else None
        if isinstance(v, AInt):
            return I.simp(v.bit(j))
    if kind == "seq" and isinstance(v, ABits) and j < len(v.items):
        return I.simp(v.items[j])
    return None


def cbit_(x):
    return F(0, 1 if x else 0)


DISCRIMINATORS = ("packet_type", "data_packet_format", "csbko", "slco", "full_link_control_opcode", "opcode", "pdu_type")


def branch_name(I, obj) -> str:
    """stable name of a reader branch: the enum-valued attributes that are constant on the path"""
    parts = []
    for k, v in obj.attrs.items():
        if isinstance(v, AEnum) and v.val.ext is None:
            bits = [I.simp(b) for b in v.val.bits]
            if all(isinstance(b, F) and b.is_const for b in bits):
                val = sum(b.c << i for i, b in enumerate(bits))
                name = None
                for m in I.repo.enum_members(v.cls).values():
                    if m.value == val:
                        name = m.name
                        break
                parts.append(f"{k}={name if name else val}")
        elif isinstance(v, EnumMember) and k in DISCRIMINATORS:
            parts.append(f"{k}={v.name}")
    return ",".join(parts[:2]) if parts else "single"


class BranchResult:
    def __init__(self):
        self.name = "no-object"
        self.sentinel = False
        self.labels: List[str] = []
        self.kind = ""
        self.detail = ""
        self.width = None
        self.mismatch: List[dict] = []
        self.reserved: List[int] = []
        self.computed: List[int] = []
        self.opaque: List[int] = []
        self.dropped: List[dict] = []
        self.obj = None
        self.assumed: List[str] = []


def describe_path(I: Interp, st, disc_hint: Optional[str] = None) -> str:
    lab = [l for l, d in zip(st.labels, st.decisions) if d]
    neg = [l for l, d in zip(st.labels, st.decisions) if not d]
    return ("&".join(lab) if lab else "default") + (f" (not: {len(neg)} other tests)" if neg and not lab else "")


def analyse_pair(repo, reader: FuncInfo, writer_name: str, N: int, kind: str = "ba", reader_args=None, reader_kw=None,
                 wire_name: str = "w", max_paths: int = 300, interp_hook=None, cls: Optional[ClassInfo] = None) -> List[BranchResult]:
    I = Interp(repo)
    I.explore_undefined_enums = True   # the ValueError exit of an enumeration without _missing_ is a reader path of its own
    if interp_hook:
        interp_hook(I)
    out: List[BranchResult] = []

    def run(st):
        I.st = st
        n_items = N if kind == "ba" else N * 8
        wire = ABits([I.atom_form((wire_name, i)) for i in range(n_items)], kind)
        a = list(reader_args(I) if reader_args else [])
        obj = I.call(reader, [wire] + a, dict(reader_kw or {}))
        if not isinstance(obj, AObj):
            return wire, obj, None
        w = I.repo.find_method(obj.cls, writer_name)
        if w is None:
            return wire, obj, ("abort", f"{obj.cls.name} has no {writer_name}")
        try:
            return wire, obj, ("ok", I.call(w, [obj], {}))
        except PathRaise as e:
            return wire, obj, ("writer-raise", f"{e.exc}: {e.msg}")
        except PartialRaise as e:
            return wire, obj, ("writer-partial-raise", str(e))
        except Abort as e:
            return wire, obj, ("abort", f"writer: {e}")

    for st, (k, v) in explore(run, max_paths=max_paths):
        I.st = st
        br = BranchResult()
        br.st = st
        br.labels = [f"{'' if d else '!'}{l}" for l, d in zip(st.labels, st.decisions)]
        br.sentinel = any(d and l.startswith("__init__:") and l.endswith("==0") for l, d in zip(st.labels, st.decisions))
        br.assumed = list(st.assumed)
        out.append(br)
        if k == "abort":
            br.kind = "partial-raise" if isinstance(v, PartialRaise) else "abort"
            br.detail = str(v)
            continue
        if k == "raise":
            br.kind = "raise"
            br.detail = v.exc
            br.where = v.msg
            continue
        wire, obj, wres = v
        if not isinstance(obj, AObj):
            br.kind = "noobj"
            br.detail = repr(obj)
            continue
        br.obj = obj
        br.name = branch_name(I, obj)
        w = I.repo.find_method(obj.cls, writer_name)
        if wres[0] != "ok":
            br.kind, br.detail = wres
            continue
        res = wres[1]
        if not isinstance(res, ABits):
            br.kind = "abort"
            br.detail = f"writer returns {res!r}"
            continue
        br.kind = "ok"
        br.width = len(res.items) if kind == "ba" else len(res.items) // 8
        field_atoms: set = set()
        atoms_of_value(I, obj, field_atoms, skip_attrs=INDICATORS)
        wbits = I.simp_bits(wire.items)
        obits = I.simp_bits(res.items)
        for p in range(min(len(wbits), len(obits))):
            o, wv = obits[p], wbits[p]
            if isinstance(o, OB):
                br.opaque.append(p)
                continue
            if o == wv:
                continue
            o_atoms = o.atoms() if isinstance(o, F) else list(o.atoms)
            if any(is_fn_atom(I, a) for a in o_atoms):
                br.computed.append(p)
                continue
            if isinstance(wv, F) and not wv.is_const:
                wa = wv.atoms()[0]
                if isinstance(o, F) and o.is_const:
                    if wa in field_atoms:
                        owners = [k2 for k2, x in obj.attrs.items() if k2 not in INDICATORS and _depends(I, x, wa)]
                        br.mismatch.append({"pos": p, "rule": "encoder-ignores-field", "field": ",".join(owners), "writer": f"constant {o.c}"})
                    else:
                        br.reserved.append(p)
                else:
                    src = [I.atoms.names[a] for a in o_atoms]
                    br.mismatch.append({"pos": p, "rule": "position", "writer": f"built from {src[:4]}", "field": ""})
            else:
                # wire bit is fixed by the discriminator on this path but the writer emits something else
                br.mismatch.append({"pos": p, "rule": "position", "writer": f"emits {o!r} where the branch requires {wv!r}", "field": ""})
        # -- pass 2: every field symbolic -> which field bit does the writer put where, and did the reader fill it from there?
        orig = symbolise_fields(I, obj)
        n_dec = len(st.decisions)
        try:
            res2 = I.call(w, [obj], {})
            if len(st.decisions) != n_dec:
                br.pass2_skipped = True  # the writer's control flow depends on a symbolised field
            elif isinstance(res2, ABits):
                o2 = I.simp_bits(res2.items)
                for p in range(min(len(o2), len(wbits))):
                    b = o2[p]
                    if not (isinstance(b, F) and len(b.atoms()) == 1):
                        continue
                    nm = I.atoms.names[b.atoms()[0]]
                    if not (isinstance(nm, tuple) and len(nm) == 3 and isinstance(nm[0], str) and nm[0].startswith("f.")):
                        continue
                    fld, fkind, j = nm[0][2:], nm[1], nm[2]
                    if fld not in orig:
                        continue
                    rb = field_bit(I, orig[fld], fkind, j)
                    if rb is None or isinstance(rb, OB):
                        continue
                    wv = wbits[p]
                    if isinstance(wv, F) and not wv.is_const and rb != (wv ^ b.c):
                        if isinstance(rb, F) and rb.is_const:
                            br.dropped.append({"pos": p, "field": fld, "bit": j})
        except (PathRaise, Abort):
            pass
        finally:
            obj.attrs.update(orig)
    return out


def _depends(I, v, atom) -> bool:
    acc: set = set()
    atoms_of_value(I, v, acc)
    return atom in acc
