"""Table algebra used by the rules: GF(2) linear algebra on int bit-masks, GF(2^8), permutations."""
from __future__ import annotations

from typing import Dict, Iterable, List, Optional, Sequence, Tuple


def rows_to_masks(rows: Sequence[Sequence[int]]) -> List[int]:
    """row [b0,b1,...] -> int with b0 as the most significant of len(row) bits."""
    out = []
    for r in rows:
        v = 0
        for b in r:
            v = (v << 1) | (b & 1)
        out.append(v)
    return out


def gf2_rank(masks: Iterable[int]) -> int:
    basis: List[int] = []
    for v in masks:
        for b in basis:
            v = min(v, v ^ b)
        if v:
            basis.append(v)
            basis.sort(reverse=True)
    return len(basis)


def span(masks: Sequence[int]):
    """All 2^k combinations (Gray-code order)."""
    k = len(masks)
    cur = 0
    yield cur
    for i in range(1, 1 << k):
        low = (i & -i).bit_length() - 1
        cur ^= masks[low]
        yield cur


def min_distance(masks: Sequence[int]) -> int:
    best = None
    first = True
    for w in span(masks):
        if first:
            first = False
            continue
        c = bin(w).count("1")
        if best is None or c < best:
            best = c
    return best if best is not None else 0


def weight_distribution(masks: Sequence[int]) -> Dict[int, int]:
    d: Dict[int, int] = {}
    for w in span(masks):
        c = bin(w).count("1")
        d[c] = d.get(c, 0) + 1
    return d


def mat_mul_gf2(A: Sequence[Sequence[int]], B: Sequence[Sequence[int]]) -> List[List[int]]:
    Bt = list(zip(*B))
    return [[sum(x & y for x, y in zip(r, c)) & 1 for c in Bt] for r in A]


def transpose(A):
    return [list(c) for c in zip(*A)]


def is_identity(M) -> bool:
    return all(all((1 if i == j else 0) == v for j, v in enumerate(r)) for i, r in enumerate(M))


def is_permutation(seq: Sequence[int], n: Optional[int] = None) -> bool:
    n = len(seq) if n is None else n
    return len(seq) == n and sorted(seq) == list(range(n))


# ---- GF(2^8)

def gf256_tables(prim_poly: int = 0x11D, alpha: int = 2) -> Tuple[List[int], List[int]]:
    exp = [0] * 255
    log = [0] * 256
    x = 1
    for i in range(255):
        exp[i] = x
        log[x] = i
        x <<= 1
        if x & 0x100:
            x ^= prim_poly
    return exp, log


def gf256_mul(a: int, b: int, prim_poly: int = 0x11D) -> int:
    r = 0
    while b:
        if b & 1:
            r ^= a
        a <<= 1
        if a & 0x100:
            a ^= prim_poly
        b >>= 1
    return r


def poly_mul_gf256(p: Sequence[int], q: Sequence[int], prim_poly: int = 0x11D) -> List[int]:
    """low-order-first coefficient lists"""
    out = [0] * (len(p) + len(q) - 1)
    for i, a in enumerate(p):
        for j, b in enumerate(q):
            out[i + j] ^= gf256_mul(a, b, prim_poly)
    return out


def gf2_solve(eqs, nbits: int):
    """solve the affine system {parity(m & x) == c for (m, c) in eqs} over GF(2) in nbits unknowns: None when it is inconsistent,
    else (one solution as a bit mask with every free unknown 0, a basis of the homogeneous solutions as bit masks)"""
    piv = {}
    for m, c in eqs:
        for p_, (mp, cp) in piv.items():
            if m >> p_ & 1:
                m ^= mp
                c ^= cp
        if m == 0:
            if c:
                return None
            continue
        p = m.bit_length() - 1
        for q in list(piv):
            mq, cq = piv[q]
            if mq >> p & 1:
                piv[q] = (mq ^ m, cq ^ c)
        piv[p] = (m, c)
    x0 = 0
    for p, (m, c) in piv.items():
        if c:
            x0 |= 1 << p
    basis = []
    for f in range(nbits):
        if f in piv:
            continue
        v = 1 << f
        for p, (m, c) in piv.items():
            if m >> f & 1:
                v |= 1 << p
        basis.append(v)
    return x0, basis


def gf2_implied(form, eqs) -> bool:
    """is parity(m & x) == c (form = (m, c)) implied by the consistent affine system eqs?"""
    key = lambda mc: (mc[0] << 1) | mc[1]
    base = [key(e) for e in eqs]
    return gf2_rank(base + [key(form)]) == gf2_rank(base)
