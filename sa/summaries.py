"""Summaries of repo functions that the abstract interpreter does not enter.

* CRC engine: BitCrcCalculator.calculate_checksum(data) is an uninterpreted function of (configuration,
  data forms) with `width_bits` result bits — the front ends (inversion, masks, byte order) ARE interpreted.
* block codes: X.generate(v) = v*G over GF(2) with G folded from X (justified by C06 use/generate),
  X.check(v) = [syndrome forms all zero].
* logging: no bit-level effect.
"""
from __future__ import annotations

from .bitabs import ABits, ACond, AInt, AOpq, AView, F, OB, ZERO, _freeze, cbit
from .model import ClassRef, EnumMember, NPArr, Rec, Unfoldable, AnalysisError


def install(I):
    S = I.summaries
    S["etsi.crc.crc:BitCrcCalculator.calculate_checksum"] = crc_calculate
    S["etsi.crc.crc:BitCrcCalculator.verify_checksum"] = lambda *a: NotImplemented
    S["etsi.crc.crc:bits_create_lookup_table"] = crc_table
    S["utils.bits_bytes:numpy_array_to_int"] = np_to_int
    S["etsi.fec.reed_solomon_12_9_4:ReedSolomon1294.log_multiply"] = rs_multiply
    for n in ("log_debug", "log_info", "log_warning", "log_error", "log_exception", "get_logger"):
        S[f"utils.logging_trait:LoggingTrait.{n}"] = lambda *a: None
    S["etsi.fec.hamming_common:HammingCommon.generate"] = code_generate
    S["etsi.fec.hamming_common:HammingCommon.check"] = code_check
    S["etsi.fec.golay_20_8_7:Golay2087.generate"] = code_generate
    S["etsi.fec.golay_20_8_7:Golay2087.check"] = code_check
    S["etsi.fec.quadratic_residue_16_7_6:QuadraticResidue1676.generate"] = code_generate
    S["etsi.fec.quadratic_residue_16_7_6:QuadraticResidue1676.check"] = code_check
    S["etsi.fec.hamming_common:HammingCommon.check_and_correct"] = code_correct
    S["etsi.fec.hamming_common:HammingCommon.correct_numpy_array"] = code_correct_np


def crc_table(I, fi, args, kw, bound_cls):
    """bits_create_lookup_table(width, polynomial): constant evaluation of the REAL function by the abstract
    interpreter, memoised per Repo (the function itself is lru_cached); the result is a constant table"""
    a = list(args) + [kw[k] for k in ("width_bits", "polynomial") if k in kw]
    if len(a) != 2 or not all(isinstance(x, int) for x in a):
        return NotImplemented
    key = ("crc_table", fi.qualname, a[0], a[1])
    cache = I.repo._cache
    if key not in cache:
        saved = I.summaries.pop(fi.qualname)
        try:
            t = I.call(fi, a, {})
        finally:
            I.summaries[fi.qualname] = saved
        if not isinstance(t, list) or not all(isinstance(e, ABits) and all(isinstance(b, F) and b.is_const for b in e.items) for e in t):
            return t
        cache[key] = [tuple(b.c for b in e.items) for e in t]
    return [ABits([cbit(x) for x in row], "ba") for row in cache[key]]


def install_trellis_inverse_pair(I):
    """Trellis34.encode / decode as an uninterpreted inverse pair (justified by C10 trellis/roundtrip);
    used by the burst-level analysis so that it stays quick"""
    table = {}
    counter = [0]

    def enc(I_, fi, args, kw, bound_cls):
        v = args[0] if args else kw.get("decoded")
        if isinstance(v, ABits) and v.kind == "bytes":
            v = ABits(list(v.items), "ba")
        if not isinstance(v, ABits) or len(v.items) < 144:
            return NotImplemented
        tag = tuple(I_.simp_bits(v.items[:144]))
        ids = [I_.atoms.get(("trellis", tag, i)) for i in range(196)]
        table[tuple(ids)] = list(v.items[:144])
        return ABits([F(1 << a, 0) for a in ids], "ba")

    def dec(I_, fi, args, kw, bound_cls):
        v = args[0] if args else kw.get("encoded")
        if not isinstance(v, ABits) or len(v.items) != 196:
            return NotImplemented
        ids = []
        for b in v.items:
            b = I_.simp(b)
            if not (isinstance(b, F) and b.c == 0 and len(b.atoms()) == 1):
                return NotImplemented
            ids.append(b.atoms()[0])
        orig = table.get(tuple(ids))
        if orig is None:
            return NotImplemented
        r = ABits(list(orig), "ba")
        if kw.get("as_bytes") or (len(args) > 1 and args[1]):
            return ABits(list(orig), "bytes")
        return r

    I.summaries["etsi.fec.trellis:Trellis34.encode"] = enc
    I.summaries["etsi.fec.trellis:Trellis34.decode"] = dec


def np_to_int(I, fi, args, kw, bound_cls):
    """int(data.dot(2 ** arange(size)[::-1])): the 0/1 vector read as an unsigned integer, first element most significant"""
    from .bitabs import AInt
    v = args[0] if args else kw.get("data")
    if isinstance(v, (ABits, AView)):
        bits = list(v.items) if isinstance(v, ABits) else v.get()
        return AInt(list(reversed(bits)) or [ZERO])
    return NotImplemented


def rs_multiply(I, fi, args, kw, bound_cls):
    """GF(2^8) product with one constant operand is GF(2)-linear in the other (justified by C11 field/multiply)"""
    from . import algebra as alg
    from .bitabs import AInt, Abort
    a, b = args[0], args[1]
    ca = a if isinstance(a, int) else None
    cb = b if isinstance(b, int) else None
    if ca is not None and cb is not None:
        return alg.gf256_mul(ca, cb, 0x11D)
    if ca is None and cb is None:
        return NotImplemented
    c, x = (ca, b) if ca is not None else (cb, a)
    if not isinstance(x, AInt) or x.ext is not None or len(x.bits) > 8:
        return NotImplemented
    bits = list(x.bits) + [ZERO] * (8 - len(x.bits))
    cols = [alg.gf256_mul(c, 1 << i, 0x11D) for i in range(8)]
    out = []
    for j in range(8):
        acc = ZERO
        for i in range(8):
            if (cols[i] >> j) & 1:
                acc = acc ^ bits[i]
        out.append(acc)
    return AInt(out)


def _bits_of(fr_interp, v):
    if isinstance(v, ABits):
        return list(v.items)
    if isinstance(v, AView):
        return v.get()
    raise AnalysisError(f"codec summary applied to {type(v).__name__}")


def crc_calculate(I, fi, args, kw, bound_cls):
    calc = args[0]
    data = kw.get("data", args[1] if len(args) > 1 else None)
    if not isinstance(calc, Rec):
        return I.opaque("crc calculator is not a folded class-level singleton")
    cfg = calc.fields.get("configuration")
    if isinstance(cfg, EnumMember):
        cfg = cfg.value
    if not isinstance(cfg, Rec):
        return I.opaque("crc configuration not folded")
    w = cfg.fields["width_bits"]
    if isinstance(data, AOpq):
        return ABits([OB("crc of opaque")] * w, "ba")
    if not isinstance(data, ABits):
        return I.opaque(f"crc over {type(data).__name__}")
    if data.kind == "bytes":
        # bitarray API would raise; the repository never does this
        return I.opaque("crc engine fed with bytes")
    if any(isinstance(x, OB) for x in data.items):
        return ABits([OB("crc over unfollowed bits") for _ in range(w)], "ba")
    key = ("crc", w, cfg.fields["polynomial"], tuple(I.simp_bits(data.items)))
    return ABits([I.atom_form(("fn", key, w - 1 - j)) for j in range(w)], "ba")


def _matrix(I, bound_cls, fi, name):
    ci = bound_cls or fi.cls
    try:
        M = I.repo.class_const(ci, name)
    except Unfoldable as e:
        raise AnalysisError(f"{ci.qualname}.{name} not foldable: {e}")
    return ci, M.tolist()


def code_generate(I, fi, args, kw, bound_cls):
    a = [x for x in args if not isinstance(x, ClassRef)]
    ci, G = _matrix(I, bound_cls, fi, "GENERATOR_MATRIX")
    v = _bits_of(I, a[0])
    if len(v) != len(G):
        from .bitabs import PathRaise
        raise PathRaise("AssertionError", f"{ci.name}.generate expects {len(G)} bits, got {len(v)}")
    out = []
    for j in range(len(G[0])):
        acc = ZERO
        for i in range(len(G)):
            if G[i][j] & 1:
                acc = acc ^ v[i]
        out.append(acc)
    return ABits(out, "np")


def syndrome(I, ci, v):
    H = I.repo.class_const(ci, "PARITY_CHECK_MATRIX").tolist()
    out = []
    for row in H:
        acc = ZERO
        for i, h in enumerate(row):
            if h & 1:
                acc = acc ^ v[i]
        out.append(I.simp(acc))
    return out


def code_check(I, fi, args, kw, bound_cls):
    a = [x for x in args if not isinstance(x, ClassRef)]
    ci, G = _matrix(I, bound_cls, fi, "GENERATOR_MATRIX")
    v = _bits_of(I, a[0])
    if len(v) != len(G[0]):
        from .bitabs import PathRaise
        raise PathRaise("AssertionError", f"{ci.name}.check expects {len(G[0])} bits, got {len(v)}")
    s = syndrome(I, ci, v)
    if all(isinstance(x, F) and x.is_const for x in s):
        return not any(x.c for x in s)
    if any(isinstance(x, OB) for x in s):
        return I.opaque("codeword test of a word with unfollowed bits")
    return ACond("codeword", ci.qualname, tuple(s))


def code_correct(I, fi, args, kw, bound_cls):
    a = [x for x in args if not isinstance(x, ClassRef)]
    ci, G = _matrix(I, bound_cls, fi, "GENERATOR_MATRIX")
    v = a[0]
    bits = _bits_of(I, v)
    s = syndrome(I, ci, bits)
    if all(isinstance(x, F) and x.is_const and x.c == 0 for x in s):
        return (True, v)  # provably a codeword: left unchanged (C06 use/correct)
    if all(isinstance(x, F) and x.is_const for x in s) and getattr(I, "interpret_constant_syndromes", False):
        return NotImplemented  # a known non-zero syndrome: the REAL repair code is interpreted (which bit it inverts, or gives up)
    if any(isinstance(x, OB) for x in s) or any(isinstance(x, OB) for x in bits):
        # a word holding bits the analysis could not follow: whatever the repair does, the result is just as unknown (it must not
        # be given a NAME — an uninterpreted function of unknown bits would look like a legitimate symbolic value downstream)
        fixed = ABits([OB("repair of a word with unfollowed bits") for _ in bits], v.kind if isinstance(v, ABits) else "np")
        if isinstance(v, ABits):
            v.items[:] = fixed.items
            return (I.opaque("repair verdict of a word with unfollowed bits"), v)
        return (I.opaque("repair verdict of a word with unfollowed bits"), fixed)
    key = ("repair", ci.qualname, tuple(I.simp_bits(bits)))
    fixed = ABits([I.atom_form(("fn", key, j)) for j in range(len(bits))], v.kind if isinstance(v, ABits) else "np")
    if isinstance(v, ABits):
        v.items[:] = fixed.items  # in place, as the real method
        return (ACond("repairable", key), v)
    return (ACond("repairable", key), fixed)


def code_correct_np(I, fi, args, kw, bound_cls):
    res = code_correct(I, fi, args, kw, bound_cls)
    if res is NotImplemented:
        return NotImplemented
    ok, r = res
    if ok is True:
        a = [x for x in args if not isinstance(x, ClassRef)]
        return a[0]
    return ABits(list(r.items), "np")
