"""Wiring rules for the block product codes, decided on the output of the abstract interpreter
(sa/bitabs.py): which message atom / linear combination each transmitted bit is, for all messages."""
from __future__ import annotations

import json
import pathlib
from typing import Dict, List

from .bitabs import ABits, AInt, Abort, F, Interp, OB, PathRaise, explore
from .model import AnalysisError, Unfoldable

SPEC = pathlib.Path(__file__).resolve().parent.parent / "spec" / "fec_matrices.json"


def spec_H(name: str):
    G = json.loads(SPEC.read_text())[name]["G"]
    k, n = len(G), len(G[0])
    P = [r[k:] for r in G]
    return [list(col) + [1 if i == j else 0 for j in range(n - k)] for i, col in enumerate(zip(*P))], k, n


def syndrome_zero(I: Interp, H, word) -> bool:
    for row in H:
        acc = F(0, 0)
        for i, h in enumerate(row):
            if h:
                acc = acc ^ word[i]
        acc = I.simp(acc)
        if not (isinstance(acc, F) and acc.is_const and acc.c == 0):
            return False
    return True


class Misbehaves(Exception):
    """the analysed composition provably fails for some inputs (not an analysis limit)"""


def single_path(I: Interp, fn, what: str):
    """run fn(st) expecting exactly one successful path"""
    from .bitabs import PartialRaise
    res = explore(fn)
    for st, (k, v) in res:
        if k == "abort" and isinstance(v, PartialRaise):
            raise Misbehaves(f"{what}: {v}")
        if k == "raise":
            raise Misbehaves(f"{what}: raises {v} for every input on path {st.labels}")
    oks = [(st, v) for st, (k, v) in res if k == "ok"]
    bad = [(st, v) for st, (k, v) in res if k != "ok"]
    if len(oks) != 1 or bad:
        detail = "; ".join(f"{k}:{v}" for st, (k, v) in res if k != "ok")[:300]
        raise AnalysisError(f"{what}: expected one analysable path, got {len(oks)} ok / {len(bad)} other ({detail})")
    return oks[0]


def multi_path(I: Interp, fn, what: str, max_paths=64):
    """like single_path, but the code may take several routes depending on data: all successful paths are returned"""
    from .bitabs import PartialRaise
    res = explore(fn, max_paths=max_paths)
    for st, (k, v) in res:
        if k == "abort" and isinstance(v, PartialRaise):
            raise Misbehaves(f"{what}: {v}")
        if k == "raise":
            raise Misbehaves(f"{what}: raises {v} on path {st.labels}")
    bad = [(st, v) for st, (k, v) in res if k != "ok"]
    if bad:
        detail = "; ".join(f"{k}:{v}" for st, (k, v) in res if k != "ok")[:300]
        raise AnalysisError(f"{what}: {len(bad)} path(s) not analysable ({detail})")
    return [(st, v) for st, (k, v) in res if k == "ok"]


def path_name(st):
    taken = [f"{l}={'yes' if d else 'no'}" for l, d in zip(st.labels, st.decisions)]
    return (" on path [" + ", ".join(taken)[:160] + "]") if taken else ""


def carries(I: Interp, b, name: str, i: int) -> bool:
    """is the bit, on the current path, equal to input bit (name, i)?  (compared modulo what the path knows: on a path that has
    learnt `message == 0` a constant 0 does carry every message bit)"""
    d = I.simp(b ^ I.atom_form((name, i))) if not isinstance(b, OB) else b
    return isinstance(d, F) and d.is_const and d.c == 0


def atom_index(I: Interp, b, name: str):
    """if the form is exactly one atom (name, i) return i"""
    b = I.simp(b)
    if isinstance(b, F) and b.c == 0:
        at = b.atoms()
        if len(at) == 1:
            nm = I.atoms.names[at[0]]
            if isinstance(nm, tuple) and nm[0] == name:
                return nm[1]
    return None


def check_bptc19696(ctx, ci, T: Dict[int, tuple], info: List[int]):
    repo = ctx.repo
    q = ci.qualname
    ctx.rule("wiring/encode-width", "encode(96 bits) yields 196 bits, none opaque")
    ctx.rule("wiring/encode-systematic", "transmitted position il(k_i) carries message bit i (k_i = i-th information key), for all 2^96 messages")
    ctx.rule("wiring/encode-codewords", "in the transmitted matrix every row is a Hamming(15,11,3) and every column a Hamming(13,9,3) codeword (syndrome forms identically zero)")
    ctx.rule("wiring/reserved-zero", "the reserved positions R(0)..R(3) are transmitted as 0")
    ctx.rule("wiring/extract", "deinterleave_data_bits(repair off) output i is the received bit at il(k_i) — the position encode writes message bit i to")
    ctx.rule("wiring/extract-repair-codeword", "with repair enabled an error-free codeword is returned unaltered and the extracted message equals the encoded one")
    ctx.rule("wiring/deinterleave-all", "deinterleave_all_bits is a bijection of the 196 positions, inverse to the table used by fill_encoding_table")
    ctx.rule("component/dimensions", "row/column slices and loop ranges of encode equal the dimensions of the component Hamming codes")
    enc = repo.find_method(ci, "encode")
    ext = repo.find_method(ci, "deinterleave_data_bits")
    dal = repo.find_method(ci, "deinterleave_all_bits")
    rep = repo.find_method(ci, "repair_if_necessary")
    for f in (enc, ext, dal, rep):
        if f is None:
            raise AnalysisError(f"{q}: encode/deinterleave_* not found")
        ctx.saw_func(f)
    I = Interp(repo)

    def run_enc(st):
        I.st = st
        return I.call(enc, [I.wire("m", 96)], {})

    st, out = single_path(I, run_enc, f"{q}.encode")
    ok_w = isinstance(out, ABits) and len(out.items) == 196 and not any(isinstance(b, OB) for b in out.items)
    ctx.ob("wiring/encode-width", q, ok_w, f"encode returns {out!r}", enc.loc)
    if not ok_w:
        return
    tx = out.items
    bad = []
    for i, k in enumerate(info):
        got = atom_index(I, tx[T[k][0]], "m")
        if got != i:
            bad.append((i, T[k][0], got))
    ctx.ob("wiring/encode-systematic", q, not bad, f"(message bit, tx position, atom found) mismatches: {bad[:6]}", enc.loc)
    # matrix view from my own reading of the table
    H15, k15, n15 = spec_H("Hamming15113")
    H13, k13, n13 = spec_H("Hamming1393")
    cell = {}
    for k, v in T.items():
        if k >= 1:
            cell[(v[1] - 1, v[2])] = tx[v[0]]
    rows_bad = [r for r in range(13) if not syndrome_zero(I, H15, [cell[(r, c)] for c in range(15)])]
    cols_bad = [c for c in range(15) if not syndrome_zero(I, H13, [cell[(r, c)] for r in range(13)])]
    ctx.ob("wiring/encode-codewords", q, not rows_bad and not cols_bad,
           f"rows that are not codewords: {rows_bad}; columns: {cols_bad}", enc.loc)
    res_bad = [k for k in range(4) if not (isinstance(I.simp(tx[T[k][0]]), F) and I.simp(tx[T[k][0]]).is_const and I.simp(tx[T[k][0]]).c == 0)]
    ctx.ob("wiring/reserved-zero", q, not res_bad, f"reserved keys not transmitted as 0: {res_bad}", enc.loc)
    ctx.sample({"function": enc.qualname, "tx[1]": repr(tx[1]), "tx[136]": repr(tx[136]), "atoms": len(I.atoms.names)})

    # extractor on an arbitrary received word
    I2 = Interp(repo)

    def run_ext(st):
        I2.st = st
        return I2.call(ext, [I2.wire("w", 196)], {"repair_if_necessary": False})

    st, got = single_path(I2, run_ext, f"{q}.deinterleave_data_bits")
    bad = []
    if not isinstance(got, ABits) or len(got.items) != 96:
        bad.append(("length", repr(got)))
    else:
        for i, k in enumerate(info):
            a = atom_index(I2, got.items[i], "w")
            if a != T[k][0]:
                bad.append((i, T[k][0], a))
    ctx.ob("wiring/extract", q, not bad, f"(output bit, expected rx position, found) mismatches: {bad[:6]}", ext.loc)

    # deinterleave_all_bits
    I3 = Interp(repo)

    def run_dal(st):
        I3.st = st
        return I3.call(dal, [I3.wire("w", 196)], {})

    st, got = single_path(I3, run_dal, f"{q}.deinterleave_all_bits")
    perm = [atom_index(I3, b, "w") for b in got.items] if isinstance(got, ABits) else []
    okp = len(perm) == 196 and sorted(x for x in perm if x is not None) == list(range(196))
    ctx.ob("wiring/deinterleave-all", q, okp, f"not a permutation of the 196 input positions", dal.loc)

    # repair on an error-free codeword (abstract over all messages)
    I4 = Interp(repo)

    def run_rep(st):
        I4.st = st
        cw = I4.call(enc, [I4.wire("m", 96)], {})
        before = list(cw.items)
        data = I4.call(ext, [cw], {"repair_if_necessary": True})
        return before, data

    st, (before, data) = single_path(I4, run_rep, f"{q}: extract(encode(m)) with repair")
    bad = []
    if not isinstance(data, ABits) or len(data.items) != 96:
        bad.append(("length", repr(data)))
    else:
        for i in range(96):
            if not carries(I4, data.items[i], "m", i):
                bad.append((i, repr(data.items[i])[:60]))
    ctx.ob("wiring/extract-repair-codeword", q, not bad, f"message bits altered by repair of an error-free codeword: {bad[:6]}", rep.loc)

    # component dimensions (syntactic facts of encode cross-checked with the component classes)
    import ast
    dims = []
    for node in ast.walk(enc.node):
        if isinstance(node, ast.For) and isinstance(node.iter, ast.Call) and ast.unparse(node.iter.func) == "range":
            for sub in ast.walk(node):
                if isinstance(sub, ast.Call) and isinstance(sub.func, ast.Attribute) and sub.func.attr == "generate":
                    cname = ast.unparse(sub.func.value)
                    cref = repo.resolve(enc.module, cname)
                    if cref is None or not hasattr(cref, "assigns"):
                        raise AnalysisError(f"{q}.encode: component class {cname} not resolved")
                    k = repo.class_const(cref, "CODE_DIMENSION")
                    n = repo.class_const(cref, "CODEWORD_LENGTH")
                    try:
                        hi = repo.fold_expr(node.iter.args[-1], enc.module)
                        lo = repo.fold_expr(node.iter.args[0], enc.module) if len(node.iter.args) > 1 else 0
                    except Unfoldable:
                        lo = hi = None
                    dims.append((cname, n, k, lo, hi))
    # informative cross-check only (the codeword rules above decide the dimensions semantically): how encode spells its loops is
    # the implementation's business, so a spelling this scan does not recognise is noted, never reported
    exp = {"Hamming15113": (0, 13), "Hamming1393": (0, 15)}
    ok = len(dims) == 2 and all(d[0] in exp and (d[3], d[4]) == exp[d[0]] for d in dims) \
        and {d[0]: (d[1], d[2]) for d in dims} == {"Hamming15113": (15, 11), "Hamming1393": (13, 9)}
    if ok:
        ctx.ob("component/dimensions", q, True, f"(class, n, k, loop lo, loop hi) = {dims}", enc.loc)
    else:
        ctx.info(f"{q}.encode: loop spelling not recognised by the syntactic dimension cross-check ({dims}); the codeword rules decide the dimensions")


# ------------------------------------------------------------------------------------------------ variable length BPTC

VBPTC = {
    "VBPTC12873": dict(mod="etsi.fec.vbptc_128_72", n=128, R=8, C=16, data_rows=7, ham="Hamming16114", k=11, info=72,
                       cs_cells=[(2, 10), (3, 10), (4, 10), (5, 10), (6, 10)], cs_map="DEINTERLEAVE_5BIT_CHECKSUM",
                       cs_fn="deinterleave_cs5_bits", cs_order="msb-first", il=lambda r, c: c * 8 + r,
                       forms=[72, 77, 128], cs_kw="include_cs5"),
    "VBPTC6828": dict(mod="etsi.fec.vbptc_68_28", n=68, R=4, C=17, data_rows=3, ham="Hamming17123", k=12, info=28,
                      cs_cells=[(2, c) for c in range(4, 12)], cs_map="DEINTERLEAVE_8BIT_CHECKSUM",
                      cs_fn="deinterleave_crc8_bits", cs_order="lsb-first", il=lambda r, c: c * 4 + r,
                      forms=[28, 36, 68], cs_kw="include_crc8"),
    "VBPTC3211": dict(mod="etsi.fec.vbptc_32_11", n=32, R=2, C=16, data_rows=1, ham="Hamming16114", k=11, info=11,
                      cs_cells=[], cs_map=None, cs_fn=None, cs_order=None, il=lambda r, c: (2 * c + 17 * r) % 32,
                      forms=[11, 32], cs_kw=None),
}


def check_vbptc(ctx, name: str):
    repo = ctx.repo
    S = VBPTC[name]
    ci = repo.cls(S["mod"], name)
    q = ci.qualname
    n, R, C, DR = S["n"], S["R"], S["C"], S["data_rows"]
    ctx.saw(file=ci.module.relpath, table=f"{q}.INTERLEAVING_INDICES")
    try:
        T = repo.class_const(ci, "INTERLEAVING_INDICES")
        FI = repo.class_const(ci, "FULL_INTERLEAVING_MAP")
        FD = repo.class_const(ci, "FULL_DEINTERLEAVING_MAP")
        DI = repo.class_const(ci, "DEINTERLEAVE_INFO_BITS_ONLY_MAP")
        II = repo.class_const(ci, "INTERLEAVE_INFO_BITS_ONLY_MAP")
        CS = repo.class_const(ci, S["cs_map"]) if S["cs_map"] else None
    except Unfoldable as e:
        raise AnalysisError(f"{q}: table not foldable: {e}")
    loc = ci.loc
    ctx.ob("table/keys", q, sorted(T.keys()) == list(range(n)), f"{len(T)} keys, want 0..{n - 1}", loc)
    bad = [k for k, v in T.items() if (v[1], v[2]) != (k // C + 1, k % C)]
    ctx.ob("table/placement", q, not bad, f"keys off the row-major {R}x{C} position: {bad[:8]}", loc)
    bad = [k for k, v in T.items() if v[0] != S["il"](v[1] - 1, v[2])]
    ctx.ob("table/interleave-formula", q, not bad and sorted(v[0] for v in T.values()) == list(range(n)),
           f"keys whose transmit index is not the ETSI B.2 column-wise position: {bad[:8]}", loc,
           facts={k: list(T[k]) for k in bad[:8]})
    cs_cells = set(S["cs_cells"])
    bad = []
    for k, v in T.items():
        r, c = v[1] - 1, v[2]
        want_ham = r < DR and c >= S["k"]
        want_b = ((r, c) in cs_cells) if name != "VBPTC3211" else (r >= DR)
        if bool(v[3]) != want_ham or bool(v[4]) != want_b:
            bad.append(k)
    ctx.ob("table/flags", q, not bad, f"keys with wrong hamming/checksum(parity) flags: {bad[:8]}", loc)
    info = [k for k, v in sorted(T.items()) if v[1] - 1 < DR and v[2] < S["k"] and (v[1] - 1, v[2]) not in cs_cells]
    ctx.ob("table/info-count", q, len(info) == S["info"], f"{len(info)} information cells, want {S['info']}", loc)
    cs_keys = [k for k, v in sorted(T.items()) if (v[1] - 1, v[2]) in cs_cells]
    ok = (FI == {k: v[0] for k, v in T.items()} and FD == {v[0]: k for k, v in T.items()}
          and DI == {i: T[k][0] for i, k in enumerate(info)} and II == {i: k for i, k in enumerate(info)}
          and (CS is None or CS == {i: T[k][0] for i, k in enumerate(cs_keys)}))
    ctx.ob("table/derived-maps", q, ok, "derived maps disagree with INTERLEAVING_INDICES", loc)

    enc = repo.find_method(ci, "encode")
    ext = repo.find_method(ci, "deinterleave_data_bits")
    dal = repo.find_method(ci, "deinterleave_all_bits")
    csf = repo.find_method(ci, S["cs_fn"]) if S["cs_fn"] else None
    for f in (enc, ext, dal):
        if f is None:
            raise AnalysisError(f"{q}: encode/deinterleave_* not found")
        ctx.saw_func(f)
    H, kH, nH = spec_H(S["ham"])
    variants = [("even", {})] if name != "VBPTC3211" else [("even", {"even_parity": True}), ("odd", {"even_parity": False})]
    for vname, kw in variants:
        I = Interp(repo)
        key = q if vname == "even" else f"{q}[odd parity]"

        def run_enc(st):
            I.st = st
            return I.call(enc, [I.wire("m", S["info"])], dict(kw))

        paths = multi_path(I, run_enc, f"{q}.encode")
        fails = {"wiring/encode-width": [], "wiring/encode-systematic": [], "wiring/rows-codewords": [], "wiring/column-parity": []}
        for st, out in paths:
            I.st = st
            pn = path_name(st)
            ok_w = isinstance(out, ABits) and len(out.items) == n and not any(isinstance(b, OB) for b in out.items)
            if not ok_w:
                fails["wiring/encode-width"].append(f"encode returns {out!r}, want {n} non-opaque bits{pn}")
                continue
            tx = out.items
            bad = [(i, T[k][0]) for i, k in enumerate(info) if not carries(I, tx[T[k][0]], "m", i)]
            if bad:
                fails["wiring/encode-systematic"].append(f"(message bit, tx position) not carrying that bit: {bad[:6]}{pn}")
            cell = {(r, c): tx[S["il"](r, c)] for r in range(R) for c in range(C)}
            rows_bad = [r for r in range(DR) if not syndrome_zero(I, H, [cell[(r, c)] for c in range(C)])]
            if rows_bad:
                fails["wiring/rows-codewords"].append(f"data rows that are not {S['ham']} codewords: {rows_bad}{pn}")
            want = 0 if vname == "even" else 1
            cols_bad = []
            for c in range(C):
                acc = F(0, want)
                for r in range(R):
                    acc = acc ^ cell[(r, c)]
                acc = I.simp(acc)
                if not (isinstance(acc, F) and acc.is_const and acc.c == 0):
                    cols_bad.append(c)
            if cols_bad:
                fails["wiring/column-parity"].append(f"columns violating {vname} parity: {cols_bad}{pn}")
        for rule_, fl in fails.items():
            ctx.ob(rule_, key, not fl, "; ".join(fl[:3]) or (f"{len(paths)} encoder path(s)" if len(paths) > 1 else ""), enc.loc)
        if fails["wiring/encode-width"]:
            continue
        # checksum cells: a consistent bit order of ONE uninterpreted checksum value of the message
        if S["cs_cells"]:
            def run_cs(st2):
                I.st = st2
                cw = I.call(enc, [I.wire("m", S["info"])], {})
                return I.call(csf, [cw], {})
            w = len(S["cs_cells"])
            cs_fail = []
            order = None
            for st2, csbits in multi_path(I, run_cs, f"{q}.{S['cs_fn']}(encode(m))"):
                I.st = st2
                names = []
                for b in csbits.items if isinstance(csbits, ABits) else []:
                    b0 = b
                    b = I.simp(b)
                    nm = None
                    if isinstance(b, F) and b.c == 0 and len(b.atoms()) == 1:
                        nm = I.atoms.names[b.atoms()[0]]
                    elif isinstance(b, F) and b.is_const:
                        # a checksum bit that this path has fixed (the encoder branched on it): it must read back as that value
                        nm = ("const", b.c)
                    names.append(nm)
                fn_names = [x for x in names if isinstance(x, tuple) and x[0] == "fn"]
                okc = len(names) == w and all(isinstance(x, tuple) and x[0] in ("fn", "const") for x in names) and len({x[1] for x in fn_names}) <= 1
                if okc and fn_names:
                    fkey = fn_names[0][1]
                    # every position must carry the value bit the order demands: symbolic atom j, or the constant this path gave bit j
                    idxs = list(range(w - 1, -1, -1)) if S["cs_order"] == "msb-first" else list(range(w))
                    for pos_, j in enumerate(idxs):
                        x = names[pos_]
                        want_form = I.simp(I.atom_form(("fn", fkey, j)))
                        got_form = I.simp(csbits.items[pos_])
                        if got_form != want_form:
                            okc = False
                    order = S["cs_order"] if okc else order
                elif okc and not fn_names:
                    okc = False   # no bit of the checksum function arrives at all
                if not okc:
                    cs_fail.append(f"extractor({S['cs_fn']}) applied to encode(m) yields {[x[2] if isinstance(x, tuple) and x[0] == 'fn' else x for x in names]}, "
                                   f"not the {w} checksum value bits {S['cs_order']}{path_name(st2)}")
            ctx.ob("vbptc/checksum-order", key, not cs_fail, "; ".join(cs_fail[:2]) or f"value bits read back {S['cs_order']}", enc.loc)
            if not cs_fail:
                ctx.sample({"code": name, "order": order})
        # extraction
        I2 = Interp(repo)

        def run_ext(st3):
            I2.st = st3
            kw2 = {S["cs_kw"]: False} if S["cs_kw"] else {}
            return I2.call(ext, [I2.wire("w", n)], kw2)

        st3, got = single_path(I2, run_ext, f"{q}.deinterleave_data_bits")
        bad = []
        if not isinstance(got, ABits) or len(got.items) != S["info"]:
            bad.append(("length", repr(got)))
        else:
            bad = [(i, T[k][0]) for i, k in enumerate(info) if not carries(I2, got.items[i], "w", T[k][0])]
        ctx.ob("wiring/extract", key, not bad, f"(output bit, expected rx position) mismatches: {bad[:6]}", ext.loc)
        # three input forms
        I3 = Interp(repo)

        def run_forms(st4):
            I3.st = st4
            base = I3.call(enc, [I3.wire("m", S["info"])], dict(kw))
            outs = [base]
            if S["cs_kw"]:
                with_cs = I3.call(ext, [ABits(list(base.items))], {S["cs_kw"]: True})
                outs.append(I3.call(enc, [with_cs], dict(kw)))
            full = I3.call(dal, [ABits(list(base.items))], {})
            outs.append(I3.call(enc, [full], dict(kw)))
            return outs

        same, nforms = True, 0
        with ctx.guard(f"{q}: three input forms"):
            for st4, outs in multi_path(I3, run_forms, f"{q}: three input forms", max_paths=256):
                I3.st = st4
                nforms = len(outs)
                same = same and all(isinstance(o, ABits) and I3.simp_bits(o.items) == I3.simp_bits(outs[0].items) for o in outs[1:])
            ctx.ob("wiring/input-forms", key, same and nforms == len(S["forms"]),
                   f"encode of message / message+checksum / de-interleaved matrix give {'the same' if same else 'different'} bits ({nforms} forms)", enc.loc)
    # deinterleave_all_bits
    I5 = Interp(repo)

    def run_dal(st5):
        I5.st = st5
        return I5.call(dal, [I5.wire("w", n)], {})

    st5, got = single_path(I5, run_dal, f"{q}.deinterleave_all_bits")
    perm = [atom_index(I5, b, "w") for b in got.items] if isinstance(got, ABits) else []
    ctx.ob("wiring/deinterleave-all", q, len(perm) == n and sorted(x for x in perm if x is not None) == list(range(n)),
           "deinterleave_all_bits is not a permutation of the input positions", dal.loc)
    # component dimension facts
    import ast
    dims = []
    for node in ast.walk(enc.node):
        if isinstance(node, ast.Call) and isinstance(node.func, ast.Attribute) and node.func.attr == "generate":
            cname = ast.unparse(node.func.value)
            cref = repo.resolve(enc.module, cname)
            if cref is None or not hasattr(cref, "assigns"):
                raise AnalysisError(f"{q}.encode: component class {cname} not resolved")
            dims.append((cname, repo.class_const(cref, "CODEWORD_LENGTH"), repo.class_const(cref, "CODE_DIMENSION")))
    if dims == [(S["ham"], C, S["k"])]:
        ctx.ob("component/dimensions", q, True, f"row code used by encode: {dims}; matrix is {R}x{C}", enc.loc)
    else:
        ctx.info(f"{q}.encode: row-code call not recognised by the syntactic cross-check ({dims}); the row-codeword rule decides it")
