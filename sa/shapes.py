"""Shape-seeded analysis of byte-level codecs whose layout depends on length fields (shared by C12 / C16).

Captured packets found as hex constants in the repository's tests are decoded by constant evaluation to obtain
object SHAPES; every field of a shape is then replaced by symbols and writer -> reader -> writer is analysed
abstractly, deciding layout symmetry for ALL field values of that shape."""
from __future__ import annotations

import ast
import re

from .bitabs import (ABits, ACond, AEnum, AFin, AInt, AObj, AOpq, Abort, F, Interp, OB, PartialRaise, PathRaise, explore)
from .model import AnalysisError, EnumMember

KEEP_CONCRETE = {"opcode", "raw_opcode", "has_option", "version", "header", "pkt_type"}


def hex_seeds(repo, subdir, min_len=8):
    out = []
    tdir = repo.root / "okdmr" / "tests" / "dmrlib" / subdir
    if not tdir.exists():
        raise AnalysisError(f"captured packets (okdmr/tests/dmrlib/{subdir}) not found — they provide the analysed shapes")
    files = sorted(tdir.rglob("test_*.py")) if tdir.is_dir() else [tdir]
    for p in files:
        try:
            tree = ast.parse(p.read_text())
        except SyntaxError:
            continue
        for n in ast.walk(tree):
            if isinstance(n, ast.Constant) and isinstance(n.value, str):
                s = n.value.strip().replace(" ", "")
                if len(s) >= min_len and len(s) % 2 == 0 and re.fullmatch(r"[0-9a-fA-F]+", s):
                    out.append((p.name, bytes.fromhex(s)))
            elif isinstance(n, ast.Constant) and isinstance(n.value, bytes) and len(n.value) * 2 >= min_len:
                out.append((p.name, n.value))
            elif isinstance(n, ast.Call) and isinstance(n.func, ast.Name) and n.func.id == "bytes" and len(n.args) == 1 and isinstance(n.args[0], ast.List) \
                    and n.args[0].elts and all(isinstance(e, ast.Constant) and isinstance(e.value, int) and 0 <= e.value < 256 for e in n.args[0].elts) \
                    and len(n.args[0].elts) * 2 >= min_len:
                out.append((p.name, bytes(e.value for e in n.args[0].elts)))
    return out


def compare_fields(I, sy, o2, wire):
    """(number of compared fields, list of mismatches): every bit the writer transmits from a symbolic field must be decoded back"""
    bad, n_fields = [], 0
    wire_atoms = set()
    for b in I.simp_bits(wire.items):
        if isinstance(b, F):
            wire_atoms.update(b.atoms())
    for path, s in sy.fields.items():
        got = lookup(o2, path)
        if isinstance(got, AObj) and "__box__" in got.attrs:
            got = got.attrs["__box__"]
        if isinstance(s, AInt) and s.ext is not None:
            js = sorted(nm[2] for nm in (I.atoms.names[a] for a in wire_atoms) if isinstance(nm, tuple) and len(nm) == 3 and nm[0] == s.ext and nm[1] == "int")
            if not js:
                continue
            n_fields += 1
            gi = got if isinstance(got, AInt) else (AInt(list(reversed(got.items))) if isinstance(got, ABits) else None)
            if isinstance(got, AEnum):
                gi = got.val
            if isinstance(got, int) and not isinstance(got, bool):
                gi = I_to_aint(got)
            if gi is None:
                bad.append(f"{path}: decoded as {got!r}")
                continue
            wrong = [j for j in js if I.simp(gi.bit(j)) != I.simp(s.bit(j))]
            extra = [j for j in range(max(js) + 1, max(len(gi.bits), max(js) + 1)) if I.simp(gi.bit(j)) != F(0, 0)]
            if wrong or extra:
                bad.append(f"{path}: value bits {wrong[:6] or extra[:6]} not restored")
        else:
            sb = bits_of(I, s)
            used = any(isinstance(b, F) and set(b.atoms()) & wire_atoms for b in (s.items if isinstance(s, ABits) else s.bits)) if isinstance(s, (ABits, AInt)) else True
            if not used and all(isinstance(b, F) and not b.is_const for b in sb):
                continue  # the writer does not transmit this field in this shape
            gb = bits_of(I, got, len(sb)) if got is not None else None
            n_fields += 1
            if gb != sb:
                bad.append(f"{path}: decoded {'as ' + repr(got) if gb is None else 'with different bits'}")
    return n_fields, bad


def shape_of(v, depth=0):
    if isinstance(v, AObj):
        return (v.cls.name,) + tuple(sorted((k, shape_of(x, depth + 1)) for k, x in v.attrs.items() if not k.startswith("_")))
    if isinstance(v, (bytes, bytearray)):
        return ("bytes", len(v))
    if isinstance(v, ABits):
        return ("bytes", len(v.items) // 8)
    if isinstance(v, EnumMember):
        return ("enum", v.cls, v.name) if depth <= 2 else ("enum", v.cls)
    if isinstance(v, (list, tuple)):
        return ("seq",) + tuple(shape_of(x, depth + 1) for x in v)
    if isinstance(v, dict):
        return ("dict", tuple(sorted((repr(k), shape_of(x, depth + 1)) for k, x in v.items())))
    if isinstance(v, bool):
        return "bool"
    if isinstance(v, int):
        return "int"
    if isinstance(v, AInt):
        return "int"
    return type(v).__name__


class Symboliser:
    def __init__(self, I):
        self.I = I
        self.fields = {}   # symbol name -> (original value, symbol)
        self.n = 0

    concrete = frozenset()
    widths = {}      # field name -> bit width for small-range ints (exhaustive finite-function treatment)
    keep = KEEP_CONCRETE

    def sym(self, path, v):
        I = self.I
        if path in self.concrete:
            return v
        if isinstance(v, AObj):
            if "__box__" in v.attrs:
                b = v.attrs["__box__"]
                s = ABits([I.atom_form((f"f.{path}", "seq", i)) for i in range(len(b.items))], "bytes")
                v.attrs["__box__"] = s
                self.fields[path] = s
                return v
            for k in list(v.attrs):
                if k.startswith("_") or k in self.keep or k in ("checksum_correct", "checksum"):
                    continue
                sub = f"{path}.{k}" if path else k
                if self.owner is None:
                    self.owner = {}
                self.owner[sub] = v.cls
                v.attrs[k] = self.sym(sub, v.attrs[k])
            return v
        if isinstance(v, bool):
            s = AInt([I.atom_form((f"f.{path}", "int", 0))], isbool=True)
        elif isinstance(v, int):
            leaf = path.split(".")[-1]
            if leaf in self.widths:
                s = AInt([I.atom_form((f"f.{path}", "int", j)) for j in range(self.widths[leaf])])
            else:
                s = AInt([], ext=f"f.{path}", interp=I)
        elif isinstance(v, AInt) and (v.isbool or (v.ext is None and len(v.bits) == 1)):
            s = AInt([I.atom_form((f"f.{path}", "int", 0))], isbool=True)
        elif isinstance(v, AInt):
            s = AInt([], ext=f"f.{path}", interp=I)
        elif isinstance(v, (bytes, bytearray)):
            if len(v) == 0:
                return v
            s = ABits([I.atom_form((f"f.{path}", "seq", i)) for i in range(8 * len(v))], "bytes")
        elif isinstance(v, ABits) and v.kind == "bytes":
            if not v.items:
                return v
            s = ABits([I.atom_form((f"f.{path}", "seq", i)) for i in range(len(v.items))], "bytes")
        elif isinstance(v, list):
            return [self.sym(f"{path}[{i}]", x) for i, x in enumerate(v)]
        elif isinstance(v, tuple):
            return tuple(self.sym(f"{path}[{i}]", x) for i, x in enumerate(v))
        elif isinstance(v, EnumMember) and self.enums and self.enum_ok(path, v):
            ci, w = self._enum_info[v.cls]
            s = AEnum(ci, AInt([I.atom_form((f"f.{path}", "int", j)) for j in range(w)]))
            # only the DEFINED members are meant: a path that pins the bits to an undefined value is outside the assumption
            vals = frozenset(m.value for m in I.repo.enum_members(ci).values())
            I.st.__dict__.setdefault("wf_members", []).append((ci.qualname, tuple(s.val.msb_first(w)), vals))
        else:
            return v  # strings, floats, None, dicts and shape-selecting enums keep their captured value
        self.fields[path] = s
        return s

    enums = False
    _enum_info = None
    owner = None     # path -> class that holds the attribute (set while descending)

    def enum_ok(self, path, v) -> bool:
        """a small integer enumeration that the code of its owner class only serialises (`.value`, constructor call) and never
        compares or looks up: varying it cannot select another shape"""
        I = self.I
        if self._enum_info is None:
            self._enum_info = {}
        if v.cls not in self._enum_info:
            info = None
            for ci in I.repo.all_classes():
                if ci.name == v.cls and I.repo.is_enum(ci):
                    mem = I.repo.enum_members(ci)
                    vals = [m.value for m in mem.values()]
                    if len(vals) >= 2 and all(isinstance(x, int) and not isinstance(x, bool) and 0 <= x < 16 for x in vals):
                        info = (ci, max(max(vals).bit_length(), 1))
                    break
            self._enum_info[v.cls] = info
        if self._enum_info[v.cls] is None:
            return False
        leaf = path.split(".")[-1]
        own = (self.owner or {}).get(path)
        if own is None:
            return False
        import ast as _ast
        for m in own.methods.values():
            for n in _ast.walk(m.node):
                tests = []
                if isinstance(n, _ast.Compare):
                    tests = [n]
                elif isinstance(n, (_ast.Subscript,)):
                    tests = [n.slice]
                elif isinstance(n, (_ast.If, _ast.IfExp, _ast.While)):
                    tests = [n.test]
                elif isinstance(n, _ast.Call) and isinstance(n.func, _ast.Name) and n.func.id in ("isinstance", "getattr", "hasattr"):
                    tests = list(n.args)
                for t in tests:
                    if any(isinstance(x, _ast.Attribute) and x.attr == leaf and isinstance(x.ctx, _ast.Load) for x in _ast.walk(t)):
                        return False
        return True


def lookup(obj, path):
    cur = obj
    for part in re.findall(r"[^.\[\]]+|\[\d+\]", path):
        if part.startswith("["):
            if not isinstance(cur, (list, tuple)) or int(part[1:-1]) >= len(cur):
                return None      # the decoded object has fewer elements than the one that was serialised
            cur = cur[int(part[1:-1])]
        elif isinstance(cur, AObj):
            if part not in cur.attrs:
                return None
            cur = cur.attrs[part]
        else:
            return None
    return cur


def bits_of(I, v, w=None):
    if isinstance(v, AEnum) and isinstance(v.val, AInt) and v.val.ext is None:
        return I.simp_bits(v.val.msb_first(w or max(len(v.val.bits), 1)))
    if isinstance(v, EnumMember) and isinstance(v.value, int) and not isinstance(v.value, bool) and v.value >= 0 and w:
        return [F(0, (v.value >> (w - 1 - i)) & 1) for i in range(w)]
    if isinstance(v, ABits):
        return I.simp_bits(v.items)
    if isinstance(v, AInt):
        return I.simp_bits(v.msb_first(w or max(len(v.bits), 1)))
    if isinstance(v, (bytes, bytearray)):
        return [F(0, (x >> (7 - k)) & 1) for x in v for k in range(8)]
    if isinstance(v, bool):
        return [F(0, int(v))]
    if isinstance(v, int) and v >= 0:
        w = w or max(v.bit_length(), 1)
        return [F(0, (v >> (w - 1 - i)) & 1) for i in range(w)]
    return None


def explore_or_blame(run, max_paths):
    """like sa.bitabs.explore, but on a path explosion names the symbolised field whose atoms the reader forks on"""
    from sa.bitabs import PathState
    out, stack = [], [[]]
    while stack:
        script = stack.pop()
        st = PathState(script)
        try:
            res = ("ok", run(st))
        except PathRaise as e:
            res = ("raise", e)
        except Abort as e:
            res = ("abort", e)
        out.append((st, res))
        if len(out) > max_paths:
            for l in st.labels:
                m = re.search(r"'f\.([^']+)'", l)
                if m:
                    return None, m.group(1)
            raise AnalysisError(f"more than {max_paths} paths ({st.labels[:4]})")
        for i in range(len(script), len(st.decisions)):
            stack.append(st.decisions[:i] + [not st.decisions[i]])
    return out, None


def I_to_aint(v):
    return AInt([F(0, (v >> i) & 1) for i in range(max(v.bit_length(), 1))])


def const_byte(I, bits):
    bs = I.simp_bits(bits)
    if all(isinstance(b, F) and b.is_const for b in bs):
        return int("".join(str(b.c) for b in bs), 2)
    return None


def wire_probe(I_factory, fb, writer_name, raw, skip=()):
    """decode-then-encode with ONE octet of the capture symbolic at a time (the others keep their captured values):
    a wire bit that some decoded field depends on must be re-encoded at the same position.  Octets whose content
    steers the reader (forks, errors, other lengths) are structure and are skipped.  Returns (probed octets, mismatches)."""
    from .pdu import atoms_of_value
    probed, bad = 0, []
    for p in range(len(raw)):
        if p in skip:
            continue
        I = I_factory()

        def run_p(st, p=p):
            I.st = st
            items = [F(0, (x >> (7 - k)) & 1) for x in raw for k in range(8)]
            for k in range(8):
                items[p * 8 + k] = I.atom_form(("w", p * 8 + k))
            wire = ABits(items, "bytes")
            o = I.call(fb, [ABits(list(items), "bytes")], {})
            if not isinstance(o, AObj):
                raise PathRaise("ValueError", "no object")
            out = I.call(I.repo.find_method(o.cls, writer_name), [o], {})
            return wire, o, out

        try:
            res, blame = explore_or_blame(run_p, 24)
        except AnalysisError:
            continue
        if res is None or any(k != "ok" for _, (k, _) in res):
            continue  # structure octet (opcode, length, flags that select the layout)
        ok_paths = 0
        for st, (k, v) in res:
            I.st = st
            wire, o, out = v
            if isinstance(out, (bytes, bytearray)):
                out = ABits([F(0, (x >> (7 - kk)) & 1) for x in out for kk in range(8)], "bytes")
            if not isinstance(out, ABits) or len(out.items) != len(wire.items):
                continue
            ok_paths += 1
            fa = set()
            atoms_of_value(I, o, fa)
            ob, wb = I.simp_bits(out.items), I.simp_bits(wire.items)
            for k in range(8):
                w = wb[p * 8 + k]
                if isinstance(w, F) and not w.is_const and w.atoms()[0] in fa and ob[p * 8 + k] != w:
                    bad.append((p, k, repr(ob[p * 8 + k])[:40]))
        if ok_paths:
            probed += 1
    return probed, bad
