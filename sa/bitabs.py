"""E4 — abstract interpretation of bit/byte-shuffling code over GF(2)-affine forms.

Every bit is an affine form  c XOR a1 XOR a2 ...  over named atoms (wire bit i, value bit j of an
uninterpreted function result, ...), or Opaque.  Containers (bitarray, bytes, numpy vector/table) are
sequences of such bits of *known length*; integers are bit lists.  Loops over folded constant tables /
ranges are unrolled (constant iteration space), branches on discriminators are enumerated by replay
("trace partitioning"), equality with a constant on a true branch is recorded as a substitution.
No concrete input is ever supplied and no solver is involved: the result of analysing a function is,
per path, *which atoms each output bit is made of* — an index/linear-dependence summary valid for all
inputs.  Anything outside the modelled subset becomes Opaque and is counted, never guessed.
"""
from __future__ import annotations

import ast
from typing import Any, Callable, Dict, List, Optional, Tuple

from .model import (AnalysisError, BitArr, ClassInfo, ClassRef, EnumMember, Folder, FuncInfo, FuncRef, ModRef,
                    NPArr, Rec, Repo, Unfoldable)

# ----------------------------------------------------------------------------- bits


class Atoms:
    def __init__(self):
        self.names: List[Any] = []
        self.index: Dict[Any, int] = {}

    def get(self, name) -> int:
        i = self.index.get(name)
        if i is None:
            i = len(self.names)
            self.index[name] = i
            self.names.append(name)
        return i


class F:
    """GF(2) affine form: constant c XOR atoms in mask m"""
    __slots__ = ("m", "c")

    def __init__(self, m: int = 0, c: int = 0):
        self.m, self.c = m, c & 1

    def __xor__(self, o):
        if isinstance(o, OB):
            return o
        if isinstance(o, int):
            return F(self.m, self.c ^ (o & 1))
        if isinstance(o, AFin):
            return o.__xor__(self)
        return F(self.m ^ o.m, self.c ^ o.c)

    __rxor__ = __xor__

    def __eq__(self, o):
        if isinstance(o, OB):
            return o.__eq__(self)
        return isinstance(o, F) and self.m == o.m and self.c == o.c

    def __hash__(self):
        return hash((self.m, self.c))

    @property
    def is_const(self):
        return self.m == 0

    def atoms(self):
        m, out = self.m, []
        while m:
            low = m & -m
            out.append(low.bit_length() - 1)
            m ^= low
        return out

    def __repr__(self):
        return f"F({self.c}^{self.atoms()})" if self.m else f"{self.c}"


class OB:
    """opaque bit"""
    __slots__ = ("why",)

    def __init__(self, why=""):
        self.why = why

    def __xor__(self, o):
        return self

    __rxor__ = __xor__

    def __eq__(self, o):
        # An opaque bit is a value the engine could not follow.  Asking whether it equals a form (or another opaque bit) has no
        # answer: a rule that compares bits and meets one must fail as an ANALYSIS error, never conclude "different".
        if isinstance(o, (F, OB)) and o is not self:
            raise AnalysisError(f"a bit the analysis could not follow ({self.why or 'opaque'}) reached an equality comparison of a rule")
        return o is self

    def __ne__(self, o):
        return not self.__eq__(o)

    def __hash__(self):
        return id(self)

    is_const = False

    def __repr__(self):
        return f"OB({self.why})"


MAX_FIN_ATOMS = 12


class _Raises:
    """marker inside an AFin table: evaluating under this assignment raises"""

    def __init__(self, exc):
        self.exc = exc

    def __eq__(self, o):
        return isinstance(o, _Raises) and o.exc == self.exc

    def __hash__(self):
        return hash(("raises", self.exc))

    def __repr__(self):
        return f"<raises {self.exc}>"


class AFin:
    """a value given as an explicit function (truth table) of k <= 12 boolean atoms; exact, not an
    over-approximation.  atoms: sorted tuple of atom ids; table[idx] with idx bit i = value of atoms[i]"""
    __slots__ = ("atoms", "table")
    is_const = False

    def __init__(self, atoms, table):
        self.atoms, self.table = tuple(atoms), list(table)

    def value(self, assign):
        idx = 0
        for i, a in enumerate(self.atoms):
            if assign[a]:
                idx |= 1 << i
        return self.table[idx]

    def __xor__(self, o):
        return fin_lift(lambda a, b: (int(a) ^ int(b)) & 1, self, o)

    __rxor__ = __xor__

    def __eq__(self, o):
        return isinstance(o, AFin) and self.atoms == o.atoms and self.table == o.table

    def __hash__(self):
        return hash((self.atoms, tuple(map(repr, self.table))))

    def __repr__(self):
        return f"AFin(atoms={list(self.atoms)})"


def fin_atoms(v, acc):
    if isinstance(v, AFin):
        acc.update(v.atoms)
    elif isinstance(v, F):
        acc.update(v.atoms())
    elif isinstance(v, AInt):
        if v.ext is not None:
            raise Abort("unbounded symbolic int in finite-function domain")
        for b in v.bits:
            fin_atoms(b, acc)
    elif isinstance(v, AEnum):
        fin_atoms(v.val, acc)
    elif isinstance(v, (tuple, list)):
        for x in v:
            fin_atoms(x, acc)
    elif isinstance(v, OB):
        raise Abort("opaque bit in finite-function domain")
    elif isinstance(v, (ABits, AObj, AOpq, ATable, AView, ACond)):
        raise Abort(f"{type(v).__name__} in finite-function domain")


def fin_conc(v, assign):
    """concrete python value of v under a full assignment of its atoms"""
    if isinstance(v, AFin):
        return v.value(assign)
    if isinstance(v, F):
        c = v.c
        for a in v.atoms():
            c ^= assign[a]
        return c
    if isinstance(v, AInt):
        x = 0
        for i, b in enumerate(v.bits):
            x |= fin_conc(b, assign) << i
        return bool(x) if v.isbool else x
    if isinstance(v, tuple):
        return tuple(fin_conc(x, assign) for x in v)
    if isinstance(v, list):
        return [fin_conc(x, assign) for x in v]
    return v


def mkfin(atoms, table):
    """canonical AFin: drop atoms the function does not depend on; constant -> the constant itself"""
    atoms = list(atoms)
    table = list(table)
    i = 0
    while i < len(atoms):
        bit = 1 << i
        dep = False
        for idx in range(len(table)):
            if not idx & bit and table[idx] != table[idx | bit]:
                dep = True
                break
        if dep:
            i += 1
            continue
        table = [table[idx] for idx in range(len(table)) if not idx & bit]
        # re-pack: remove bit i from indices (entries are already ordered with bit i == 0 kept)
        atoms.pop(i)
    if not atoms:
        return table[0]
    return AFin(atoms, table)


def fin_to_bit(v):
    """an AFin with 0/1 values as a bit: an affine form if it is affine, else the AFin itself"""
    if not isinstance(v, AFin):
        return v
    table = v.table
    if not all((t is True or t is False or (isinstance(t, int) and t in (0, 1))) for t in table):
        return OB("non-boolean finite function as bit")
    c = int(table[0])
    k = len(v.atoms)
    coef = [int(table[1 << i]) ^ c for i in range(k)]
    for idx in range(len(table)):
        x = c
        for i in range(k):
            if idx >> i & 1:
                x ^= coef[i]
        if x != int(table[idx]):
            return AFin(v.atoms, [int(t) for t in table])
    m = 0
    for i, a in enumerate(v.atoms):
        if coef[i]:
            m |= 1 << a
    return F(m, c)


def fin_lift(fn, *args):
    """apply a python function pointwise over the joint assignments of the atoms of args"""
    acc = set()
    for a in args:
        fin_atoms(a, acc)
    atoms = sorted(acc)
    if len(atoms) > MAX_FIN_ATOMS:
        raise Abort(f"finite-function domain too wide ({len(atoms)} atoms)")
    table = []
    for idx in range(1 << len(atoms)):
        assign = {a: (idx >> i) & 1 for i, a in enumerate(atoms)}
        vals = [fin_conc(a, assign) for a in args]
        if any(isinstance(v, _Raises) for v in vals):
            table.append([v for v in vals if isinstance(v, _Raises)][0])
            continue
        try:
            table.append(fn(*vals))
        except (KeyError, IndexError, ValueError, ZeroDivisionError, TypeError) as e:
            table.append(_Raises(type(e).__name__))
    return mkfin(atoms, table)


ZERO, ONE = F(0, 0), F(0, 1)


def cbit(v) -> F:
    return ONE if v else ZERO


# ----------------------------------------------------------------------------- abstract values


class ABits:
    """sequence of bits of known length; kind: 'ba' bitarray, 'bytes', 'np' numpy 1-D ints, 'list'"""

    frozen = False   # frozenbitarray: every in-place operation raises TypeError; operators, slices and copy() keep the type

    def __init__(self, items, kind="ba", endian="big"):
        self.items = list(items)
        self.kind = kind
        self.endian = endian

    def __len__(self):
        return len(self.items)

    def copy(self, kind=None):
        r = ABits(self.items, kind or self.kind, self.endian)
        if self.frozen and r.kind == self.kind:
            r.frozen = True
        return r

    def __repr__(self):
        return f"ABits[{self.kind},{len(self.items)}]"


def _keep_frozen(src, res):
    """operators, slices and copies of a frozenbitarray are frozenbitarrays again"""
    if isinstance(src, ABits) and src.frozen and isinstance(res, ABits) and res is not src and res.kind == "ba":
        res.frozen = True
    return res


class AInt:
    """non-negative integer given by its binary digits (lsb first); ext = name of an unbounded symbolic
    field whose higher bits are atoms created on demand"""

    def __init__(self, lsb_bits, ext=None, interp=None, isbool=False, signed=False):
        self.bits = list(lsb_bits)
        self.ext = ext
        self.interp = interp
        self.isbool = isbool
        self.signed = signed
        self.oext = None         # reason why the magnitude is unknown (set for opaque arithmetic results)

    def bit(self, j):
        if j < len(self.bits):
            return self.bits[j]
        if self.ext is not None:
            return self.interp.atom_form((self.ext, "int", j))
        if self.oext is not None:
            return OB(self.oext)      # an integer of UNKNOWN magnitude (opaque arithmetic): no position is known to be 0
        return ZERO

    @property
    def width(self):
        return len(self.bits) if self.ext is None else None

    def msb_first(self, w):
        return [self.bit(j) for j in range(w - 1, -1, -1)]

    def __repr__(self):
        return f"AInt(w={self.width},ext={self.ext})"


class AScaled:
    """float value = factor * (signed) integer given by bits; quantisation (int()) is NOT modelled beyond factor == 1"""

    def __init__(self, aint, factor):
        self.aint, self.factor = aint, factor

    def __repr__(self):
        return f"AScaled(x{self.factor})"


class AEnum:
    def __init__(self, cls: ClassInfo, val: AInt):
        self.cls, self.val = cls, val

    def __repr__(self):
        return f"AEnum({self.cls.name})"


class AObj:
    def __init__(self, cls: ClassInfo, attrs=None):
        self.cls = cls
        self.attrs: Dict[str, Any] = attrs if attrs is not None else {}

    def __repr__(self):
        return f"AObj({self.cls.name})"


class ATable:
    """numpy 2-D int array"""

    def __init__(self, rows, cols, fill=None):
        self.rows, self.cols = rows, cols
        self.cells = [[fill if fill is not None else OB("uninitialised") for _ in range(cols)] for _ in range(rows)]


class _TRow:
    def __init__(self, base, r):
        self.base, self.r = base, r

    def __getitem__(self, c):
        if isinstance(c, slice):
            return [self.base.cells[cc][self.r] for cc in range(self.base.rows)[c]]
        return self.base.cells[c][self.r]

    def __setitem__(self, c, v):
        self.base.cells[c][self.r] = v

    def __len__(self):
        return self.base.rows

    def __iter__(self):
        return iter(self.base.cells[c][self.r] for c in range(self.base.rows))


class _TCells:
    def __init__(self, base):
        self.base = base

    def __getitem__(self, r):
        return _TRow(self.base, r)

    def __len__(self):
        return self.base.cols

    def __iter__(self):
        return iter(_TRow(self.base, r) for r in range(self.base.cols))


class ATableT(ATable):
    """transposed VIEW of an ATable (numpy `.T`): reads and writes go to the cells of the base table"""

    def __init__(self, base: ATable):
        self.base = base
        self.rows, self.cols = base.cols, base.rows
        self.cells = _TCells(base)


class AView:
    """a view into an ATable (row / column / sub-slices) or ABits of kind np: list of (cell getter/setter)"""

    def __init__(self, table: ATable, coords: List[Tuple[int, int]]):
        self.table, self.coords = table, coords

    def __len__(self):
        return len(self.coords)

    def get(self):
        return [self.table.cells[r][c] for r, c in self.coords]


class ASumVec:
    """numpy integer vector whose element i is the integer SUM of the listed bit forms (result of a
    0/1-matrix product with a bit vector); only reduction mod 2 turns it back into bits"""

    def __init__(self, rows):
        self.rows = rows

    def __len__(self):
        return len(self.rows)

    def mod2(self):
        out = []
        for r in self.rows:
            acc = F(0, 0)
            for b in r:
                acc = acc ^ b
            out.append(acc)
        return ABits(out, "np")


class ACond:
    """an undecided boolean with structural identity (e.g. crc16(fields) == received)"""

    def __init__(self, kind, *parts):
        self.kind, self.parts = kind, parts

    def key(self):
        return (self.kind, _freeze(self.parts))

    def __eq__(self, o):
        return isinstance(o, ACond) and self.key() == o.key()

    def __hash__(self):
        return hash(self.key())

    def __repr__(self):
        return f"ACond({self.kind})"


class AOpq:
    def __init__(self, why="", notnone=False):
        self.why = why
        self.notnone = notnone

    def __repr__(self):
        return f"AOpq({self.why})"


class AExt:
    """an external collaborator (transport, callback, storage stub ...): truthy; every method call on it is
    recorded as an EFFECT (name, args, kwargs) and returns an opaque value (or the configured result)"""

    def __init__(self, name, results=None):
        self.name = name
        self.results = results or {}

    def __repr__(self):
        return f"AExt({self.name})"


class AFn:
    """bound method / callable on an abstract value"""

    def __init__(self, base, name):
        self.base, self.name = base, name


def _freeze(v):
    if isinstance(v, (list, tuple)):
        return tuple(_freeze(x) for x in v)
    if isinstance(v, ABits):
        return ("ABits", v.kind, tuple(v.items))
    if isinstance(v, AInt):
        return ("AInt", tuple(v.bits), v.ext)
    if isinstance(v, AEnum):
        return ("AEnum", v.cls.qualname, _freeze(v.val))
    if isinstance(v, dict):
        return tuple(sorted((repr(k), _freeze(x)) for k, x in v.items()))
    if isinstance(v, (AObj, AOpq, ATable, AView)):
        return ("id", id(v))
    try:
        hash(v)
        return v
    except TypeError:
        return repr(v)


# ----------------------------------------------------------------------------- control


class PathRaise(Exception):
    """the analysed code raises on this path"""

    def __init__(self, exc: str, msg: str = ""):
        super().__init__(f"{exc}: {msg}")
        self.exc, self.msg = exc, msg


class Abort(Exception):
    """this path cannot be analysed (unmodelled construct governs control flow)"""


class PartialRaise(Abort):
    """the analysed code raises for SOME inputs on this path (data-dependent failure)"""

    def __init__(self, exc, where):
        super().__init__(f"raises {exc} for some inputs at {where}")
        self.exc, self.where = exc, where


class NeedCases(Exception):
    """a branch depends on a finite function of these atoms: the enclosing `if` is analysed per assignment"""

    def __init__(self, atoms):
        super().__init__(f"case split on {len(atoms)} atoms")
        self.atoms = tuple(atoms)


class _Closure(dict):
    """environment of a nested function / lambda: own names first, then the enclosing frame's environment (by reference)"""

    def __init__(self, outer):
        super().__init__()
        self.outer = outer

    def __missing__(self, k):
        return self.outer[k]

    def __contains__(self, k):
        return dict.__contains__(self, k) or k in self.outer

    def get(self, k, d=None):
        return self[k] if k in self else d


def _is_generator(fn_node) -> bool:
    """does the function body contain a yield of its own (nested functions / lambdas not counted)?"""
    stack = list(fn_node.body)
    while stack:
        n = stack.pop()
        if isinstance(n, (ast.Yield, ast.YieldFrom)):
            return True
        if isinstance(n, (ast.FunctionDef, ast.AsyncFunctionDef, ast.Lambda, ast.ClassDef)):
            continue
        stack.extend(ast.iter_child_nodes(n))
    return False


class _Ret(Exception):
    def __init__(self, v):
        self.v = v


class _Break(Exception):
    pass


class _Continue(Exception):
    pass


class LinSys:
    """affine constraints over GF(2) in reduced echelon form: pivot atom -> form over non-pivot atoms
    (Karr-style affine relations along one path); `const` mirrors the pivots whose form is a constant"""

    def __init__(self, rows=None):
        self.rows: Dict[int, F] = dict(rows or {})
        self.pmask = 0
        for p in self.rows:
            self.pmask |= 1 << p
        self.const: Dict[int, int] = {p: r.c for p, r in self.rows.items() if r.m == 0}

    def copy(self):
        return LinSys(self.rows)

    def reduce(self, f: "F") -> "F":
        m = f.m & self.pmask
        if not m:
            return f
        fm, fc = f.m, f.c
        while m:
            low = m & -m
            r = self.rows[low.bit_length() - 1]
            fm ^= low ^ r.m
            fc ^= r.c
            m ^= low
        return F(fm, fc)

    def add(self, e: "F") -> str:
        """add the equation e == 0; returns 'redundant' | 'contradiction' | 'added'"""
        e = self.reduce(e)
        if e.m == 0:
            return "redundant" if e.c == 0 else "contradiction"
        p = e.m.bit_length() - 1
        row = F(e.m ^ (1 << p), e.c)
        bit = 1 << p
        for q, r in list(self.rows.items()):
            if r.m & bit:
                self.rows[q] = F(r.m ^ bit ^ row.m, r.c ^ row.c)
        self.rows[p] = row
        self.pmask |= bit
        self.const = {q: r.c for q, r in self.rows.items() if r.m == 0}
        return "added"

    def implied(self, eqs) -> str:
        """status of a conjunction of equations without committing: 'true' | 'false' | 'open'"""
        t = self.copy()
        st = "true"
        for e in eqs:
            r = t.add(e)
            if r == "contradiction":
                return "false"
            if r == "added":
                st = "open"
        return st


class PathState:
    def __init__(self, script):
        self.effects: List[Any] = []
        self.script = list(script)
        self.decisions: List[bool] = []
        self.labels: List[str] = []
        self.lin = LinSys()
        self.eqs: List[Tuple[tuple, int, bool]] = []  # (forms msb-first, const, equal?)
        self.conds: Dict[Any, bool] = {}
        self.assumed: List[str] = []

    @property
    def subst(self) -> Dict[int, int]:
        """atoms fixed to a constant on this path"""
        return self.lin.const

    def infeasible(self) -> bool:
        """do the affine constraints collected on this path contradict a disequality recorded earlier on it?  (the false
        branch of `x == c` only REMEMBERS x != c; constraints added later — a fork on the atoms of x — can force x == c)"""
        for k, c, eq in self.eqs:
            if eq:
                continue
            w = len(k)
            val = 0
            for f in k:
                if not isinstance(f, F):
                    break
                f = self.lin.reduce(f)
                if f.m:
                    break
                val = (val << 1) | f.c
            else:
                if val == c and (w or c == 0):
                    return True
        for _q, k, vals in self.__dict__.get("wf_undefined", ()):
            val = 0
            for f in k:
                if not isinstance(f, F):
                    break
                f = self.lin.reduce(f)
                if f.m:
                    break
                val = (val << 1) | f.c
            else:
                if val in vals:
                    return True
        for _q, k, vals in self.__dict__.get("wf_members", ()):
            val = 0
            for f in k:
                if not isinstance(f, F):
                    break
                f = self.lin.reduce(f)
                if f.m:
                    break
                val = (val << 1) | f.c
            else:
                if val not in vals:
                    return True
        return False

    def choose(self, label: str) -> bool:
        if getattr(self, "no_fork", 0):
            raise Abort("fork needed inside a tentatively merged branch")
        i = len(self.decisions)
        v = self.script[i] if i < len(self.script) else True
        self.decisions.append(v)
        self.labels.append(label)
        return v


def explore(run: Callable[[PathState], Any], max_paths: int = 400):
    """enumerate all paths of `run` by replay; returns list of (state, ('ok'|'raise'|'abort', value))"""
    out = []
    stack = [[]]
    while stack:
        script = stack.pop()
        st = PathState(script)
        try:
            res = ("ok", run(st))
        except PathRaise as e:
            res = ("raise", e)
        except Abort as e:
            res = ("abort", e)
        if not st.infeasible():
            out.append((st, res))
        if len(out) > max_paths:
            raise AnalysisError(f"more than {max_paths} paths")
        for i in range(len(script), len(st.decisions)):
            stack.append(st.decisions[:i] + [not st.decisions[i]])
    return out


# ----------------------------------------------------------------------------- interpreter

MAX_DEPTH = 14
MAX_STEPS = 3_000_000


class Interp:
    def __init__(self, repo: Repo, atoms: Optional[Atoms] = None):
        self.repo = repo
        self.atoms = atoms or Atoms()
        self.st: PathState = PathState([])
        self.depth = 0
        self.steps = 0
        self.case_depth = 0
        self.effects: List[Any] = []
        self.summaries: Dict[str, Callable] = {}
        self.opaque_log: List[str] = []
        self.calls_seen: List[str] = []
        self.trace_calls = False
        self.on_call: Optional[Callable] = None
        from . import bitabs_models
        bitabs_models.install(self)

    # ---- atoms / forms
    def atom_form(self, name) -> F:
        i = self.atoms.get(name)
        return self.st.lin.reduce(F(1 << i, 0))

    def raw_atom(self, name) -> F:
        """the input bit itself, NOT rewritten by what the current path has learnt (for reference forms built outside a path)"""
        return F(1 << self.atoms.get(name), 0)

    def simp(self, b):
        if isinstance(b, AFin):
            if not any(a in self.st.subst for a in b.atoms):
                # a finite function that happens to be affine in its atoms IS the affine form (one canonical spelling per bit)
                r0 = fin_to_bit(b) if all(t in (0, 1, True, False) for t in b.table) else b
                return self.st.lin.reduce(r0) if isinstance(r0, F) and r0.m else r0
            keep = [a for a in b.atoms if a not in self.st.subst]
            table = []
            for idx in range(1 << len(keep)):
                assign = dict(self.st.subst)
                for i, a in enumerate(keep):
                    assign[a] = (idx >> i) & 1
                table.append(b.value(assign))
            r = mkfin(keep, table)
            if isinstance(r, AFin):
                return fin_to_bit(r)
            return cbit(r) if r in (0, 1, True, False) else OB("non-boolean")
        if isinstance(b, OB) or b.m == 0:
            return b
        return self.st.lin.reduce(b)

    def simp_fin(self, v):
        """restrict a general (non-boolean) AFin to the current substitution"""
        if not isinstance(v, AFin) or not any(a in self.st.subst for a in v.atoms):
            return v
        keep = [a for a in v.atoms if a not in self.st.subst]
        table = []
        for idx in range(1 << len(keep)):
            assign = dict(self.st.subst)
            for i, a in enumerate(keep):
                assign[a] = (idx >> i) & 1
            table.append(v.value(assign))
        return mkfin(keep, table)

    def simp_bits(self, bits):
        return [self.simp(b) for b in bits]

    def wire(self, name: str, n: int, kind="ba") -> ABits:
        return ABits([self.atom_form((name, i)) for i in range(n)], kind)

    def opaque(self, why: str, notnone: bool = False) -> AOpq:
        if len(self.opaque_log) < 200:
            self.opaque_log.append(why)
        return AOpq(why, notnone)

    # ---- decisions
    def decide_eq(self, forms_msb, const: int, label: str) -> bool:
        """is the unsigned integer with these digits equal to const?  may fork."""
        forms = self.simp_bits(forms_msb)
        w = len(forms)
        if const < 0 or const >= (1 << w) if w else const != 0:
            return False
        cb = [(const >> (w - 1 - i)) & 1 for i in range(w)]
        if any(isinstance(f, OB) for f in forms):
            raise Abort(f"comparison of opaque bits ({label})")
        fin = [f for f in forms if isinstance(f, AFin)]
        if fin:
            acc = set()
            for f in fin:
                acc.update(f.atoms)
            raise NeedCases(sorted(acc))
        if getattr(self, "assume_fn_nonzero", False) and const == 0:
            ats = set()
            for f in forms:
                ats.update(f.atoms())
            if ats and all(isinstance(self.atoms.names[a], tuple) and self.atoms.names[a][0] == "fn" for a in ats):
                self.st.assumed.append(f"an uninterpreted check value is not 0 ({label})")
                return False
        eqs = [f ^ b for f, b in zip(forms, cb)]
        status = self.st.lin.implied(eqs)
        if status == "true":
            return True
        if status == "false":
            return False
        key = tuple(forms)
        for k, c, eq in self.st.eqs:
            if not eq and c == const and tuple(self.simp_bits(list(k))) == key:
                return False
        v = self.st.choose(f"{label}=={const}")
        if v:
            for e in eqs:
                self.st.lin.add(e)
            self.st.eqs.append((key, const, True))
        else:
            self.st.eqs.append((key, const, False))
            live = [e for e in (self.simp(x) for x in eqs) if not (isinstance(e, F) and e.is_const)]
            if len(live) == 1:
                # all other digits agree already: the one remaining bit differs — it is 1-c, linear after all
                self.st.lin.add(live[0] ^ 1)
        return v

    def decide(self, v, label="cond") -> bool:
        """truth value of an abstract value used as a condition"""
        if isinstance(v, AInt):
            if v.ext is not None:
                key = ("nz", v.ext)
                if key not in self.st.conds:
                    self.st.conds[key] = self.st.choose(f"{v.ext}!=0")
                return self.st.conds[key]
            return not self.decide_eq(v.msb_first(len(v.bits)), 0, label)
        if isinstance(v, AFin):
            v2 = self.simp_fin(v)
            if isinstance(v2, AFin):
                truths = [self.const_truth(t) for t in v2.table]
                if None not in truths:
                    if len(set(truths)) == 1:
                        return truths[0]                  # every selected value has the same truth value (members of an Enum ...)
                    v2 = AFin(v2.atoms, truths)
                if all(t is True or t is False for t in v2.table):
                    # a truth value that is an AFFINE function of a few input bits (parity of a masked word): one linear decision
                    b = fin_to_bit(v2)
                    if isinstance(b, F):
                        return not self.decide_eq([b], 0, label)
                raise NeedCases(v2.atoms)
            return bool(v2)
        if isinstance(v, ACond):
            k = v.key()
            if k in self.st.conds:
                return self.st.conds[k]
            # equality of two symbolic values is a conjunction of LINEAR equations l_j ^ r_j = 0: decided like a comparison with a
            # constant (the true branch learns them, the false branch remembers the disequality) instead of guessing blindly
            if v.kind == "not" and len(v.parts) == 1 and isinstance(v.parts[0], ACond):
                r = not self.decide(v.parts[0], label)
                self.st.conds[k] = r
                return r
            if v.kind in ("eq", "eqseq") and len(v.parts) == 2:
                a, b = v.parts
                fa = fb = None
                if v.kind == "eq" and isinstance(a, AInt) and isinstance(b, AInt) and a.ext is None and b.ext is None and not a.signed and not b.signed:
                    w = max(len(a.bits), len(b.bits))
                    fa, fb = [a.bit(j) for j in range(w)], [b.bit(j) for j in range(w)]
                elif v.kind == "eqseq" and isinstance(a, ABits) and isinstance(b, ABits) and len(a.items) == len(b.items):
                    fa, fb = list(a.items), list(b.items)
                if fa is not None and all(isinstance(x, F) for x in fa + fb):
                    d = [x ^ y for x, y in zip(fa, fb)]
                    if not any(self._is_fn_form(x) for x in d) and d:
                        r = self.decide_eq(d, 0, f"{label}:{v.kind}")
                        self.st.conds[k] = r
                        return r
            self.st.conds[k] = self.st.choose(f"{label}:{v.kind}")
            return self.st.conds[k]
        if isinstance(v, ABits):
            return len(v.items) > 0
        if isinstance(v, (AObj, AEnum, AExt)):
            return True
        if isinstance(v, AOpq):
            raise Abort(f"branch on opaque value ({v.why}) at {label}")
        if isinstance(v, (ATable, AView)):
            raise Abort("truth value of array")
        return bool(v)

    def const_truth(self, t):
        """bool(t) of a constant value of the analysed program, None when it is not known here"""
        if t is None or isinstance(t, (bool, int, float, str, bytes, bytearray, tuple, list, dict, set, frozenset)):
            return bool(t)
        if isinstance(t, EnumMember):
            for ci in self.repo.all_classes():
                if ci.name == t.cls and self.repo.is_enum(ci):
                    mro = self.repo.mro(ci)
                    if any(m in c.methods for c in mro for m in ("__bool__", "__len__")):
                        return None
                    mixed = any(b.split(".")[-1] in ("IntEnum", "IntFlag", "Flag", "StrEnum", "int", "str", "bytes") for c in mro for b in (ast.unparse(x) for x in c.node.bases))
                    return bool(t.value) if mixed else True
            return None
        return None

    def _is_fn_form(self, f) -> bool:
        """does the form mention an uninterpreted-function atom?  (nothing is learnt about those by guessing their value)"""
        for a in f.atoms():
            nm = self.atoms.names[a]
            if isinstance(nm, tuple) and nm and nm[0] == "fn":
                return True
        return False

    # ---- calling repo functions
    def call(self, fi: FuncInfo, args: List[Any], kwargs: Dict[str, Any], bound_cls: Optional[ClassInfo] = None, closure: Optional[dict] = None):
        q = fi.qualname
        if self.on_call:
            self.on_call(fi, args, kwargs)
        if q in self.summaries:
            r = self.summaries[q](self, fi, args, kwargs, bound_cls)
            if r is not NotImplemented:
                return r
        if self.depth >= MAX_DEPTH:
            return self.opaque(f"call depth at {q}")
        a = fi.node.args
        params = [x.arg for x in a.posonlyargs + a.args]
        env: Dict[str, Any] = _Closure(closure) if closure is not None else {}
        if len(args) > len(params) and not a.vararg:
            raise PathRaise("TypeError", f"too many arguments for {q}")
        for p, v in zip(params, args):
            env[p] = v
        if a.vararg:
            env[a.vararg.arg] = tuple(args[len(params):])
        extra_kw = {}
        for k, v in kwargs.items():
            if k in params:
                env[k] = v
            elif k in [x.arg for x in a.kwonlyargs]:
                env[k] = v
            elif a.kwarg:
                extra_kw[k] = v
            else:
                raise PathRaise("TypeError", f"{q} got an unexpected keyword {k}")
        if a.kwarg:
            env[a.kwarg.arg] = extra_kw
        defaults = a.defaults
        dparams = params[len(params) - len(defaults):]
        for p, d in zip(dparams, defaults):
            if p not in env:
                env[p] = self.eval_default(fi, d)
        for p, d in zip(a.kwonlyargs, a.kw_defaults):
            if p.arg not in env and d is not None:
                env[p.arg] = self.eval_default(fi, d)
        missing = [p for p in params if p not in env]
        if missing:
            raise PathRaise("TypeError", f"{q} missing {missing}")
        frame = Frame(self, fi, env, bound_cls)
        is_gen = getattr(fi, "_is_gen", None)
        if is_gen is None:
            is_gen = fi._is_gen = _is_generator(fi.node)
        if is_gen:
            frame.yields = []
        self.depth += 1
        try:
            frame.exec_block(fi.node.body)
        except _Ret as r:
            if not is_gen:
                return r.v
        finally:
            self.depth -= 1
        # a generator function is run to its end and hands back the list of what it yields (its laziness is not modelled)
        return frame.yields if is_gen else None

    def eval_default(self, fi: FuncInfo, d: ast.AST):
        """default values are evaluated ONCE per function (Python semantics): one object per analysed path"""
        cache = self.st.__dict__.setdefault("defaults", {})
        key = (fi.qualname, id(d))
        if key not in cache:
            fr = Frame(self, fi, {}, None)
            cache[key] = fr.ev(d)
        return cache[key]

    def construct(self, ci: ClassInfo, args, kwargs):
        repo = self.repo
        if repo.is_enum(ci):
            return self.enum_lookup(ci, args[0] if args else None)
        q = ci.qualname + ".__new__"
        if q in self.summaries:
            r = self.summaries[q](self, ci, args, kwargs, ci)
            if r is not NotImplemented:
                return r
        obj = AObj(ci)
        is_dc = any(d.startswith("dataclass") for d in ci.decorators)
        init = repo.find_method(ci, "__init__")
        if init is None and is_dc:
            try:
                rec = Folder(repo, ci.module, None).construct(ci, args, kwargs)
                obj.attrs.update(rec.fields)
                return obj
            except Exception:
                return self.opaque(f"dataclass {ci.name} with abstract fields")
        if init is None:
            return obj
        self.call(init, [obj] + list(args), kwargs, ci)
        return obj

    def missing_may_return_regular_member(self, ci: ClassInfo) -> bool:
        """does the class's _missing_ COMPUTE the member it returns (tolerant / nearest matching ...) instead of naming a fixed one?
        Decided from its return statements: None and `cls.<Member>` are fixed; anything else (a loop variable, a call) is computed."""
        key = ("missing_regular", ci.qualname)
        cache = self.repo._cache
        if key in cache:
            return cache[key]
        miss = self.repo.find_method(ci, "_missing_")
        res = False
        if miss is not None:
            members = self.repo.enum_members(ci)
            vals_ = [m.value for m in members.values()]
            small = bool(vals_) and all(isinstance(x, int) and not isinstance(x, bool) and 0 <= x < 1024 for x in vals_)

            def fixed(e):
                # None, a named member, or a choice between such (conditional expression / and / or)
                if isinstance(e, ast.Constant) and e.value is None:
                    return True
                if isinstance(e, ast.Attribute) and isinstance(e.value, ast.Name) and e.value.id in ("cls", ci.name) and e.attr in members:
                    return True
                if isinstance(e, ast.IfExp):
                    return fixed(e.body) and fixed(e.orelse)
                if isinstance(e, ast.BoolOp):
                    return all(fixed(x) for x in e.values)
                return False
            for n in ast.walk(miss.node):
                if isinstance(n, ast.Return) and n.value is not None:
                    if fixed(n.value):
                        continue   # fixed, named members (reserved folding): the lazy view with its documented well-formedness reading stays
                    if small:
                        # a field of a few bits: whatever way _missing_ spells it (a table, arithmetic on the value), all it can do is
                        # fold undefined values onto members — the reserved-folding reading, not tolerant matching of a wide pattern
                        continue
                    res = True     # a computed member of a wide enumeration (loop variable, nearest match ...): only interpretation tells which
        cache[key] = res
        return res

    def missing_never_returns(self, ci: ClassInfo) -> bool:
        """no _missing_, or one that only raises (never hands out a member): an undefined value ends in ValueError"""
        miss = self.repo.find_method(ci, "_missing_")
        if miss is None:
            return True
        for n in ast.walk(miss.node):
            if isinstance(n, ast.Return) and n.value is not None and not (isinstance(n.value, ast.Constant) and n.value.value is None):
                return False
        return True

    def enum_lookup(self, ci: ClassInfo, v, via_map=None, default=None):
        """Enum(v); via_map='index' / 'get': Enum._value2member_map_[v] / .get(v, default) — the same member for a defined value,
        but _missing_ is never consulted and an undefined value ends in KeyError / the default"""
        members = self.repo.enum_members(ci)
        if isinstance(v, tuple):
            def conc(x):
                if isinstance(x, AInt) and x.ext is None:
                    bits = self.simp_bits(x.bits)
                    if all(isinstance(b, F) and b.is_const for b in bits):
                        c = sum(b.c << i for i, b in enumerate(bits))
                        return bool(c) if x.isbool else c
                return x
            v = tuple(conc(x) for x in v)
            if any(isinstance(x, (AInt, AFin, AOpq)) for x in v):
                return self.opaque(f"tuple-valued enum {ci.name} of abstract components")
        if isinstance(v, AEnum):
            return v
        if isinstance(v, EnumMember):
            return v
        if isinstance(v, AInt):
            forms = self.simp_bits(v.msb_first(len(v.bits))) if v.ext is None else None
            if forms is not None and all(isinstance(f, F) and f.is_const for f in forms):
                v = int("".join(str(f.c) for f in forms) or "0", 2)
            else:
                if via_map is None and getattr(self, "explore_undefined_enums", False) and forms is not None and 0 < len(forms) <= 10 \
                        and self.repo.find_method(ci, "_missing_") is not None:
                    # a _missing_ that refuses SOME values of the field (falls off its last range, returns None): each such value is
                    # a raising path of its own, decided as an equality; found by constant evaluation over the field's width
                    ck_ = ("enum-refused", ci.qualname, len(forms))
                    bad_vals = self.repo._cache.get(ck_)
                    if bad_vals is None:
                        bad_vals = []
                        for val_ in range(1 << len(forms)):
                            try:
                                self.enum_lookup(ci, val_)
                            except PathRaise:
                                bad_vals.append(val_)
                            except (Abort, NeedCases):
                                bad_vals = []
                                break
                        if len(bad_vals) > 16:
                            bad_vals = []          # an enumeration that refuses most values is the "explore the ValueError exit" case below
                        self.repo._cache[ck_] = bad_vals
                    for val_ in bad_vals:
                        if self.decide_eq(forms, val_, f"{ci.name} refuses {val_}"):
                            raise PathRaise("ValueError", f"{val_} is not a valid {ci.name}")
                if via_map is None and getattr(self, "exact_enum_folding", False) and forms is not None and self.repo.find_method(ci, "_missing_") is not None:
                    # reserved-folding enum over a few bit atoms: the exact finite function value -> member
                    acc = set()
                    try:
                        fin_atoms(AInt(list(reversed(forms))), acc)
                    except Abort:
                        acc = None
                    if acc is not None and len(acc) <= 8:
                        try:
                            return fin_lift(lambda x: self.enum_lookup(ci, x), AInt(list(reversed(forms))))
                        except PathRaise:
                            pass
                if via_map is None and forms is not None and self.missing_may_return_regular_member(ci):
                    # _missing_ can hand out ordinary members (tolerant matching ...): the lazy "member <=> equal value" view would
                    # be wrong, so the lookup is resolved here: exact match with a member value first, _missing_ interpreted otherwise
                    for m in members.values():
                        if isinstance(m.value, int) and not isinstance(m.value, bool) and m.value >= 0 \
                                and self.decide_eq(forms, m.value, f"{ci.name}=={m.name}"):
                            return m
                    r = self.call(self.repo.find_method(ci, "_missing_"), [ClassRef(ci), v], {}, ci)
                    if r is None:
                        raise PathRaise("ValueError", f"not a valid {ci.name}")
                    return r
                if forms is not None and getattr(self, "explore_undefined_enums", False) and (via_map is not None or self.missing_never_returns(ci)):
                    # an enumeration without _missing_ raises ValueError for an undefined value: that exit is a path of its own
                    # (a caller may swallow the exception), taken when some value of these bits is undefined
                    defined = {m.value for m in members.values() if isinstance(m.value, int) and not isinstance(m.value, bool)}
                    ats = sorted({a for f in forms for a in f.atoms()}) if all(isinstance(f, F) for f in forms) else None
                    possible = False
                    if ats is not None and len(ats) <= 12:
                        for idx in range(1 << len(ats)):
                            asg = {a: (idx >> i) & 1 for i, a in enumerate(ats)}
                            val = 0
                            for f in forms:
                                bit = f.c
                                for a in f.atoms():
                                    bit ^= asg[a]
                                val = (val << 1) | bit
                            if val not in defined:
                                possible = True
                                break
                    elif ats is not None:
                        possible = True
                    if possible:
                        ck = ("enum-undefined", ci.qualname, tuple(forms))
                        if ck not in self.st.conds:
                            self.st.conds[ck] = self.st.choose(f"{ci.name} undefined")
                        if self.st.conds[ck]:
                            self.st.__dict__.setdefault("wf_undefined", []).append((ci.qualname, tuple(forms), frozenset(defined)))
                            if via_map == "get":
                                return default
                            raise PathRaise("KeyError" if via_map else "ValueError", f"not a valid {ci.name}")
                if forms is not None:
                    # the lazy view ASSUMES a defined value (well-formed input); remembered, so that a path which later pins the
                    # bits to an undefined value is recognised as outside the assumption (PathState.infeasible)
                    vals = frozenset(m.value for m in members.values() if isinstance(m.value, int) and not isinstance(m.value, bool))
                    self.st.__dict__.setdefault("wf_members", []).append((ci.qualname, tuple(forms), vals))
                return AEnum(ci, v)
        if isinstance(v, (AOpq,)):
            return self.opaque(f"enum {ci.name} of opaque")
        for m in members.values():
            if m.value == v and type(m.value) == type(v) or (isinstance(v, (int, bool)) and isinstance(m.value, (int, bool)) and m.value == v) \
                    or (isinstance(v, tuple) and isinstance(m.value, tuple) and m.value == v):
                return m
        miss = self.repo.find_method(ci, "_missing_")
        if miss is not None:
            r = self.call(miss, [ClassRef(ci), v], {}, ci)
            if r is None:
                raise PathRaise("ValueError", f"{v!r} is not a valid {ci.name}")
            return r
        raise PathRaise("ValueError", f"{v!r} is not a valid {ci.name}")


class Frame:
    def __init__(self, interp: Interp, fi: FuncInfo, env: Dict[str, Any], bound_cls: Optional[ClassInfo]):
        self.I, self.fi, self.env, self.bound_cls = interp, fi, env, bound_cls
        self.module = fi.module
        self.folder = Folder(interp.repo, fi.module, None)

    # ------------------------------------------------------------ statements
    def exec_block(self, stmts):
        for st in stmts:
            self.I.steps += 1
            if self.I.steps > MAX_STEPS:
                raise AnalysisError("abstract interpretation step budget exceeded")
            m = getattr(self, "st_" + type(st).__name__, None)
            if m is None:
                raise Abort(f"statement {type(st).__name__} at {self.fi.module.relpath}:{st.lineno}")
            try:
                m(st)
            except NeedCases as nc:
                if self.I.case_depth >= 3:
                    raise Abort("nested case splits too deep")
                self.stmt_by_cases(st, m, nc.atoms)

    def st_Expr(self, st):
        if isinstance(st.value, ast.Constant):
            return
        self.ev(st.value)

    def st_Pass(self, st):
        pass

    def st_Return(self, st):
        raise _Ret(self.ev(st.value) if st.value is not None else None)

    def st_Assign(self, st):
        v = self.ev(st.value)
        for t in st.targets:
            self.assign(t, v)

    def st_AnnAssign(self, st):
        if st.value is not None:
            self.assign(st.target, self.ev(st.value))

    def st_AugAssign(self, st):
        cur = self.ev(_load(st.target))
        if isinstance(cur, ABits) and cur.frozen:
            raise PathRaise("TypeError", f"frozenbitarray is immutable (augmented assignment) at {self.fi.module.relpath}:{st.lineno}")
        v = self.binop(st.op, cur, self.ev(st.value), st)
        if isinstance(cur, ABits) and cur.kind in ("ba", "list", "np") and isinstance(v, ABits) and v.kind == cur.kind and v is not cur:
            # bitarray / list / numpy arrays are updated IN PLACE by augmented assignment: every alias of the object sees the result
            cur.items[:] = v.items
            v = cur
        self.assign(st.target, v)

    def st_If(self, st):
        v = self.ev(st.test)
        c = self.mux_cond(v)
        if c is not None and self.if_mux(st, c):
            return
        if self.I.decide(v, f"{self.fi.name}:{st.lineno}"):
            self.exec_block(st.body)
        else:
            self.exec_block(st.orelse)

    def mux_cond(self, v):
        """a non-constant single-bit condition as a form (candidate for if-conversion), else None"""
        if isinstance(v, AInt) and v.ext is None and (len(v.bits) == 1 or v.isbool):
            b = self.I.simp(v.bit(0))
            if isinstance(b, F) and not b.is_const:
                return b
        return None

    def if_mux(self, st, c) -> bool:
        """if-conversion: run both branches on private copies of what they may touch and merge every touched
        value v as v_else XOR c*(v_then XOR v_else); exact whenever the two sides differ by constants
        (the CRC register update).  Returns False (nothing changed) when that is not possible."""
        base_env = self.env
        touched = mutated_names(st)
        envs = []
        n_eff = len(self.I.st.effects)
        n_dec = len(self.I.st.decisions)
        for body in (st.body, st.orelse):
            memo = {}
            env_i = {k: (snapshot(v, memo) if k in touched else v) for k, v in base_env.items()}
            self.env = env_i
            self.I.st.no_fork = getattr(self.I.st, "no_fork", 0) + 1
            try:
                self.exec_block(body)
            except (_Ret, _Break, _Continue, PathRaise, Abort, NeedCases):
                self.I.st.no_fork -= 1
                self.env = base_env
                del self.I.st.effects[n_eff:]
                if len(self.I.st.decisions) != n_dec:
                    raise Abort("fork inside an if-converted branch")
                return False
            finally:
                self.env = base_env
            self.I.st.no_fork -= 1
            if len(self.I.st.effects) != n_eff or len(self.I.st.decisions) != n_dec:
                # a branch with external effects or nested forks is analysed per path, not merged
                del self.I.st.effects[n_eff:]
                if len(self.I.st.decisions) != n_dec:
                    raise Abort("fork inside an if-converted branch")
                return False
            envs.append(env_i)
        merged = {}
        try:
            for nme in set(envs[0]) | set(envs[1]):
                if nme in base_env and nme not in touched:
                    continue
                a, b = envs[0].get(nme, _MISSING), envs[1].get(nme, _MISSING)
                merged[nme] = mux_merge(c, a, b, base_env.get(nme, _MISSING), {})
        except Abort:
            return False
        for nme, (val, commit) in merged.items():
            commit()
            base_env[nme] = val
        return True

    def stmt_by_cases(self, st, m, atoms):
        """analyse one statement once per assignment of the atoms its control flow depends on, then merge the
        resulting environments into finite functions of those atoms (exact; merge point = end of the statement)"""
        I = self.I
        atoms = [a for a in atoms if a not in I.st.subst]
        if len(atoms) > MAX_FIN_ATOMS:
            raise Abort("case split too wide")
        base_env = self.env
        touched = mutated_names(st)
        results = []
        heaps = []
        base_heap = {hk: I.st.__dict__.get(hk) for hk in ("class_state", "defaults")}

        def restore_heap():
            for hk, hv in base_heap.items():
                if hv is None:
                    I.st.__dict__.pop(hk, None)
                else:
                    I.st.__dict__[hk] = hv
        for idx in range(1 << len(atoms)):
            assign = {a: (idx >> i) & 1 for i, a in enumerate(atoms)}
            memo = {}
            env_i = {k: (snapshot(v, memo) if k in touched else v) for k, v in base_env.items()}
            # process-lifetime objects of this path (class-level containers, default-argument objects) are part of the state a
            # case may change: every case works on its own copy, the copies are merged like local names (or the path forks)
            heap_i = {}
            for hk in ("class_state", "defaults"):
                if base_heap[hk] is not None:
                    heap_i[hk] = {k: snapshot(v, memo) for k, v in base_heap[hk].items()}
                    I.st.__dict__[hk] = heap_i[hk]
                else:
                    heap_i[hk] = I.st.__dict__[hk] = {}
            saved = I.st.lin          # never mutated: the case works on a copy (an enclosing case split holds `saved` too)
            I.st.lin = saved.copy()
            for a_, v_ in assign.items():
                I.st.lin.add(F(1 << a_, v_))
            if I.st.infeasible():
                # this assignment contradicts what the path already knows: a don't-care entry of the merged finite functions
                I.st.lin = saved
                restore_heap()
                results.append(None)
                heaps.append(None)
                continue
            self.env = env_i
            I.case_depth += 1
            try:
                m(st)
            except NeedCases as nc2:
                I.case_depth -= 1
                I.st.lin = saved
                self.env = base_env
                restore_heap()
                more = [a for a in nc2.atoms if a not in atoms]
                if not more:
                    raise Abort("case split does not make the branch decidable")
                return self.stmt_by_cases(st, m, list(atoms) + more)
            except (_Ret, _Break, _Continue):
                # control leaves the statement on some assignments: no merge point — fork the PATH on the atoms instead
                I.case_depth -= 1
                I.st.lin = saved
                self.env = base_env
                restore_heap()
                if len(atoms) > 8:
                    raise Abort("return/break/continue inside a data-dependent branch over too many atoms")
                for a_ in atoms:
                    if a_ in I.st.subst:
                        continue
                    v_ = I.st.choose(f"atom:{I.atoms.names[a_]!r}"[:60])
                    I.st.lin.add(F(1 << a_, int(v_)))
                return m(st)
            except PathRaise as e:
                raise PartialRaise(e.exc, f"{self.fi.module.relpath}:{st.lineno}")
            finally:
                I.st.lin = saved
                self.env = base_env
                restore_heap()
            I.case_depth -= 1
            results.append(env_i)
            heaps.append(heap_i)
        # merge
        feas = [i for i, e in enumerate(results) if e is not None]
        if not feas:
            raise Abort("no feasible assignment in a case split")
        results = [e if e is not None else results[feas[0]] for e in results]
        heaps = [h if h is not None else heaps[feas[0]] for h in heaps]
        names = set()
        for e in results:
            names.update(e.keys())
        names = [n_ for n_ in names if not (n_ in base_env and n_ not in touched)]
        heap_names = []
        for hk in ("class_state", "defaults"):
            ks = set()
            for h in heaps:
                ks.update(h[hk].keys())
            for k in ks:
                vals = [h[hk].get(k, _MISSING) for h in heaps]
                if base_heap[hk] is not None and k in base_heap[hk] and all(v is not _MISSING and _unchanged(v, base_heap[hk][k]) for v in vals):
                    continue
                heap_names.append((hk, k, vals))
        heap_ok = True
        for hk, k, vals in heap_names:
            if any(v is _MISSING for v in vals) or not can_merge(vals, atoms) or not _deep_mergeable(vals, atoms):
                heap_ok = False
                break
        if not heap_ok or not all(can_merge([e.get(n_, _MISSING) for e in results], atoms) for n_ in names):
            # the cases differ in SHAPE (a container grows on some assignments only): no exact merge — fork the path on the atoms
            if len(atoms) > 8:
                raise Abort("data-dependent branch changes the shape of a container over too many atoms")
            for a_ in atoms:
                if a_ in I.st.subst:
                    continue
                v_ = I.st.choose(f"atom:{I.atoms.names[a_]!r}"[:60])
                I.st.lin.add(F(1 << a_, int(v_)))
            return m(st)
        for nme in names:
            vals = [e.get(nme, _MISSING) for e in results]
            orig = base_env.get(nme, _MISSING)
            base_env[nme] = merge_cases(atoms, vals, orig)
        for hk, k, vals in heap_names:
            tgt = I.st.__dict__.setdefault(hk, {})
            tgt[k] = merge_cases(atoms, vals, tgt.get(k, _MISSING))

    def _unused(self):
        pass

    def st_Assert(self, st):
        try:
            ar0 = getattr(self.I, "assert_ranges", False)
            prev_ctx = getattr(self, "assert_ctx", None)
            self.assert_ctx = "explore" if (ar0 and (ar0 is True or ar0(self.fi, st))) else "assume"
            try:
                v = self.ev(st.test)
            finally:
                self.assert_ctx = prev_ctx
            if isinstance(v, (AOpq,)):
                self.I.st.assumed.append(f"assert at {self.fi.module.relpath}:{st.lineno}")
                return
            ar = getattr(self.I, "assert_ranges", False)
            if ar and (ar is True or ar(self.fi, st)) and isinstance(v, ACond) and v.kind.startswith("ord:") and len(v.parts) == 2 \
                    and isinstance(v.parts[0], AInt) and isinstance(v.parts[1], int) and self._independent_bits(v.parts[0]):
                # a range assertion over a value whose free bits are independent inputs: the bounds test in compare() was exact, so
                # both outcomes are feasible — the failing side is explored (the rule decides whether rejecting that value is allowed)
                if not self.I.decide(v, f"assert:{st.lineno}"):
                    raise PathRaise("AssertionError", f"{self.fi.module.relpath}:{st.lineno} [in-range value refused]")
                return
            if isinstance(v, (AInt, ACond)) and not (isinstance(v, AInt) and v.ext is None and all(isinstance(b, F) and b.is_const for b in self.I.simp_bits(v.bits))):
                # an undecided assert is assumed to hold (the failing side is a documented error exit)
                self.I.st.assumed.append(f"assert at {self.fi.module.relpath}:{st.lineno}")
                return
            ok = self.I.decide(v, "assert")
        except Abort:
            self.I.st.assumed.append(f"assert at {self.fi.module.relpath}:{st.lineno}")
            return
        if not ok:
            ar = getattr(self.I, "assert_ranges", False)
            tag = " [in-range value refused]" if ar and (ar is True or ar(self.fi, st)) else ""
            raise PathRaise("AssertionError", f"{self.fi.module.relpath}:{st.lineno}{tag}")

    def _independent_bits(self, x) -> bool:
        """every non-constant bit of the abstract int is a distinct single input atom (so the value ranges over a full cube)"""
        if x.ext is not None or x.signed:
            return False
        seen = set()
        for b in self.I.simp_bits(x.bits):
            if not isinstance(b, F):
                return False
            if b.is_const:
                continue
            at = list(b.atoms())
            if len(at) != 1 or at[0] in seen or self.I._is_fn_form(b):
                return False
            seen.add(at[0])
        return True

    def st_Raise(self, st):
        name = "Exception"
        if st.exc is None:
            # bare `raise` inside a handler: the exception being handled goes on
            cur = getattr(self, "handling", [])
            if cur:
                raise PathRaise(cur[-1].exc, cur[-1].msg)
            raise PathRaise("RuntimeError", f"no active exception to re-raise at {self.fi.module.relpath}:{st.lineno}")
        if st.exc is not None:
            e = st.exc
            if isinstance(e, ast.Call):
                e = e.func
            name = ast.unparse(e)
            if isinstance(e, ast.Name) and getattr(self.env.get(e.id), "exc_class", None):
                name = self.env[e.id].exc_class          # `except X as err: ... raise err`
        raise PathRaise(name, f"{self.fi.module.relpath}:{st.lineno}")

    def st_For(self, st):
        it = self.iterate(self.ev(st.iter), st)
        broke = False
        for item in it:
            self.assign(st.target, item)
            try:
                self.exec_block(st.body)
            except _Break:
                broke = True
                break
            except _Continue:
                continue
        if not broke:
            self.exec_block(st.orelse)

    def st_While(self, st):
        n = 0
        while self.I.decide(self.ev(st.test), f"while:{st.lineno}"):
            n += 1
            if n > 5000:
                raise Abort("while loop bound")
            try:
                self.exec_block(st.body)
            except _Break:
                break
            except _Continue:
                continue

    def st_Break(self, st):
        raise _Break()

    def st_Continue(self, st):
        raise _Continue()

    def st_Try(self, st):
        try:
            self.exec_block(st.body)
        except PathRaise as e:
            for h in st.handlers:
                names = []
                if h.type is None:
                    names = None
                elif isinstance(h.type, ast.Tuple):
                    names = [ast.unparse(x) for x in h.type.elts]
                else:
                    names = [ast.unparse(h.type)]
                base_only = e.exc.split(".")[-1] in ("BaseException", "KeyboardInterrupt", "SystemExit", "GeneratorExit", "CancelledError")
                if names is None or e.exc in names or e.exc.split(".")[-1] in [x.split(".")[-1] for x in names] or ("Exception" in names and not base_only) or "BaseException" in names \
                        or (e.exc in ("KeyError", "IndexError") and "LookupError" in names) \
                        or (e.exc in ("OverflowError", "ZeroDivisionError", "FloatingPointError") and "ArithmeticError" in names) \
                        or (e.exc in ("UnicodeDecodeError", "UnicodeEncodeError", "UnicodeError") and ("ValueError" in names or "UnicodeError" in names)):
                    if h.name:
                        eo = self.I.opaque("exception object")
                        eo.exc_class = e.exc
                        self.env[h.name] = eo
                    self.handling = getattr(self, "handling", []) + [e]
                    try:
                        self.exec_block(h.body)
                    finally:
                        self.handling = self.handling[:-1]
                    break
            else:
                self.exec_block(st.finalbody)
                raise
        else:
            self.exec_block(st.orelse)
        self.exec_block(st.finalbody)

    def st_Delete(self, st):
        for t in st.targets:
            if isinstance(t, ast.Name):
                self.env.pop(t.id, None)
            else:
                raise Abort("del of non-name")

    def st_Import(self, st):
        pass

    st_ImportFrom = st_Import

    def st_FunctionDef(self, st):
        f = FuncRef(FuncInfo(st, self.module, None))
        f.closure = self.env
        self.env[st.name] = f

    def st_Global(self, st):
        pass

    # ------------------------------------------------------------ assignment
    def assign(self, t, v):
        if isinstance(t, ast.Name):
            self.env[t.id] = v
        elif isinstance(t, (ast.Tuple, ast.List)):
            items = self.iterate(v, t)
            if len(items) != len(t.elts):
                raise PathRaise("ValueError", "unpack arity")
            for e, x in zip(t.elts, items):
                self.assign(e, x)
        elif isinstance(t, ast.Attribute):
            base = self.ev(t.value)
            if isinstance(base, AObj):
                # property setter?
                setter = self.I.repo.find_method(base.cls, t.attr + ".setter")
                if setter is not None:
                    self.I.call(setter, [base, v], {}, base.cls)
                else:
                    base.attrs[t.attr] = v
            elif isinstance(base, ClassRef):
                pass  # class attribute store (e.g. debug flag): no bit-level effect
            elif isinstance(base, AOpq):
                pass
            else:
                raise Abort(f"attribute store on {type(base).__name__}")
        elif isinstance(t, ast.Subscript):
            base = self.ev(t.value)
            self.store_sub(base, t.slice, v, t)
        else:
            raise Abort(f"assignment target {type(t).__name__}")

    def idx(self, sl):
        if isinstance(sl, ast.Slice):
            return slice(*(None if x is None else self.cint(self.ev(x)) for x in (sl.lower, sl.upper, sl.step)))
        if isinstance(sl, ast.Tuple):
            return tuple(self.idx(e) for e in sl.elts)
        return self.cint(self.ev(sl), allow_other=True)

    def cint(self, v, allow_other=False):
        if isinstance(v, bool):
            return int(v)
        if isinstance(v, int) or v is None:
            return v
        if isinstance(v, AInt):
            c = self.I_const(v)
            if c is not None:
                return c
            acc = set()
            try:
                fin_atoms(AInt(self.I.simp_bits(v.bits)) if v.ext is None else v, acc)
            except Abort:
                acc = None
            if acc and len(acc) <= MAX_FIN_ATOMS:
                raise NeedCases(sorted(acc))
            raise Abort("data-dependent index")
        if isinstance(v, AFin):
            v2 = self.I.simp_fin(v)
            if isinstance(v2, AFin):
                raise NeedCases(v2.atoms)
            return v2
        if allow_other:
            return v
        raise Abort(f"non-constant index {type(v).__name__}")

    def I_const(self, v: AInt):
        if v.ext is not None:
            return None
        bits = self.I.simp_bits(v.bits)
        if all(isinstance(b, F) and b.is_const for b in bits):
            return sum(b.c << i for i, b in enumerate(bits))
        return None

    def store_sub(self, base, sl, v, node):
        i = self.idx(sl)
        if isinstance(base, ABits) and base.frozen:
            raise PathRaise("TypeError", f"frozenbitarray is immutable (item store) at {self.fi.module.relpath}:{getattr(node, 'lineno', 0)}")
        if isinstance(base, ABits):
            if isinstance(i, slice):
                vals = self.to_bitlist(v, per_elem=base.kind != "bytes")
                rng = range(*i.indices(len(base.items))) if base.kind != "bytes" else None
                if base.kind == "bytes":
                    rng = range(*i.indices(len(base.items) // 8))
                    if len(vals) != 8 * len(rng):
                        raise Abort("bytes slice store length")
                    for k, bi in enumerate(rng):
                        base.items[bi * 8: bi * 8 + 8] = vals[k * 8: k * 8 + 8]
                    return
                if i.step in (None, 1):
                    base.items[i] = vals
                else:
                    if len(vals) != len(rng):
                        raise PathRaise("ValueError", "extended slice size")
                    for k, bi in enumerate(rng):
                        base.items[bi] = vals[k]
                return
            if base.kind == "bytes":
                n = len(base.items) // 8
                if i < -n or i >= n:
                    raise PathRaise("IndexError", "bytes index")
                i %= n
                base.items[i * 8: i * 8 + 8] = self.to_int(v).msb_first(8)
                return
            if i < -len(base.items) or i >= len(base.items):
                raise PathRaise("IndexError", f"index {i} out of range at {self.fi.module.relpath}:{node.lineno}")
            base.items[i] = self.to_bit(v)
            return
        if isinstance(base, AView):
            if isinstance(i, slice):
                cs = base.coords[i]
                vals = self.to_bitlist(v)
                if len(cs) != len(vals):
                    raise PathRaise("ValueError", "view slice store size")
                for (r, c), x in zip(cs, vals):
                    base.table.cells[r][c] = x
                return
            if i < -len(base.coords) or i >= len(base.coords):
                raise PathRaise("IndexError", "view index")
            r, c = base.coords[i]
            base.table.cells[r][c] = self.to_bit(v)
            return
        if isinstance(base, ATable):
            view = self.table_view(base, i)
            if isinstance(view, tuple):
                base.cells[view[0]][view[1]] = self.to_bit(v)
                return
            vals = self.to_bitlist(v)
            if len(vals) != len(view.coords):
                raise PathRaise("ValueError", f"shape mismatch storing {len(vals)} into {len(view.coords)} at {self.fi.module.relpath}:{node.lineno}")
            for (r, c), x in zip(view.coords, vals):
                base.cells[r][c] = x
            return
        if isinstance(base, (list, dict)):
            try:
                base[i if not isinstance(i, AInt) else self.cint(i)] = v
            except (IndexError, KeyError) as e:
                raise PathRaise(type(e).__name__, str(e))
            return
        if isinstance(base, AOpq):
            return
        raise Abort(f"subscript store on {type(base).__name__}")

    def table_view(self, t: ATable, i):
        if isinstance(i, tuple):
            r, c = i
            rs = list(range(t.rows))[r] if isinstance(r, slice) else r
            cs = list(range(t.cols))[c] if isinstance(c, slice) else c
            if isinstance(rs, int) and isinstance(cs, int):
                return (rs % t.rows, cs % t.cols)
            if isinstance(rs, int):
                return AView(t, [(rs % t.rows, c2) for c2 in cs])
            if isinstance(cs, int):
                return AView(t, [(r2, cs % t.cols) for r2 in rs])
            raise Abort("2-D sub-block view")
        if isinstance(i, slice):
            raise Abort("row-range view")
        if i < -t.rows or i >= t.rows:
            raise PathRaise("IndexError", "table row")
        return AView(t, [(i % t.rows, c) for c in range(t.cols)])

    # ------------------------------------------------------------ conversions
    def to_bit(self, v):
        if isinstance(v, (F, OB)):
            return v
        if isinstance(v, AFin):
            return fin_to_bit(v)
        if isinstance(v, bool) or isinstance(v, int):
            if v in (0, 1):
                return cbit(v)
            return cbit(1) if isinstance(v, bool) else OB(f"int {v} as bit")
        if isinstance(v, AInt):
            if v.isbool or (v.ext is None and len(v.bits) <= 1):
                return v.bit(0)
            if v.ext is not None:
                # a field used as a single bit: its value bit 0 (in-range assumption: 0/1)
                return v.bit(0)
            hi = self.I.simp_bits(v.bits[1:])
            if all(isinstance(b, F) and b.is_const and b.c == 0 for b in hi):
                return v.bit(0)
            return OB("wide int as bit")
        if isinstance(v, ACond):
            return self.I.atom_form(("cond", v.key()))
        if isinstance(v, EnumMember):
            return OB("enum member as bit")
        if v is None:
            return OB("None as bit")
        return OB(f"{type(v).__name__} as bit")

    def to_bitlist(self, v, per_elem=True):
        if isinstance(v, ABits):
            return list(v.items)
        if isinstance(v, AView):
            return v.get()
        if isinstance(v, BitArr):
            return [cbit(x) for x in v]
        if isinstance(v, NPArr) and v.ndim == 1:
            return [self.to_bit(x) for x in v.data]
        if isinstance(v, (bytes, bytearray)):
            return [cbit((b >> (7 - k)) & 1) for b in v for k in range(8)]
        if isinstance(v, (list, tuple)):
            return [self.to_bit(x) for x in v]
        if isinstance(v, AFin):
            # a finite function whose values are equal-length sequences: one finite function per position
            return [self.to_bit(x) for x in self.iterate(v, None)]
        raise Abort(f"cannot view {type(v).__name__} as bit sequence")

    def to_int(self, v) -> AInt:
        if isinstance(v, AInt):
            return v
        if isinstance(v, AFin):
            vals = v.table
            if not all(isinstance(t, (int, bool)) and int(t) >= 0 for t in vals):
                raise Abort("finite function with non-integer values used as int")
            w = max(max(int(t).bit_length() for t in vals), 1)
            bits = []
            for j in range(w):
                b = mkfin(v.atoms, [(int(t) >> j) & 1 for t in vals])
                bits.append(fin_to_bit(b) if isinstance(b, AFin) else cbit(b))
            return AInt(bits, isbool=all(isinstance(t, bool) for t in vals))
        if isinstance(v, bool):
            return AInt([cbit(v)], isbool=True)
        if isinstance(v, int):
            if v < 0:
                raise Abort("negative constant")
            return AInt([cbit((v >> i) & 1) for i in range(max(v.bit_length(), 1))])
        if isinstance(v, (F, OB)):
            return AInt([v])
        if isinstance(v, ACond):
            return AInt([self.to_bit(v)], isbool=True)
        if isinstance(v, AEnum):
            raise Abort("enum used as int")
        if v is None or isinstance(v, (tuple, list, dict, set, str, bytes, float)):
            # a constant of a type that no integer operation of the library accepts (int2ba, to_bytes, shifts ...): python raises
            raise PathRaise("TypeError", f"{type(v).__name__} where an integer is required at {self.fi.module.relpath}")
        raise Abort(f"{type(v).__name__} used as int")

    def as_bytes_val(self, v) -> ABits:
        if isinstance(v, ABits) and v.kind == "bytes":
            return v
        if isinstance(v, (bytes, bytearray)):
            return ABits(self.to_bitlist(bytes(v)), "bytes")
        raise Abort(f"{type(v).__name__} used as bytes")

    def iterate(self, v, node) -> list:
        if isinstance(v, (list, tuple)):
            return list(v)
        if isinstance(v, (range, set, frozenset)):
            return list(v)
        if isinstance(v, dict):
            return list(v.keys())
        if isinstance(v, ABits):
            if v.kind == "bytes":
                return [AInt(list(reversed(v.items[i * 8:i * 8 + 8]))) for i in range(len(v.items) // 8)]
            return [AInt([b]) for b in v.items]
        if isinstance(v, AView):
            return [AInt([b]) for b in v.get()]
        if isinstance(v, ATable):
            return [AView(v, [(r, c) for c in range(v.cols)]) for r in range(v.rows)]
        if isinstance(v, AFin):
            lens = {len(t) if isinstance(t, (tuple, list)) else None for t in v.table}
            if len(lens) == 1 and None not in lens:
                n = lens.pop()
                return [mkfin(v.atoms, [t[i] for t in v.table]) for i in range(n)]
            raise Abort("iteration over a finite function with varying shape")
        if isinstance(v, (bytes, bytearray)):
            return list(v)
        if isinstance(v, str):
            return list(v)
        if isinstance(v, BitArr):
            return list(v)
        if isinstance(v, NPArr):
            return v.tolist()
        if type(v).__name__ in ("dict_items", "dict_keys", "dict_values", "enumerate", "zip", "reversed", "map", "generator"):
            return list(v)
        if isinstance(v, ClassRef) and self.I.repo.is_enum(v.info):
            seen, out = set(), []
            for m in self.I.repo.enum_members(v.info).values():
                if repr(m.value) not in seen:
                    seen.add(repr(m.value))
                    out.append(m)
            return out
        raise Abort(f"iteration over {type(v).__name__} at {self.fi.module.relpath}:{getattr(node, 'lineno', 0)}")

    # ------------------------------------------------------------ expressions
    def ev(self, n: ast.AST):
        self.I.steps += 1
        m = getattr(self, "ev_" + type(n).__name__, None)
        if m is None:
            return self.I.opaque(f"expr {type(n).__name__}")
        return m(n)

    def ev_Constant(self, n):
        return n.value

    def ev_Name(self, n):
        if n.id in self.env:
            return self.env[n.id]
        try:
            return fresh(self.folder.name(n.id, {}))
        except Unfoldable as e:
            return self.I.opaque(f"name {n.id}: {e}")

    def ev_Tuple(self, n):
        return tuple(self.ev(e) for e in n.elts)

    def ev_List(self, n):
        out = []
        for e in n.elts:
            if isinstance(e, ast.Starred):
                out.extend(self.iterate(self.ev(e.value), e))
            else:
                out.append(self.ev(e))
        return out

    def ev_Set(self, n):
        return [self.ev(e) for e in n.elts]

    def ev_Dict(self, n):
        d = {}
        for k, v in zip(n.keys, n.values):
            if k is None:
                d.update(self.ev(v))
            else:
                kk = self.ev(k)
                try:
                    hash(kk)
                except TypeError:
                    raise Abort("unhashable abstract dict key")
                d[kk] = self.ev(v)
        return d

    def ev_JoinedStr(self, n):
        from .bitabs_models import TOO_WIDE, is_abs, try_lift
        parts, abstract = [], []
        ok = True
        for v in n.values:
            if isinstance(v, ast.Constant):
                parts.append(str(v.value))
                continue
            val = self.ev(v.value)          # evaluated for its effects / errors in any case
            spec = ""
            if v.format_spec is not None:
                sp = self.ev(v.format_spec)
                if not isinstance(sp, str):
                    ok = False
                spec = sp if isinstance(sp, str) else ""
            if isinstance(val, AInt) and not val.isbool:
                val = self.I.simp_int(val) if hasattr(self.I, "simp_int") else val
                c = self.I_const(val)
                if c is not None:
                    val = c
            if is_abs(val) and not isinstance(val, (AInt, AFin)):
                ok = False
            if isinstance(val, (EnumMember, AObj)) or callable(val) and not isinstance(val, type):
                ok = False                  # text of objects (repr / __str__) is not modelled
            if is_abs(val):
                abstract.append(len(parts))
            parts.append((val, v.conversion, spec))
        if not ok:
            return self.I.opaque("f-string", notnone=True)

        def render(*vals):
            it = iter(vals)
            out = []
            for k, p in enumerate(parts):
                if isinstance(p, str):
                    out.append(p)
                    continue
                val, conv, spec = p
                if k in abstract:
                    val = next(it)
                if conv == ord("r"):
                    val = repr(val)
                elif conv == ord("s"):
                    val = str(val)
                elif conv == ord("a"):
                    val = ascii(val)
                out.append(format(val, spec))
            return "".join(out)
        try:
            if not abstract:
                return render()
            # a few symbolic digits: the text as an exact finite function of them
            r = try_lift(render, *[parts[k][0] for k in abstract])
        except (ValueError, TypeError) as e:
            raise PathRaise(type(e).__name__, f"{e} at {self.fi.module.relpath}:{n.lineno}")
        if r is TOO_WIDE or r is None:
            return self.I.opaque("f-string", notnone=True)
        return r

    def ev_Lambda(self, n):
        fd = ast.FunctionDef(name="<lambda>", args=n.args, body=[ast.Return(value=n.body)], decorator_list=[], returns=None, type_comment=None, type_params=[])
        ast.copy_location(fd, n)
        ast.fix_missing_locations(fd)
        f = FuncRef(FuncInfo(fd, self.module, None))
        f.closure = self.env
        return f

    def ev_Yield(self, n):
        if not hasattr(self, "yields"):
            raise Abort("yield outside a generator frame")
        self.yields.append(self.ev(n.value) if n.value is not None else None)
        return None

    def ev_YieldFrom(self, n):
        if not hasattr(self, "yields"):
            raise Abort("yield outside a generator frame")
        self.yields.extend(self.iterate(self.ev(n.value), n))
        return None

    def ev_IfExp(self, n):
        t = self.ev(n.test)
        c = self.mux_cond(t)
        if c is not None:
            try:
                a, b = self.ev(n.body), self.ev(n.orelse)
                v, commit = mux_merge(c, a, b, _MISSING, {})
                if isinstance(v, ABits) and (v is a or v is b):
                    items = [mux_bit(c, x, y) for x, y in zip(a.items, b.items)]
                    return ABits(items, a.kind, a.endian)
                return v
            except Abort:
                pass
        if self.I.decide(t, f"{self.fi.name}:{n.lineno}"):
            return self.ev(n.body)
        return self.ev(n.orelse)

    def ev_BoolOp(self, n):
        r = None
        for v in n.values:
            r = self.ev(v)
            t = self.I.decide(r, f"{self.fi.name}:{n.lineno}")
            if isinstance(n.op, ast.And) and not t:
                return r
            if isinstance(n.op, ast.Or) and t:
                return r
        return r

    def ev_UnaryOp(self, n):
        v = self.ev(n.operand)
        if isinstance(n.op, ast.Not):
            if isinstance(v, AInt) and v.ext is None and len(v.bits) == 1:
                return AInt([v.bits[0] ^ 1], isbool=True)
            if isinstance(v, AInt) and v.isbool:
                return AInt([v.bit(0) ^ 1], isbool=True)
            if isinstance(v, AOpq):
                return v
            if isinstance(v, ACond):
                return ACond("not", v)
            return not self.I.decide(v, f"{self.fi.name}:{n.lineno}")
        if isinstance(v, (AOpq,)):
            return v
        if isinstance(n.op, ast.USub):
            if isinstance(v, (int, float)):
                return -v
            from .bitabs_models import ANeg, _nonzero
            if isinstance(v, ANeg):
                return v.mag
            if isinstance(v, AInt) and not v.signed and _nonzero(self, v):
                return ANeg(v)
            return self.I.opaque("negation of abstract int")
        if isinstance(n.op, ast.Invert):
            if isinstance(v, int):
                return ~v
            if isinstance(v, ABits):
                return _keep_frozen(v, ABits([b ^ 1 for b in v.items], v.kind, v.endian))
            return self.I.opaque("~ of abstract int")
        if isinstance(n.op, ast.UAdd):
            return v
        return self.I.opaque("unary")

    def ev_BinOp(self, n):
        return self.binop(n.op, self.ev(n.left), self.ev(n.right), n)

    def binop(self, op, l, r, node):
        from . import bitabs_models as M
        return _keep_frozen(l, M.binop(self, op, l, r, node))

    def ev_Compare(self, n):
        from . import bitabs_models as M
        l = self.ev(n.left)
        res = True
        for op, c in zip(n.ops, n.comparators):
            r = self.ev(c)
            v = M.compare(self, op, l, r, n)
            if len(n.ops) == 1:
                return v
            mode = getattr(self, "assert_ctx", None)
            if mode is not None and isinstance(v, ACond) and v.kind.startswith("ord:"):
                # a link of a chained comparison inside an `assert` that the bounds cannot decide: a precondition like the
                # single-comparison form (assumed), unless the rule asked for range assertions of this field to be explored
                ex = mode == "explore" and len(v.parts) == 2 and isinstance(v.parts[0], AInt) and isinstance(v.parts[1], int) and self._independent_bits(v.parts[0])
                if not ex:
                    self.I.st.assumed.append(f"assert (chained comparison) at {self.fi.module.relpath}:{n.lineno}")
                    l = r
                    continue
            if not self.I.decide(v, f"cmp:{n.lineno}"):
                return False
            l = r
        return res

    def ev_Attribute(self, n):
        from . import bitabs_models as M
        return M.getattr_(self, self.ev(n.value), n.attr, n)

    def ev_Subscript(self, n):
        from . import bitabs_models as M
        base = self.ev(n.value)
        return _keep_frozen(base, M.subscript(self, base, n.slice, n))

    def ev_Call(self, n):
        from . import bitabs_models as M
        return M.call(self, n)

    def _comp(self, n, emit):
        def rec(i):
            if i == len(n.generators):
                emit()
                return
            g = n.generators[i]
            for item in self.iterate(self.ev(g.iter), g):
                self.assign(g.target, item)
                if all(self.I.decide(self.ev(c), "comp-if") for c in g.ifs):
                    rec(i + 1)

        env = self.env
        saved = dict(env)
        try:
            rec(0)
        finally:
            # restore IN PLACE: the case splitter identifies per-case environments by object identity
            env.clear()
            env.update(saved)
            self.env = env

    def ev_ListComp(self, n):
        out = []
        self._comp(n, lambda: out.append(self.ev(n.elt)))
        return out

    ev_GeneratorExp = ev_ListComp
    ev_SetComp = ev_ListComp

    def ev_DictComp(self, n):
        out = {}
        self._comp(n, lambda: out.__setitem__(self.ev(n.key), self.ev(n.value)))
        return out

    def ev_Starred(self, n):
        return self.ev(n.value)


_MISSING = object()


def _base_name(t):
    while isinstance(t, (ast.Subscript, ast.Attribute, ast.Starred)):
        t = t.value
    return t.id if isinstance(t, ast.Name) else None


def mutated_names(st) -> set:
    """names a statement may rebind or mutate through (assignment targets, receivers and arguments of calls)"""
    out = set()
    for n in ast.walk(st):
        if isinstance(n, (ast.Assign, ast.AugAssign, ast.AnnAssign, ast.For, ast.Delete, ast.comprehension, ast.NamedExpr)):
            tgts = n.targets if isinstance(n, (ast.Assign, ast.Delete)) else [n.target]
            for t in tgts:
                for e in (t.elts if isinstance(t, (ast.Tuple, ast.List)) else [t]):
                    b = _base_name(e)
                    if b:
                        out.add(b)
        elif isinstance(n, ast.Call):
            if isinstance(n.func, ast.Attribute):
                b = _base_name(n.func.value)
                if b:
                    out.add(b)
            for a in list(n.args) + [k.value for k in n.keywords]:
                b = _base_name(a)
                if b:
                    out.add(b)
    return out


def snapshot(v, memo):
    """copy of mutable abstract containers (identity-preserving within one snapshot)"""
    if id(v) in memo:
        return memo[id(v)]
    if isinstance(v, ABits):
        r = ABits(list(v.items), v.kind, v.endian)
        if getattr(v, "mutable", False):
            r.mutable = True
    elif isinstance(v, list):
        r = []
        memo[id(v)] = r
        r.extend(snapshot(x, memo) for x in v)
        return r
    elif isinstance(v, dict):
        r = {}
        memo[id(v)] = r
        for k, x in v.items():
            r[k] = snapshot(x, memo)
        return r
    elif isinstance(v, ATable):
        r = ATable(v.rows, v.cols)
        r.cells = [list(row) for row in v.cells]
    elif isinstance(v, AView):
        r = AView(snapshot(v.table, memo), v.coords)
    elif isinstance(v, AObj):
        r = AObj(v.cls)
        memo[id(v)] = r
        r.attrs = {k: snapshot(x, memo) for k, x in v.attrs.items()}
        return r
    else:
        return v
    memo[id(v)] = r
    return r


def _unchanged(a, b, depth=0) -> bool:
    """is the (snapshot) value a structurally identical to the original b?  (cheap, conservative: False when unsure)"""
    if a is b:
        return True
    if depth > 6:
        return False
    if isinstance(a, ABits) and isinstance(b, ABits):
        return len(a.items) == len(b.items) and all(x is y or _same(x, y) for x, y in zip(a.items, b.items))
    if isinstance(a, list) and isinstance(b, list):
        return len(a) == len(b) and all(_unchanged(x, y, depth + 1) for x, y in zip(a, b))
    if isinstance(a, dict) and isinstance(b, dict):
        if len(a) != len(b):
            return False
        try:
            return all(k in b and _unchanged(x, b[k], depth + 1) for k, x in a.items())
        except TypeError:
            return False
    if isinstance(a, AObj) and isinstance(b, AObj):
        return a.cls is b.cls and set(a.attrs) == set(b.attrs) and all(_unchanged(x, b.attrs[k], depth + 1) for k, x in a.attrs.items())
    if isinstance(a, ATable) and isinstance(b, ATable):
        return a.rows == b.rows and a.cols == b.cols and all(x is y or _same(x, y) for ra, rb in zip(a.cells, b.cells) for x, y in zip(ra, rb))
    if isinstance(a, (ABits, list, dict, AObj, ATable, AView)) or isinstance(b, (ABits, list, dict, AObj, ATable, AView)):
        return False
    return _same(a, b)


def _deep_mergeable(vals, atoms, depth=0) -> bool:
    """can_merge does not look inside dictionaries: the values under every key must be mergeable as well"""
    first = vals[0]
    if isinstance(first, dict):
        if depth > 3:
            return True
        return all(can_merge([v[k] for v in vals], atoms) and _deep_mergeable([v[k] for v in vals], atoms, depth + 1) for k in first)
    return True


def can_merge(vals, atoms, depth=0) -> bool:
    """can the per-case values be merged exactly (same container shapes, scalars within the finite-function width)?"""
    first = vals[0]
    if any(v is _MISSING for v in vals):
        return all(v is _MISSING for v in vals)
    if all(_same(first, v) for v in vals[1:]):
        return True
    if isinstance(first, ABits):
        return all(isinstance(v, ABits) and len(v.items) == len(first.items) for v in vals)
    if isinstance(first, list):
        return all(isinstance(v, list) and len(v) == len(first) for v in vals) and (depth > 3 or all(can_merge([v[i] for v in vals], atoms, depth + 1) for i in range(len(first))))
    if isinstance(first, ATable):
        return all(isinstance(v, ATable) and v.rows == first.rows and v.cols == first.cols for v in vals)
    if isinstance(first, AObj):
        if not all(isinstance(v, AObj) and v.cls is first.cls for v in vals):
            return False
        keys = set()
        for v in vals:
            keys.update(v.attrs)
        return depth > 3 or all(can_merge([v.attrs.get(k, _MISSING) for v in vals], atoms, depth + 1) for k in keys)
    if isinstance(first, dict):
        return all(isinstance(v, dict) and set(v) == set(first) for v in vals)
    if isinstance(first, (AOpq, AView, AExt)):
        return all(v is first for v in vals)
    inner = set()
    try:
        for v in vals:
            fin_atoms(v, inner)
    except Abort:
        return False
    return len(set(atoms) | inner) <= MAX_FIN_ATOMS


def merge_value(atoms, vals):
    """one abstract value that equals vals[idx] under assignment idx of atoms"""
    first = vals[0]
    if all(_same(first, v) for v in vals[1:]):
        return first
    if any(v is _MISSING for v in vals):
        raise Abort("name bound in some cases only")
    # scalars -> finite function over atoms (+ the atoms of inner finite functions / forms)
    inner = set()
    for v in vals:
        fin_atoms(v, inner)
    inner -= set(atoms)
    all_atoms = list(atoms) + sorted(inner)
    if len(all_atoms) > MAX_FIN_ATOMS:
        raise Abort("merged value depends on too many atoms")
    table = []
    for idx in range(1 << len(all_atoms)):
        assign = {a: (idx >> i) & 1 for i, a in enumerate(all_atoms)}
        case = idx & ((1 << len(atoms)) - 1)
        table.append(fin_conc(vals[case], assign))
    order = sorted(range(len(all_atoms)), key=lambda i: all_atoms[i])
    # re-index table to sorted atom order
    sorted_atoms = [all_atoms[i] for i in order]
    t2 = [None] * len(table)
    for idx in range(len(table)):
        j = 0
        for newpos, oldpos in enumerate(order):
            if idx >> oldpos & 1:
                j |= 1 << newpos
        t2[j] = table[idx]
    return mkfin(sorted_atoms, t2)


def _same(a, b):
    if a is b:
        return True
    if isinstance(a, (F, AFin)) or isinstance(b, (F, AFin)):
        return a == b
    if isinstance(a, AInt) and isinstance(b, AInt):
        return a.ext == b.ext and len(a.bits) == len(b.bits) and all(_same(x, y) for x, y in zip(a.bits, b.bits))
    if isinstance(a, (ABits, list, dict, ATable, AObj, AView, AOpq, OB)) or isinstance(b, (ABits, list, dict, ATable, AObj, AView, AOpq, OB)):
        return False
    try:
        return type(a) == type(b) and a == b
    except Exception:
        return False


def mux_bit(c, a, b):
    """c ? a : b for bits"""
    if _same(a, b):
        return a
    if isinstance(a, OB) or isinstance(b, OB):
        raise Abort("mux of opaque")
    if isinstance(a, F) and isinstance(b, F):
        d = a ^ b
        if d.is_const:
            return b ^ c if d.c else b
    raise Abort("non-affine mux")


def mux_merge(c, a, b, orig, seen):
    """returns (value, commit) — commit() writes merged content into the original mutable object"""
    if a is _MISSING or b is _MISSING:
        raise Abort("name bound on one side only")
    if isinstance(a, ABits) and isinstance(b, ABits) and len(a.items) == len(b.items) and a.kind == b.kind:
        items = [mux_bit(c, x, y) for x, y in zip(a.items, b.items)]
        tgt = orig if isinstance(orig, ABits) else a

        def commit(tgt=tgt, items=items):
            tgt.items[:] = items
        return tgt, commit
    if isinstance(a, AInt) and isinstance(b, AInt) and a.ext is None and b.ext is None:
        w = max(len(a.bits), len(b.bits))
        bits = [mux_bit(c, a.bit(j), b.bit(j)) for j in range(w)]
        return AInt(bits, isbool=a.isbool and b.isbool), (lambda: None)
    if isinstance(a, AObj) and isinstance(b, AObj) and a.cls is b.cls:
        if not isinstance(orig, AObj):
            raise Abort("object created in a data-dependent branch")
        if id(orig) in seen:
            return orig, (lambda: None)
        seen[id(orig)] = True
        subs = {}
        for k in set(a.attrs) | set(b.attrs):
            subs[k] = mux_merge(c, a.attrs.get(k, _MISSING), b.attrs.get(k, _MISSING), orig.attrs.get(k, _MISSING), seen)

        def commit(orig=orig, subs=subs):
            for k, (v, cm) in subs.items():
                cm()
                orig.attrs[k] = v
        return orig, commit
    if isinstance(a, list) and isinstance(b, list) and len(a) == len(b):
        subs = [mux_merge(c, x, y, orig[i] if isinstance(orig, list) and i < len(orig) else _MISSING, seen) for i, (x, y) in enumerate(zip(a, b))]
        tgt = orig if isinstance(orig, list) else a

        def commit(tgt=tgt, subs=subs):
            for v, cm in subs:
                cm()
            tgt[:] = [v for v, cm in subs]
        return tgt, commit
    if _same(a, b):
        return a, (lambda: None)
    if isinstance(a, (bool, int)) and isinstance(b, (bool, int)) and a in (0, 1) and b in (0, 1):
        return AInt([mux_bit(c, cbit(a), cbit(b))], isbool=isinstance(a, bool)), (lambda: None)
    raise Abort(f"cannot merge {type(a).__name__}/{type(b).__name__}")


def merge_cases(atoms, vals, orig):
    """merge per-case values of one variable; containers are merged element-wise INTO the original object"""
    first = vals[0]
    if isinstance(first, ABits) and all(isinstance(v, ABits) and len(v.items) == len(first.items) for v in vals):
        tgt = orig if isinstance(orig, ABits) else ABits(list(first.items), first.kind, first.endian)
        tgt.items[:] = [_bit_merge(atoms, [v.items[i] for v in vals]) for i in range(len(first.items))]
        return tgt
    if isinstance(first, list) and all(isinstance(v, list) and len(v) == len(first) for v in vals):
        tgt = orig if isinstance(orig, list) else list(first)
        tgt[:] = [merge_cases(atoms, [v[i] for v in vals], orig[i] if isinstance(orig, list) and i < len(orig) else _MISSING) for i in range(len(first))]
        return tgt
    if isinstance(first, ATable) and all(isinstance(v, ATable) for v in vals):
        tgt = orig if isinstance(orig, ATable) else first
        tgt.cells = [[_bit_merge(atoms, [v.cells[r][c] for v in vals]) for c in range(first.cols)] for r in range(first.rows)]
        return tgt
    if isinstance(first, (ABits, list, ATable)):
        raise Abort("container changes shape in a data-dependent branch")
    if isinstance(first, AObj):
        if all(v is first for v in vals):
            return first
        if not isinstance(orig, AObj) or not all(isinstance(v, AObj) and v.cls is orig.cls for v in vals):
            raise Abort("object created in a data-dependent branch")
        _seen = getattr(merge_cases, "_seen", None)
        top = _seen is None
        if top:
            merge_cases._seen = _seen = set()
        try:
            if id(orig) in _seen:
                return orig
            _seen.add(id(orig))
            keys = set()
            for v in vals:
                keys.update(v.attrs)
            for k in keys:
                orig.attrs[k] = merge_cases(atoms, [v.attrs.get(k, _MISSING) for v in vals], orig.attrs.get(k, _MISSING))
        finally:
            if top:
                merge_cases._seen = None
        return orig
    if isinstance(first, dict):
        if all(v is first for v in vals):
            return first
        if not isinstance(orig, dict) or not all(isinstance(v, dict) and set(v) == set(vals[0]) for v in vals):
            raise Abort("dict changes shape in a data-dependent branch")
        for k in list(vals[0]):
            orig[k] = merge_cases(atoms, [v[k] for v in vals], orig.get(k, _MISSING))
        return orig
    if isinstance(first, AView):
        if all(v is first for v in vals) or orig is not _MISSING:
            return orig if orig is not _MISSING else first
        raise Abort("view created in a data-dependent branch")
    return merge_value(atoms, vals)


def _bit_merge(atoms, bits):
    if all(_same(bits[0], b) for b in bits[1:]):
        return bits[0]
    if any(isinstance(b, OB) for b in bits):
        return OB("merge of opaque")
    r = merge_value(atoms, [AInt([b]) for b in bits])
    return fin_to_bit(r) if isinstance(r, AFin) else cbit(r)


def fresh(v):
    """private copy of a folded mutable constant (folded values are shared in the Repo cache)"""
    if isinstance(v, BitArr):
        return BitArr(v)
    if isinstance(v, list):
        return [fresh(x) for x in v]
    if isinstance(v, dict):
        return {k: fresh(x) for k, x in v.items()}
    if isinstance(v, set):
        return set(v)
    return v


def _load(t):
    import copy
    t2 = copy.copy(t)
    t2.ctx = ast.Load()
    return t2
