"""Verdict plumbing: obligations, findings, known findings, evidence, exit codes."""
from __future__ import annotations

import json
import re
import os
import pathlib
import sys
import time
from typing import Any, Dict, List, Optional

from .model import AnalysisError

VERIF = pathlib.Path(__file__).resolve().parent.parent
KNOWN_FILE = VERIF / "known_findings.json"


class Ctx:
    """One run of one property's check."""

    def __init__(self, pid: str, tier: str, seed: int, repo, only: Optional[str] = None, quiet: bool = False):
        self.pid, self.tier, self.seed, self.repo, self.only = pid, tier, seed, repo, only
        self.quiet = quiet
        self.t0 = time.time()
        self.obligations: List[Dict[str, Any]] = []
        self.infos: List[str] = []
        self.opaque: List[str] = []
        self.rules: Dict[str, str] = {}
        self.analysed: Dict[str, Any] = {"files": set(), "functions": set(), "tables": set()}
        self.samples: List[Any] = []
        self.explanation = ""
        self.assumptions: List[str] = []
        self.selftest: Dict[str, Any] = {}
        self.extra: Dict[str, Any] = {}
        self.min_counts: Dict[str, int] = {}
        self.analysis_errors: List[str] = []

    def guard(self, what: str):
        """context manager: an AnalysisError inside one sub-analysis does not hide the verdicts of the others;
        it is reported at the end (exit 2 unless a genuine violation was found as well)"""
        ctx = self

        class _G:
            def __enter__(self):
                return self

            def __exit__(self, et, ev, tb):
                if et is not None and issubclass(et, AnalysisError):
                    ctx.analysis_errors.append(f"{what}: {ev}")
                    return True
                return False

        return _G()

    # ---- recording
    def rule(self, rule: str, text: str):
        self.rules[rule] = text

    def ob(self, rule: str, key: str, ok: bool, detail: str = "", loc: str = "", facts: Any = None):
        """One rule instance (obligation).  key identifies the construct: 'module:qualname | instance'."""
        full = f"{rule} | {key}"
        if self.only and self.only not in full:
            return ok
        if not ok and detail and _OPAQUE_RE.search(str(detail)):
            # the contradiction involves a value the engine could not follow: that is a failure of the analysis, never a verdict
            self.analysis_errors.append(f"{full}: not decidable, an unmodelled value is involved ({str(detail)[:160]})")
            return ok
        self.obligations.append({"rule": rule, "key": full, "ok": bool(ok), "detail": detail, "loc": loc, "facts": facts})
        return ok

    def coverage(self, rule: str, key: str, got: int, need: int, detail: str = "", loc: str = ""):
        """a hand-confirmed minimum of analysed instances: meeting it is recorded as an obligation that holds; falling short means
        the ANALYSIS lost ground (exit 2) — it says nothing about the property and is never reported as a violation"""
        if got >= need:
            return self.ob(rule, key, True, detail or f"{got} analysed, {need} confirmed by hand", loc)
        self.analysis_errors.append(f"{rule} | {key}: only {got} analysed, {need} confirmed by hand ({detail})")
        return False

    def info(self, msg: str):
        self.infos.append(msg)

    def skip_opaque(self, what: str):
        self.opaque.append(what)

    def saw(self, *, file: str = None, func: str = None, table: str = None):
        if file:
            self.analysed["files"].add(file)
        if func:
            self.analysed["functions"].add(func)
        if table:
            self.analysed["tables"].add(table)

    def saw_func(self, fi):
        self.analysed["files"].add(fi.module.relpath)
        self.analysed["functions"].add(fi.qualname)

    def sample(self, s: Any):
        if len(self.samples) < 12:
            self.samples.append(s)

    def require(self, rule: str, n_min: int):
        """Fail closed if fewer than n_min instances of `rule` were found (confirmed-by-hand count)."""
        self.min_counts[rule] = n_min

    def count(self, rule: str) -> int:
        return sum(1 for o in self.obligations if o["rule"] == rule)


_OPAQUE_RE = re.compile(r"AOpq\(|OB\(|\bopaque\b|external [a-z_.]+|\babort:|\bbudget:")


def load_known() -> Dict[str, Any]:
    if KNOWN_FILE.exists():
        return json.loads(KNOWN_FILE.read_text())
    return {"known": [], "fixed": []}


def finish(ctx: Ctx, write_evidence: bool = True) -> int:
    """Print verdict lines, write evidence, return exit code."""
    pid = ctx.pid
    if not ctx.only:
        for rule, n in ctx.min_counts.items():
            got = ctx.count(rule)
            if got < n:
                ctx.analysis_errors.append(f"rule {rule}: only {got} instances found, {n} confirmed by hand — analysis broken")
        if not ctx.obligations:
            ctx.analysis_errors.append("no rule instance found at all")
    known = load_known()
    known_keys = {k["key"]: k for k in known.get("known", []) if k.get("property") == pid}
    failing = [o for o in ctx.obligations if not o["ok"]]
    new, listed = [], []
    for o in failing:
        (listed if o["key"] in known_keys else new).append(o)
    out = sys.stdout
    evdir = VERIF / "evidence"
    for o in listed:
        print(f"KNOWN-FINDING: property={pid} {o['key']} — {known_keys[o['key']].get('what', o['detail'])}", file=out)
    replay_paths = []
    if new:
        rdir = evdir / "replay"
        rdir.mkdir(parents=True, exist_ok=True)
        for i, o in enumerate(new):
            p = rdir / f"{pid}-{i}.json"
            p.write_text(json.dumps({
                "property": pid, "rule": o["rule"], "rule_text": ctx.rules.get(o["rule"], ""), "key": o["key"],
                "location": o["loc"], "detail": o["detail"], "facts": o["facts"],
                "rerun": f"/venv/bin/python /verif/check.py {pid} --only {json.dumps(o['key'])}",
                "repo": str(ctx.repo.root),
            }, indent=1, default=str))
            replay_paths.append(str(p))
            print(f"FINDING {o['key']} at {o['loc']}: {o['detail']}", file=out)
            print(f"VIOLATION property={pid} replay={p}", file=out)
    wall = time.time() - ctx.t0
    n_ob = len(ctx.obligations)
    n_ok = sum(1 for o in ctx.obligations if o["ok"])
    if not ctx.quiet:
        per_rule: Dict[str, List[int]] = {}
        for o in ctx.obligations:
            a = per_rule.setdefault(o["rule"], [0, 0])
            a[0] += 1
            a[1] += int(o["ok"])
        for r, (n, k) in sorted(per_rule.items()):
            print(f"  rule {r}: {k}/{n} instances hold", file=out)
        for m in ctx.infos[:40]:
            print(f"  info: {m}", file=out)
        print(f"{pid}: {n_ok}/{n_ob} obligations hold, {len(listed)} known finding(s), {len(new)} new violation(s), "
              f"{len(ctx.opaque)} opaque, {len(ctx.analysed['functions'])} functions / {len(ctx.analysed['files'])} files, {wall:.2f}s", file=out)
    if write_evidence and not ctx.only:
        evdir.mkdir(exist_ok=True)
        distinct = len({o["key"] for o in ctx.obligations})
        samples = ctx.samples[:8] or [{"rule": o["rule"], "key": o["key"], "ok": o["ok"], "detail": o["detail"][:200]} for o in ctx.obligations[:6]]
        ev = {
            "property_id": pid,
            "tier": ctx.tier,
            "seed": ctx.seed,
            "level": "other",
            "coverage": {
                "explanation": ctx.explanation or "static analysis of the current source tree; see rules",
                "obligations": n_ob,
                "discharged": n_ok,
                "evaluations": n_ob,
                "distinct_nontrivial": distinct,
                "rule": "one evaluation = one rule instance (obligation) extracted from /repo's current source; distinct by rule+construct key; every instance is non-trivial in that it compares two independently extracted facts",
                "samples": samples,
                "rules": ctx.rules,
                "instances_per_rule": {r: ctx.count(r) for r in sorted({o['rule'] for o in ctx.obligations})},
                "required_min_instances": ctx.min_counts,
                "files_analysed": sorted(ctx.analysed["files"]),
                "functions_analysed": sorted(ctx.analysed["functions"]),
                "tables_analysed": sorted(ctx.analysed["tables"]),
                "source_digest": ctx.repo.digest(),
                "repo_root": str(ctx.repo.root),
                "opaque_skipped": ctx.opaque[:50],
                "opaque_count": len(ctx.opaque),
                "known_findings_reported": [o["key"] for o in listed],
                "new_violations": [o["key"] for o in new],
                "info": ctx.infos[:60],
                "selftest": ctx.selftest,
                "analysis_errors": ctx.analysis_errors,
                "checker_cmd": f"/venv/bin/python /verif/check.py {pid} --tier {ctx.tier}",
                "trusted_base": ["CPython ast", "the checker's own algebra (sa/algebra.py)", "pinned spec values in /verif/spec"],
                "exhaustive": True,
                **ctx.extra,
            },
            "assumptions": ctx.assumptions or ["CPython's ast parses the tree as the interpreter would"],
            "wall_s": round(wall, 3),
            "violations": len(new),
        }
        (evdir / f"{pid}.json").write_text(json.dumps(ev, indent=1, default=str))
    for e in ctx.analysis_errors:
        print(f"ANALYSIS-ERROR property={pid} {e}", file=out)
    if new:
        return 1
    return 2 if ctx.analysis_errors else 0
