"""Operation models for sa/bitabs.py: operators, attribute access, subscripts, calls into builtins,
bitarray / numpy / int / bytes APIs, and summaries for repo functions that are deliberately not
interpreted (CRC engines etc. become uninterpreted functions of their argument forms)."""
from __future__ import annotations

import ast
from typing import Any

from .bitabs import (fin_to_bit, NeedCases, AExt, AScaled, ASumVec, PartialRaise, _Raises, fresh, AFin, fin_lift, fin_atoms, mkfin, MAX_FIN_ATOMS, ABits, ACond, AEnum, AFn, AInt, AObj, AOpq, ATable, AView, Abort, F, OB, ONE, ZERO, PathRaise,
                     cbit, _freeze)
from .model import (BitArr, ClassInfo, ClassRef, EnumMember, FuncInfo, FuncRef, ModRef, NPArr, Rec, StructObj, Unfoldable, SAFE)

# ------------------------------------------------------------------------------------------------ helpers


class APop:
    """number of one bits among the given bit forms (bin(x).count("1"), x.bit_count()); only comparison with a constant is modelled"""

    def __init__(self, forms):
        self.forms = list(forms)

    def __repr__(self):
        return f"APop({len(self.forms)} bits)"


class ANeg:
    """the negative of a NON-ZERO abstract magnitude (sign-magnitude view of a negative integer); only abs(), comparison
    with 0 and multiplication by +-1 are modelled, anything else fails closed"""

    def __init__(self, mag):
        self.mag = mag

    def __repr__(self):
        return f"ANeg({self.mag!r})"


def is_abs(v):
    return isinstance(v, (AExt, ABits, AInt, AEnum, AObj, ATable, AView, ACond, AOpq, AFn, AFin, ASumVec, ANeg, APop)) or \
        (isinstance(v, tuple) and any(is_abs(x) for x in v))


def deep_abs(v, depth=0) -> bool:
    """does the value contain an abstract part anywhere (lists, tuples, dicts, sets looked into)?"""
    if is_abs(v):
        return True
    if depth > 4:
        return False
    if isinstance(v, (list, tuple, set, frozenset)):
        return any(deep_abs(x, depth + 1) for x in v)
    if isinstance(v, dict):
        return any(deep_abs(x, depth + 1) for x in v.values()) or any(deep_abs(x, depth + 1) for x in v.keys())
    return False


TOO_WIDE = object()


def try_lift(fn, *args):
    """pointwise evaluation in the finite-function domain, or None if the arguments are too wide / not finite"""
    acc = set()
    try:
        for a in args:
            fin_atoms(a, acc)
    except Abort:
        return TOO_WIDE
    if len(acc) > MAX_FIN_ATOMS:
        return TOO_WIDE
    return fin_lift(fn, *args)


def const_of(fr, v):
    """python int if the abstract int is fully constant on this path"""
    if isinstance(v, bool):
        return int(v)
    if isinstance(v, int):
        return v
    if isinstance(v, AInt):
        return fr.I_const(v)
    return None


def fn_int(fr, tag: str, args, width: int) -> AInt:
    """uninterpreted function result: `width` value bits named by (tag, frozen args).  Arithmetic the domain cannot express
    (tag 'arith:*') is only kept as an uninterpreted function where a rule asked for it (I.uninterpreted_arith: C17 reasons about
    'the incremented counter' structurally); everywhere else it is an OPAQUE integer, so that no rule can mistake the
    abstraction for a different value."""
    if tag.startswith("arith:") and not getattr(fr.I, "uninterpreted_arith", False):
        why = f"{tag} of symbolic integers at {fr.fi.module.relpath}"
        r_ = AInt([OB(why) for _ in range(width)])
        r_.oext = why           # `width` is a display width only: the true value may be wider (a 144-bit packed word)
        return r_
    key = (tag, _freeze([_norm(fr, a) for a in args]))
    return AInt([fr.I.atom_form(("fn", key, j)) for j in range(width)])


def _norm(fr, a):
    if isinstance(a, ABits):
        return ABits(fr.I.simp_bits(a.items), "seq")
    if isinstance(a, AInt):
        if a.ext is None:
            bits = fr.I.simp_bits(a.bits)
            # drop leading zeros so that equal values with different widths have one name
            while len(bits) > 1 and isinstance(bits[-1], F) and bits[-1].is_const and bits[-1].c == 0:
                bits.pop()
            return AInt(bits)
        return a
    if isinstance(a, (bytes, bytearray)):
        return ABits(fr.to_bitlist(bytes(a)), "seq")
    if isinstance(a, BitArr):
        return ABits([cbit(x) for x in a], "seq")
    if isinstance(a, bool):
        return AInt([cbit(a)])
    if isinstance(a, int) and a >= 0:
        return AInt(fr.to_int(a).bits)
    return a


# ------------------------------------------------------------------------------------------------ operators


def matvec(fr, l, r):
    """0/1 constant matrix times bit vector (either order) as integer sums of forms"""
    def bits(v):
        return fr.to_bitlist(v) if isinstance(v, (ABits, AView)) else None
    if isinstance(l, NPArr) and l.ndim == 2 and bits(r) is not None:
        v = bits(r)
        if len(v) != l.shape[1]:
            raise PathRaise("ValueError", f"shapes ({l.shape[0]},{l.shape[1]}) and ({len(v)},) not aligned")
        rows = l.data
    elif isinstance(r, NPArr) and r.ndim == 2 and bits(l) is not None:
        v = bits(l)
        if len(v) != r.shape[0]:
            raise PathRaise("ValueError", f"shapes ({len(v)},) and ({r.shape[0]},{r.shape[1]}) not aligned")
        rows = [list(c) for c in zip(*r.data)]
    else:
        return None
    out = []
    for row in rows:
        terms = []
        for coef, b in zip(row, v):
            if coef == 0:
                continue
            if coef != 1:
                return None
            terms.append(b)
        out.append(terms)
    return ASumVec(out)


def binop(fr, op, l, r, node):
    I = fr.I
    if isinstance(l, AOpq) or isinstance(r, AOpq):
        return I.opaque("binop with opaque")
    if isinstance(l, ANeg) or isinstance(r, ANeg) or (isinstance(op, ast.Mult) and (isinstance(l, AInt) and r == -1 and not isinstance(r, bool)
                                                                                    or isinstance(r, AInt) and l == -1 and not isinstance(l, bool))):
        a, b = (l, r) if is_abs(l) else (r, l)
        if isinstance(op, ast.Mult) and isinstance(b, int) and not isinstance(b, bool) and b in (1, -1):
            if isinstance(a, ANeg):
                return a.mag if b == -1 else a
            c = const_of(fr, a)
            if c is not None:
                return c * b
            if b == -1:
                return ANeg(a) if _nonzero(fr, a) else I.opaque("negation of an abstract int that may be zero")
            return a
        raise Abort(f"arithmetic on a negative abstract int at {fr.fi.module.relpath}:{node.lineno}")
    if isinstance(l, APop) and not is_abs(r) and ((isinstance(op, ast.Mod) and r == 2) or (isinstance(op, ast.BitAnd) and r == 1)):
        # the parity of a population count is the xor of the counted bits — exact in the GF(2) domain
        acc = ZERO
        for b in l.forms:
            acc = acc ^ b
        return AInt([acc])
    if isinstance(op, ast.MatMult):
        v = matvec(fr, l, r)
        if v is not None:
            return v
        return I.opaque("matrix product")
    if isinstance(l, ASumVec):
        if isinstance(op, ast.Mod) and const_of(fr, r) == 2:
            return l.mod2()
        return I.opaque("arithmetic on integer sums")
    if isinstance(l, AFin) or isinstance(r, AFin):
        from .model import BIN
        l, r = I.simp_fin(l), I.simp_fin(r)
        if not is_abs(l) and not is_abs(r):
            return BIN[type(op)](l, r)
        # a byte string selected by a few input bits, concatenated with symbolic octets: exact when every alternative has the same
        # length (one finite function per bit); otherwise the statement is analysed per assignment of those bits
        for a_, b_ in ((l, r), (r, l)):
            if isinstance(a_, AFin) and all(isinstance(t, (bytes, bytearray)) for t in a_.table) and isinstance(b_, (ABits, bytes, bytearray)) and isinstance(op, ast.Add):
                if len({len(t) for t in a_.table}) != 1:
                    raise NeedCases(sorted(a_.atoms))
                nb = len(a_.table[0])
                bits = [mkfin(a_.atoms, [(t[i] >> (7 - k)) & 1 for t in a_.table]) for i in range(nb) for k in range(8)]
                bits = [fin_to_bit(x) if isinstance(x, AFin) else cbit(int(x)) for x in bits]
                fa = ABits(bits, "bytes")
                return binop(fr, op, fa, r, node) if a_ is l else binop(fr, op, l, fa, node)
        v = try_lift(BIN[type(op)], l, r)
        if v is TOO_WIDE:
            return fn_int(fr, "arith:" + type(op).__name__, [l, r], 64)
        return v
    # sequence concatenation / repetition
    if isinstance(op, ast.Add):
        if isinstance(l, ABits) or isinstance(r, ABits):
            if isinstance(l, ABits) and l.kind == "np" or isinstance(r, ABits) and r.kind == "np":
                return I.opaque("numpy elementwise add")
            kind = l.kind if isinstance(l, ABits) else r.kind
            try:
                a, b = seq_bits(fr, l, kind), seq_bits(fr, r, kind)
            except Abort:
                raise PathRaise("TypeError", f"cannot concatenate {type(l).__name__} and {type(r).__name__} at {fr.fi.module.relpath}:{node.lineno}")
            return ABits(a + b, kind, l.endian if isinstance(l, ABits) else r.endian)
        if isinstance(l, BitArr) and isinstance(r, BitArr):
            return BitArr(list(l) + list(r))
        if isinstance(l, (list, tuple)) and isinstance(r, (list, tuple)):
            return type(l)(list(l) + list(r))
    if isinstance(op, ast.Mult):
        if isinstance(l, (list, tuple, bytes, str, BitArr)) and const_of(fr, r) is not None and not isinstance(l, (int,)):
            n = const_of(fr, r)
            return BitArr(list(l) * n) if isinstance(l, BitArr) else l * n
        if isinstance(r, (list, tuple, bytes, str)) and const_of(fr, l) is not None:
            return r * const_of(fr, l)
        if isinstance(l, ABits) and const_of(fr, r) is not None:
            return ABits(l.items * const_of(fr, r), l.kind)
    if isinstance(op, ast.Mod) and isinstance(l, str):
        rr = r if isinstance(r, tuple) else (r,)
        if not any(is_abs(x) for x in rr):
            try:
                return l % r
            except Exception as e:
                raise PathRaise(type(e).__name__, str(e))
        return I.opaque("string formatting", notnone=True)
    if isinstance(l, ABits) and l.kind == "ba" and isinstance(op, (ast.LShift, ast.RShift)) and const_of(fr, r) is not None:
        k = min(const_of(fr, r), len(l.items))
        if isinstance(op, ast.LShift):
            return ABits(l.items[k:] + [ZERO] * k, "ba", l.endian)
        return ABits([ZERO] * k + l.items[:len(l.items) - k], "ba", l.endian)
    if isinstance(l, ABits) and l.kind == "np" and isinstance(r, int) and not isinstance(r, bool) and \
            (isinstance(op, ast.Mod) and r >= 2 or isinstance(op, ast.BitAnd) and r & 1 and r > 0):
        # a numpy vector of 0/1 elements reduced mod 2 (or masked with an odd constant): elementwise the same bits, a new array
        return ABits(list(l.items), "np", l.endian)
    # bitarray bitwise ops
    if isinstance(l, ABits) and isinstance(r, (ABits, BitArr)) and isinstance(op, (ast.BitXor, ast.BitAnd, ast.BitOr)):
        rb = fr.to_bitlist(r)
        if len(rb) != len(l.items):
            raise PathRaise("ValueError", "bitarrays of equal length expected")
        return ABits([bit_op(op, a, b) for a, b in zip(l.items, rb)], l.kind)
    # integers
    lc, rc = const_of(fr, l), const_of(fr, r)
    if lc is not None and rc is not None and not isinstance(l, AInt) and not isinstance(r, AInt):
        try:
            from .model import BIN
            return BIN[type(op)](l, r)
        except ZeroDivisionError:
            raise PathRaise("ZeroDivisionError", "")
        except Exception as e:
            raise Abort(f"constant binop failed: {e}")
    if isinstance(l, (AInt, int, bool)) and isinstance(r, (AInt, int, bool)):
        return int_binop(fr, op, l, r, node)
    if isinstance(l, AScaled) or isinstance(r, AScaled):
        if isinstance(l, AScaled) and isinstance(r, (int, float)) and not isinstance(r, bool) and r != 0:
            if isinstance(op, ast.Div):
                return AScaled(l.aint, l.factor / r)
            if isinstance(op, ast.Mult):
                return AScaled(l.aint, l.factor * r)
        if isinstance(r, AScaled) and isinstance(l, (int, float)) and isinstance(op, ast.Mult):
            return AScaled(r.aint, r.factor * l)
        return I.opaque("arithmetic on scaled value")
    if isinstance(l, float) or isinstance(r, float):
        if isinstance(op, ast.Mult) and (isinstance(l, AInt) or isinstance(r, AInt)):
            a, f = (l, r) if isinstance(l, AInt) else (r, l)
            return AScaled(a, float(f))
        if isinstance(l, (int, float)) and isinstance(r, (int, float)):
            from .model import BIN
            return BIN[type(op)](l, r)
        return I.opaque("float arithmetic on abstract int")
    if not is_abs(l) and not is_abs(r):
        try:
            from .model import BIN
            return BIN[type(op)](l, r)
        except Exception as e:
            raise Abort(f"binop {type(op).__name__} on constants: {e}")
    return I.opaque(f"binop {type(op).__name__} on {type(l).__name__},{type(r).__name__}")


def bit_op(op, a, b):
    if isinstance(op, ast.BitXor):
        return a ^ b
    if isinstance(a, OB) or isinstance(b, OB):
        return OB("and/or of opaque")
    if isinstance(op, ast.BitAnd):
        if a.is_const:
            return b if a.c else ZERO
        if b.is_const:
            return a if b.c else ZERO
        if a == b:
            return a
        return OB("and of two forms")
    if isinstance(op, ast.BitOr):
        if a.is_const:
            return ONE if a.c else b
        if b.is_const:
            return ONE if b.c else a
        if a == b:
            return a
        return OB("or of two forms")
    return OB("bit op")


def seq_bits(fr, v, kind):
    if isinstance(v, ABits):
        if (v.kind == "bytes") != (kind == "bytes"):
            raise Abort("mixing bytes and bits")
        return list(v.items)
    if isinstance(v, (bytes, bytearray)) and kind == "bytes":
        return fr.to_bitlist(bytes(v))
    if isinstance(v, BitArr) and kind != "bytes":
        return [cbit(x) for x in v]
    if isinstance(v, (list, tuple)) and kind in ("list", "np", "ba"):
        return [fr.to_bit(x) for x in v]
    raise Abort(f"cannot concatenate {type(v).__name__} to {kind}")


def int_binop(fr, op, l, r, node):
    I = fr.I
    A, B = fr.to_int(l), fr.to_int(r)
    lc, rc = const_of(fr, l), const_of(fr, r)
    for X_, other_c in ((A, rc), (B, lc)):
        if getattr(X_, "oext", None) is not None:
            # an operand of unknown magnitude: the result is of unknown magnitude too, except where a constant mask bounds it
            if isinstance(op, ast.BitAnd) and other_c is not None and other_c >= 0:
                return AInt([OB(X_.oext) if (other_c >> j) & 1 else ZERO for j in range(max(other_c.bit_length(), 1))])
            r_ = AInt([OB(X_.oext) for _ in range(64)])
            r_.oext = X_.oext
            return r_
    if lc is not None and rc is not None:
        from .model import BIN
        try:
            res = BIN[type(op)](lc, rc)
        except ZeroDivisionError:
            raise PathRaise("ZeroDivisionError", "")
        if isinstance(res, int) and res >= 0:
            return res
        return res
    if getattr(A, "signed", False) or getattr(B, "signed", False):
        # two's-complement abstract integers: only what keeps the representation exact is modelled
        sb = I.simp(A.bits[-1]) if getattr(A, "signed", False) and A.bits else None
        if getattr(A, "signed", False) and not getattr(B, "signed", False) and isinstance(sb, F) and sb.is_const and sb.c == 0:
            A = AInt(list(A.bits[:-1]) or [ZERO])          # provably non-negative: an ordinary unsigned value
        elif isinstance(op, ast.LShift) and rc is not None and getattr(A, "signed", False) and A.ext is None and not getattr(B, "signed", False):
            r_ = AInt([ZERO] * rc + list(A.bits))           # the sign bit stays on top
            r_.signed = True
            return r_
        elif isinstance(op, ast.RShift) and rc is not None and getattr(A, "signed", False) and A.ext is None and not getattr(B, "signed", False):
            keep = A.bits[rc:] or [A.bits[-1]]              # arithmetic shift: the sign bit stays on top
            r_ = AInt(list(keep))
            r_.signed = True
            return r_
        elif isinstance(op, ast.BitAnd) and A.ext is None and A.bits and (
                (rc is not None and rc >= 0 and getattr(A, "signed", False)) or (lc is not None and lc >= 0 and getattr(B, "signed", False))):
            # two's complement & non-negative constant mask: sign-extend the signed side, the result is an unsigned value
            S, m = (A, rc) if rc is not None and rc >= 0 and getattr(A, "signed", False) else (B, lc)
            sx = lambda j: S.bits[j] if j < len(S.bits) else S.bits[-1]
            return AInt([sx(j) if (m >> j) & 1 else ZERO for j in range(max(m.bit_length(), 1))])
        else:
            raise Abort(f"arithmetic on a signed abstract integer ({type(op).__name__}) at {fr.fi.module.relpath}:{getattr(node, 'lineno', 0)}")
    if isinstance(op, ast.LShift) and rc is not None:
        return AInt([ZERO] * rc + A.bits, A.ext and (A.ext, "shl", rc), A.interp) if A.ext is None else shifted_ext(fr, A, rc)
    if isinstance(op, ast.RShift) and rc is not None:
        if A.ext is None:
            return AInt(A.bits[rc:] or [ZERO])
        return AInt([A.bit(j + rc) for j in range(64)])
    if isinstance(op, (ast.BitAnd, ast.BitOr, ast.BitXor)):
        w = max(_w(A), _w(B))
        return AInt([bit_op(op, A.bit(j), B.bit(j)) for j in range(w)])
    if isinstance(op, ast.Add):
        # sum of two ints whose set bits cannot overlap is their bitwise or
        w = max(_w(A), _w(B))
        out = []
        for j in range(w):
            a, b = I.simp(A.bit(j)), I.simp(B.bit(j))
            if isinstance(a, F) and a.is_const and a.c == 0:
                out.append(b)
            elif isinstance(b, F) and b.is_const and b.c == 0:
                out.append(a)
            else:
                v = try_lift(lambda x, y: x + y, A, B)
                return v if v is not TOO_WIDE else fn_int(fr, "add", [A, B], w + 1)
        return AInt(out)
    if isinstance(op, ast.Sub) and rc == 0:
        return A
    if isinstance(op, ast.Mult):
        if rc is not None and rc > 0 and rc & (rc - 1) == 0:
            return int_binop(fr, ast.LShift(), l, rc.bit_length() - 1, node)
        if lc is not None and lc > 0 and lc & (lc - 1) == 0:
            return int_binop(fr, ast.LShift(), r, lc.bit_length() - 1, node)
        if rc == 0 or lc == 0:
            return 0
    if isinstance(op, ast.Mod) and rc is not None and rc > 0 and rc & (rc - 1) == 0:
        k = rc.bit_length() - 1
        return AInt([A.bit(j) for j in range(k)] or [ZERO])
    if isinstance(op, ast.FloorDiv) and rc is not None and rc > 0 and rc & (rc - 1) == 0:
        return int_binop(fr, ast.RShift(), l, rc.bit_length() - 1, node)
    if isinstance(op, ast.Mod) and rc is not None and rc > 0:
        v = try_lift(lambda x, y: x % y, A, rc)
        if v is not TOO_WIDE:
            return v
        return fn_int(fr, "mod", [A, rc], (rc - 1).bit_length())  # result < rc: fits that many bits
    from .model import BIN
    v = try_lift(BIN[type(op)], A, B)
    if v is not TOO_WIDE:
        return v
    return fn_int(fr, "arith:" + type(op).__name__, [A, B], 64)


def shifted_ext(fr, A: AInt, k: int):
    return AInt([ZERO] * k + [A.bit(j) for j in range(64)])


def _w(a: AInt):
    return len(a.bits) if a.ext is None else 64


# ------------------------------------------------------------------------------------------------ comparisons


def _nonzero(fr, a) -> bool:
    """is the abstract int provably non-zero on this path (some bit is the constant 1)"""
    return isinstance(a, AInt) and any(isinstance(b, F) and b.is_const and b.c == 1 for b in fr.I.simp_bits(a.bits))


def compare(fr, op, l, r, node):
    I = fr.I
    if isinstance(l, APop) or isinstance(r, APop):
        flipm = {ast.Lt: ast.Gt, ast.Gt: ast.Lt, ast.LtE: ast.GtE, ast.GtE: ast.LtE, ast.Eq: ast.Eq, ast.NotEq: ast.NotEq}
        if isinstance(r, APop):
            if type(op) not in flipm:
                raise Abort("population count in an unmodelled comparison")
            l, r, op = r, l, flipm[type(op)]()
        if not (isinstance(r, int) and not isinstance(r, bool)) or type(op) not in flipm:
            raise Abort("population count compared with a non-constant")
        forms = I.simp_bits(l.forms)
        ones = sum(1 for b in forms if isinstance(b, F) and b.is_const and b.c == 1)
        free = [b for b in forms if not (isinstance(b, F) and b.is_const)]
        lo, hi = ones, ones + len(free)
        import operator
        opf = {ast.Lt: operator.lt, ast.LtE: operator.le, ast.Gt: operator.gt, ast.GtE: operator.ge, ast.Eq: operator.eq, ast.NotEq: operator.ne}[type(op)]
        vals = {opf(c, r) for c in range(lo, hi + 1)}
        if len(vals) == 1:
            return vals.pop()
        # "no free bit is set" is linear: decided exactly
        if ones == 0 and ((isinstance(op, ast.LtE) and r == 0) or (isinstance(op, ast.Lt) and r == 1) or (isinstance(op, ast.Eq) and r == 0)):
            return I.decide_eq(free, 0, f"{fr.fi.name}:{getattr(node, 'lineno', 0)}:popcount==0")
        if ones == 0 and ((isinstance(op, ast.Gt) and r == 0) or (isinstance(op, ast.GtE) and r == 1) or (isinstance(op, ast.NotEq) and r == 0)):
            return not I.decide_eq(free, 0, f"{fr.fi.name}:{getattr(node, 'lineno', 0)}:popcount==0")
        # a genuine threshold on a population count is not linear: an undecided condition that REMEMBERS its operands, so that a
        # checker can validate a reported difference with a concrete witness (see popcount_witness)
        return ACond("popcnt", tuple(forms), type(op).__name__, r)
    if isinstance(l, ANeg) or isinstance(r, ANeg):
        a, b, flip = (l, r, False) if isinstance(l, ANeg) else (r, l, True)
        if isinstance(b, int) and not isinstance(b, bool) and b >= 0 and not isinstance(op, (ast.In, ast.NotIn, ast.Is, ast.IsNot)):
            # negative < every non-negative constant
            less = True
            if isinstance(op, (ast.Lt, ast.LtE)):
                return less != flip
            if isinstance(op, (ast.Gt, ast.GtE)):
                return (not less) != flip
            if isinstance(op, ast.Eq):
                return False
            if isinstance(op, ast.NotEq):
                return True
        raise Abort(f"comparison of a negative abstract int at {fr.fi.module.relpath}:{node.lineno}")
    if isinstance(op, (ast.In, ast.NotIn)):
        if isinstance(r, (list, tuple, set, frozenset)) and isinstance(l, AInt) and l.ext is None and (l.isbool or len(l.bits) == 1) \
                and r and all(isinstance(x, (bool, int)) and x in (0, 1) for x in r):
            vals = {int(x) for x in r}
            b = l.bit(0)
            res = True if vals == {0, 1} else AInt([b if vals == {1} else b ^ 1], isbool=True)
            if isinstance(op, ast.NotIn):
                res = False if res is True else AInt([res.bit(0) ^ 1], isbool=True)
            return res
        if isinstance(r, (list, tuple, set, frozenset)):
            hit = False
            if is_abs(l) or any(is_abs(x) for x in r):
                for x in r:
                    if I.decide(compare(fr, ast.Eq(), l, x, node), f"in:{node.lineno}"):
                        hit = True
                        break
            else:
                hit = l in r
            return hit if isinstance(op, ast.In) else not hit
        if isinstance(r, dict) and not is_abs(l):
            return (l in r) if isinstance(op, ast.In) else (l not in r)
        if isinstance(r, dict):
            try:
                hit = l in r
            except TypeError:
                hit = False
            if hit or not r:
                return hit if isinstance(op, ast.In) else not hit
            if len(r) <= 16 and not isinstance(l, (AOpq, ABits, list, dict)):
                # a symbolic key against the few keys stored so far on this path: decided key by key (a linear predicate splits the trace)
                for k in list(r):
                    if isinstance(k, AOpq):
                        break
                    if I.decide(compare(fr, ast.Eq(), l, k, node), f"in-dict:{node.lineno}"):
                        return isinstance(op, ast.In)
                else:
                    return not isinstance(op, ast.In)
        if isinstance(r, (bytes, str)) and not is_abs(l):
            return (l in r) if isinstance(op, ast.In) else (l not in r)
        if isinstance(r, (bytes, bytearray)) and isinstance(l, ABits) and l.kind == "bytes":
            lb = I.simp_bits(l.items)
            if all(isinstance(b_, F) and b_.is_const for b_ in lb):
                # an octet string whose bits are all constants on this path: the plain substring test
                lc_ = bytes(int("".join(str(b_.c) for b_ in lb[i_:i_ + 8]), 2) for i_ in range(0, len(lb), 8))
                return (lc_ in bytes(r)) if isinstance(op, ast.In) else (lc_ not in bytes(r))
            if len(lb) == 8:
                # one symbolic octet against a constant octet string: equal to one of its octets (decided octet by octet)
                hit = False
                for x_ in sorted(set(bytes(r))):
                    if I.decide_eq(lb, x_, f"in-bytes:{node.lineno}"):
                        hit = True
                        break
                return hit if isinstance(op, ast.In) else not hit
        if isinstance(r, AOpq) or isinstance(l, AOpq):
            return I.opaque("membership with opaque")
        if isinstance(r, AFin):
            # a container selected by a few input bits (row of a state table): decided exactly per assignment of those bits
            r2 = I.simp_fin(r)
            if not isinstance(r2, AFin):
                return compare(fr, op, l, r2, node)
            raise NeedCases(sorted(set(r2.atoms) | (set(I.simp_fin(l).atoms) if isinstance(I.simp_fin(l), AFin) else set())))
        raise Abort(f"membership test in {type(r).__name__} l={l!r} keys={list(r)[:3] if isinstance(r, dict) else None} n={len(r) if isinstance(r, dict) else 0}")
    if isinstance(op, (ast.Is, ast.IsNot)):
        from .model import ClassRef as _CR, FuncRef as _FR
        same = (l is r) or (l is None and r is None) or (isinstance(l, bool) and isinstance(r, bool) and l == r) \
            or (isinstance(l, EnumMember) and l == r) or (isinstance(l, _CR) and isinstance(r, _CR) and l == r)
        if not same and isinstance(l, (AInt, ABits, AFin)) and isinstance(r, (AInt, ABits, AFin)):
            # identity of two computed values (small-int caching, interned constants) is not a property of the abstract value
            raise Abort("identity (is / is not) of two computed values is not modelled")
        if is_abs(l) and r is None or is_abs(r) and l is None:
            o = l if isinstance(l, AOpq) else r if isinstance(r, AOpq) else None
            if o is not None and not o.notnone:
                return I.opaque("is None on opaque")
            same = False
        return same if isinstance(op, ast.Is) else not same
    if isinstance(l, AFin) or isinstance(r, AFin) or (isinstance(l, tuple) and is_abs(l)) or (isinstance(r, tuple) and is_abs(r)):
        from .model import CMP
        l, r = I.simp_fin(l), I.simp_fin(r)
        if not is_abs(l) and not is_abs(r):
            return CMP[type(op)](l, r)
        v = try_lift(CMP[type(op)], l, r)
        if v is TOO_WIDE:
            return ACond("cmp:" + type(op).__name__, l, r)
        return v
    neg = isinstance(op, ast.NotEq)
    if isinstance(op, (ast.Eq, ast.NotEq)):
        v = eq(fr, l, r, node)
        if neg:
            if isinstance(v, bool):
                return not v
            if isinstance(v, AInt):
                return AInt([v.bit(0) ^ 1], isbool=True)
            if isinstance(v, ACond):
                return ACond("not", v)
            return v
        return v
    # orderings
    if isinstance(l, AOpq) or isinstance(r, AOpq):
        return I.opaque("ordering with opaque")
    if isinstance(l, ABits) and isinstance(r, (ABits, BitArr)) and l.kind == "ba":
        rb = I.simp_bits(fr.to_bitlist(r))
        lb = I.simp_bits(l.items)
        if len(rb) == len(lb) and rb and all(isinstance(x, F) and x.is_const for x in rb):
            pat = [x.c for x in rb]
            if pat[0] == 1 and not any(pat[1:]):
                # l >= 100..0  <=>  first bit set ;  l < 100..0 <=> first bit clear
                if isinstance(op, ast.GtE):
                    return AInt([lb[0]], isbool=True)
                if isinstance(op, ast.Lt):
                    return AInt([lb[0] ^ 1], isbool=True)
            if all(isinstance(x, F) and x.is_const for x in lb):
                from .model import CMP
                return CMP[type(op)]([x.c for x in lb], pat)
        return I.opaque("lexicographic bitarray comparison")
    lc, rc = const_of(fr, l), const_of(fr, r)
    if lc is not None and rc is not None:
        from .model import CMP
        return CMP[type(op)](lc, rc)
    if not is_abs(l) and not is_abs(r):
        from .model import CMP
        try:
            return CMP[type(op)](l, r)
        except Exception as e:
            raise Abort(f"ordering: {e}")
    if isinstance(l, AInt) and rc is not None:
        # unsigned: x <= 0, x < 1  <=>  x == 0 ;  x > 0, x >= 1  <=> x != 0
        if (isinstance(op, ast.LtE) and rc == 0) or (isinstance(op, ast.Lt) and rc == 1):
            return eq(fr, l, 0, node)
        if (isinstance(op, ast.Gt) and rc == 0) or (isinstance(op, ast.GtE) and rc == 1):
            return compare(fr, ast.NotEq(), l, 0, node)
        if isinstance(op, ast.GtE) and rc <= 0:
            return True
        if isinstance(op, ast.Lt) and rc <= 0:
            return False
        if l.ext is None:
            # bounds from the bits that are constant on this path: lo (free bits 0) <= x <= mx (free bits 1)
            sb = I.simp_bits(l.bits)
            mx = sum(1 << j for j, b in enumerate(sb) if not (isinstance(b, F) and b.is_const and b.c == 0))
            lo = sum(1 << j for j, b in enumerate(sb) if isinstance(b, F) and b.is_const and b.c == 1)
            if isinstance(op, ast.Lt) and rc > mx or isinstance(op, ast.LtE) and rc >= mx:
                return True
            if isinstance(op, ast.Gt) and rc >= mx or isinstance(op, ast.GtE) and rc > mx:
                return False
            if isinstance(op, ast.Lt) and rc <= lo or isinstance(op, ast.LtE) and rc < lo:
                return False
            if isinstance(op, ast.Gt) and rc < lo or isinstance(op, ast.GtE) and rc <= lo:
                return True
        if getattr(I, "exact_ordering", False) and l.ext is None and not l.signed and len(l.bits) <= 64 and rc >= 0:
            # exact decision, most significant bit first: the first position where the value's bit differs from the constant's
            # decides the order (at most one fork per bit, each adding a linear path constraint)
            w = max(len(l.bits), rc.bit_length())
            verdict = None   # 'lt' | 'gt' | None (equal so far)
            for j in range(w - 1, -1, -1):
                cb = (rc >> j) & 1
                vb = I.simp(l.bit(j))
                if isinstance(vb, F) and vb.is_const:
                    if vb.c != cb:
                        verdict = "gt" if vb.c > cb else "lt"
                        break
                    continue
                if I.decide_eq([vb], 1 - cb, f"{fr.fi.name}:{getattr(node, 'lineno', 0)}:order-bit{j}"):
                    verdict = "gt" if cb == 0 else "lt"
                    break
            if verdict is None:
                return isinstance(op, (ast.LtE, ast.GtE))
            return (verdict == "lt") if isinstance(op, (ast.Lt, ast.LtE)) else (verdict == "gt")
        from .model import CMP
        v = try_lift(CMP[type(op)], l, rc)
        if v is not None and v is not TOO_WIDE:
            return v
        return ACond("ord:" + type(op).__name__, l, rc)
    if isinstance(r, AInt) and lc is not None:
        flip = {ast.Lt: ast.Gt, ast.Gt: ast.Lt, ast.LtE: ast.GtE, ast.GtE: ast.LtE}[type(op)]()
        return compare(fr, flip, r, l, node)
    return ACond("ord:" + type(op).__name__, l, r)


def eq(fr, l, r, node):
    I = fr.I
    if isinstance(l, AOpq) or isinstance(r, AOpq):
        if l is r:
            return True
        if getattr(l, "unique", False) or getattr(r, "unique", False):
            return False  # a fresh unique value (uuid4) equals only itself
        return I.opaque("== with opaque")
    if isinstance(r, (AInt, AEnum, ABits)) and not isinstance(l, (AInt, AEnum, ABits)):
        l, r = r, l
    if isinstance(l, AEnum):
        if isinstance(r, EnumMember):
            if r.cls != l.cls.name:
                return False
            if not isinstance(r.value, int) or isinstance(r.value, bool) or r.value < 0:
                # a member that no wire value denotes: it can only be the result of _missing_
                miss = I.repo.find_method(l.cls, "_missing_")
                if miss is None:
                    return False
                for m in I.repo.enum_members(l.cls).values():
                    if isinstance(m.value, int) and m.value >= 0 and I.decide(eq(fr, l.val, m.value, node), f"{fr.fi.name}:{getattr(node, 'lineno', 0)}"):
                        return False
                res = I.call(miss, [ClassRef(l.cls), l.val], {}, l.cls)
                return res == r
            return eq(fr, l.val, r.value, node)
        if isinstance(r, AEnum):
            return eq(fr, l.val, r.val, node) if r.cls is l.cls else False
        return False
    if isinstance(l, AInt):
        rc = const_of(fr, r)
        if isinstance(r, (AInt, int, bool)) and rc is None:
            R = fr.to_int(r)
            w = max(_w(l), _w(R))
            d = [I.simp(l.bit(j) ^ R.bit(j)) for j in range(w)]
            if all(isinstance(x, F) and x.is_const for x in d):
                return not any(x.c for x in d)
            live = [x for x in d if not (isinstance(x, F) and x.is_const)]
            if len(live) == 1 and isinstance(live[0], F) and not any(isinstance(x, F) and x.is_const and x.c for x in d):
                # all other digits agree: equality is the negation of the one remaining difference bit — a linear boolean
                return AInt([live[0] ^ 1], isbool=True)
            return ACond("eq", l, R)
        if rc is None:
            return False
        if l.ext is not None:
            k = ("eqext", l.ext, rc)
            if k not in I.st.conds:
                # at most one constant can be equal on a path
                others = [kk for kk, v in I.st.conds.items() if isinstance(kk, tuple) and kk[:2] == ("eqext", l.ext) and v]
                I.st.conds[k] = False if others else I.st.choose(f"{l.ext}=={rc}")
            return I.st.conds[k]
        if (l.isbool or len(l.bits) == 1) and rc in (0, 1):
            b = l.bit(0)
            return AInt([b ^ (1 ^ rc)], isbool=True)
        if getattr(I, "fn_compare_structural", False) and l.ext is None:
            # an uninterpreted check value compared with a received constant: kept as a condition (nothing is learnt about the
            # function by guessing its value), decided only if something branches on it
            sb = [x for x in I.simp_bits(l.bits) if not (isinstance(x, F) and x.is_const)]
            if sb and all(isinstance(x, F) and len(x.atoms()) == 1 and isinstance(I.atoms.names[x.atoms()[0]], tuple) and I.atoms.names[x.atoms()[0]][0] == "fn" for x in sb):
                return ACond("eq", l, fr.to_int(rc))
        return I.decide_eq(l.msb_first(len(l.bits)), rc, f"{fr.fi.name}:{getattr(node, 'lineno', 0)}")
    if isinstance(l, ABits):
        if isinstance(r, (list, tuple)) and l.kind in ("list", "ba", "np", "seq") and all(isinstance(x, (int, bool)) and x in (0, 1) or (isinstance(x, AInt) and x.ext is None and len(x.bits) <= 1) for x in r):
            r = ABits(fr.to_bitlist(list(r)), "list")
        if isinstance(r, ABits) or isinstance(r, (bytes, bytearray, BitArr)):
            a, b = I.simp_bits(l.items), I.simp_bits(fr.to_bitlist(r))
            if len(a) != len(b):
                return False
            d = [I.simp(x ^ y) if not isinstance(x ^ y, OB) else (x ^ y) for x, y in zip(a, b)]
            if any(isinstance(x, F) and x.is_const and x.c == 1 for x in d):
                return False
            if all(isinstance(x, F) and x.is_const for x in d):
                return True
            return ACond("eqseq", ABits(a, "seq"), ABits(b, "seq"))
        if l.kind == "bitstr" and isinstance(r, str):
            # a text of binary digits against a literal: equal iff every digit matches (decided exactly, may fork)
            if len(l.items) != len(r):
                return False
            forms, want = [], 0
            for i, (it, ch) in enumerate(zip(l.items, r)):
                if it is BINSTR_PREFIX:
                    if ch != "0b"[min(i, 1)] or i > 1:
                        return False
                    continue
                if ch not in "01":
                    return False
                forms.append(it)
                want = (want << 1) | int(ch)
            if not forms:
                return True
            return I.decide_eq(forms, want, f"{fr.fi.name}:{getattr(node, 'lineno', 0)}:digits")
        if r is None or isinstance(r, (EnumMember, ClassRef, FuncRef, AObj)) or (isinstance(r, str) and l.kind != "bitstr") \
                or (isinstance(r, (int, bool)) and l.kind not in ("np",)):
            return False     # a buffer is never None, an enumeration member, a class, an object, a text or a plain number
        # anything else (a constant numpy array: element-wise comparison with broadcasting; a container of another kind) is not what
        # python's == on the abstract object would answer
        raise Abort(f"equality of a {l.kind} buffer and {type(r).__name__} is not modelled at {fr.fi.module.relpath}:{getattr(node, 'lineno', 0)}")
    if isinstance(l, ACond) or isinstance(r, ACond):
        if isinstance(l, ACond) and isinstance(r, bool):
            return l if r else ACond("not", l)
        return ACond("eqc", l, r)
    if (is_abs(l) or is_abs(r)) and not (isinstance(l, (list, tuple)) and isinstance(r, (list, tuple))):
        if l is r:
            return True
        if l is None or r is None or isinstance(l, (str, EnumMember, ClassRef, FuncRef)) or isinstance(r, (str, EnumMember, ClassRef, FuncRef)):
            return False   # an abstract number / buffer / object is never None, a text, an enumeration member or a class
        for a_, b_ in ((l, r), (r, l)):
            if isinstance(a_, AObj):
                m_ = I.repo.find_method(a_.cls, "__eq__")
                if m_ is not None:
                    return I.call(m_, [a_, b_], {}, a_.cls)
        if isinstance(l, AObj) or isinstance(r, AObj):
            return False   # objects whose class defines no __eq__ compare by identity
        raise Abort(f"equality of {type(l).__name__} and {type(r).__name__} is not modelled at {fr.fi.module.relpath}:{getattr(node, 'lineno', 0)}")
    if isinstance(l, (list, tuple)) and isinstance(r, (list, tuple)) and (deep_abs(l) or deep_abs(r)):
        # sequences holding abstract values: equal iff of one type and length and equal element by element (each element decided
        # in turn — python's == on the containers would compare the abstract objects by identity)
        if isinstance(l, list) != isinstance(r, list) or len(l) != len(r):
            return False
        for a, b in zip(l, r):
            e = eq(fr, a, b, node)
            if e is True:
                continue
            if e is False:
                return False
            if not I.decide(e, f"{fr.fi.name}:{getattr(node, 'lineno', 0)}:element"):
                return False
        return True
    if deep_abs(l) or deep_abs(r):
        raise Abort(f"equality of containers holding abstract values ({type(l).__name__} == {type(r).__name__}) at {fr.fi.module.relpath}:{getattr(node, 'lineno', 0)}")
    if isinstance(l, NPArr) or isinstance(r, NPArr):
        # numpy compares element by element (with broadcasting) and hands back an array: not the truth value python's == gives here
        raise Abort(f"element-wise comparison of constant numpy arrays is not modelled at {fr.fi.module.relpath}:{getattr(node, 'lineno', 0)}")
    try:
        return l == r
    except Exception:
        return False


class NPDType:
    """dtype of a folded constant integer table: numpy's default integer type on the platforms the library runs on"""
    str = "<i8"
    name = "int64"
    itemsize = 8
    kind = "i"

    def __eq__(self, o):
        return isinstance(o, NPDType)

    def __hash__(self):
        return hash("NPDType")


# ------------------------------------------------------------------------------------------------ attributes


def getattr_(fr, base, attr, node):
    I = fr.I
    repo = I.repo
    if isinstance(base, AFin):
        if all(isinstance(t, EnumMember) for t in base.table) and attr in ("value", "name"):
            return fin_lift(lambda m_: getattr(m_, attr), base)
        b2 = I.simp_fin(base)
        if not isinstance(b2, AFin):
            return getattr_(fr, b2, attr, node)
        if all(isinstance(t, (list, tuple, dict)) for t in base.table):
            # a container selected by a few input bits: its methods are analysed per assignment of those bits
            raise NeedCases(sorted(b2.atoms))
        try:
            base = fr.to_int(base)
        except Abort:
            return I.opaque(f"attr {attr} of a finite function")
    if isinstance(base, AOpq):
        if attr in ("__name__", "__class__", "__qualname__"):
            return I.opaque("class name", notnone=True)
        if base.notnone and attr in ("encode", "decode", "strip", "lstrip", "rstrip", "upper", "lower", "hex", "format", "replace", "rjust", "ljust", "zfill", "split", "join"):
            return AFn(base, attr)
        return I.opaque(f"attr {attr} of opaque")
    if isinstance(base, AExt):
        return AFn(base, attr)
    if isinstance(base, tuple) and len(base) == 3 and base[0] == "super":
        _, obj, cls = base
        ocls = obj.cls if isinstance(obj, (AObj, AEnum)) else cls
        mro = repo.mro(ocls)
        after = mro[mro.index(cls) + 1:] if cls in mro else []
        for c in after:
            if attr in c.methods:
                return AFn(obj, c.methods[attr])
        if attr == "__init__":
            return AFn(None, "noop")
        raise PathRaise("AttributeError", f"super().{attr}")
    if isinstance(base, AObj):
        if attr in base.attrs:
            return base.attrs[attr]
        m = repo.find_method(base.cls, attr)
        if m is not None:
            if m.kind == "property":
                return I.call(m, [base], {}, base.cls)
            return AFn(base, m)
        if repo.class_attr_owner(base.cls, attr) is not None:
            try:
                return repo.class_const(base.cls, attr)
            except Unfoldable as e:
                return I.opaque(f"class attr {attr}: {e}")
        if attr == "__class__":
            return ClassRef(base.cls)
        if attr == "__dict__":
            # the instance dictionary (a snapshot: stores through it are not modelled), private names in their mangled spelling
            def owner_of(k):
                for c in repo.mro(base.cls):
                    if any(isinstance(x, ast.Attribute) and x.attr == k and isinstance(x.ctx, ast.Store) for m_ in c.methods.values() for x in ast.walk(m_.node)):
                        return c.name
                return base.cls.name
            return {(f"_{owner_of(k).lstrip('_')}{k}" if k.startswith("__") and not k.endswith("__") else k): v for k, v in base.attrs.items() if k != "__flags__"}
        ga_ = repo.find_method(base.cls, "__getattr__")
        if ga_ is not None and not (attr.startswith("__") and attr.endswith("__")) and getattr(fr.fi, "qualname", "") != ga_.qualname:
            return I.call(ga_, [base, attr], {}, base.cls)
        if "symbolic_self" in base.attrs.get("__flags__", ()):
            v = symbolic_field(fr, base, attr)
            base.attrs[attr] = v
            return v
        raise PathRaise("AttributeError", f"{base.cls.name}.{attr} at {fr.fi.module.relpath}:{node.lineno}")
    if isinstance(base, AEnum):
        if attr == "value":
            return base.val
        if attr == "name":
            return I.opaque("enum name")
        m = repo.find_method(base.cls, attr)
        if m is not None:
            if m.kind == "property":
                return I.call(m, [base], {}, base.cls)
            return AFn(base, m)
        raise PathRaise("AttributeError", f"{base.cls.name}.{attr}")
    if isinstance(base, EnumMember):
        if attr == "value":
            return base.value
        if attr == "name":
            return base.name
        ci = find_enum_class(fr, base)
        if ci is not None:
            m = repo.find_method(ci, attr)
            if m is not None:
                if m.kind == "property":
                    return I.call(m, [base], {}, ci)
                return AFn(base, m)
        raise PathRaise("AttributeError", f"{base}.{attr}")
    if isinstance(base, ClassRef):
        ci = base.info
        if repo.class_attr_owner(ci, attr) is not None:
            pre = I.st.__dict__.get("class_state", {}).get((repo.class_attr_owner(ci, attr).qualname, attr))
            if pre is not None:
                return pre
            try:
                v = repo.class_const(ci, attr)
            except Unfoldable as e:
                return I.opaque(f"{ci.name}.{attr}: {e}")
            if isinstance(v, (dict, list, set, BitArr)):
                # mutable class-level object: one instance per analysed path (process state within the path)
                key = (repo.class_attr_owner(ci, attr).qualname, attr)
                cs = I.st.__dict__.setdefault("class_state", {})
                if key not in cs:
                    # a class-level bitarray is a mutable bit buffer of the process (one per analysed path), not a constant list
                    cs[key] = ABits([cbit(x) for x in v], "ba", getattr(v, "endian", "big")) if isinstance(v, BitArr) else materialise(I, fresh(v))
                return cs[key]
            if isinstance(v, Rec) and v.cls is not None and repo.find_method(v.cls, "__init__") is not None and not any(d.startswith("dataclass") for d in v.cls.decorators) \
                    and getattr(I, "materialise_records", False):
                key = (repo.class_attr_owner(ci, attr).qualname, attr)
                cs = I.st.__dict__.setdefault("class_state", {})
                if key not in cs:
                    cs[key] = materialise(I, v)
                return cs[key]
            return v
        m = repo.find_method(ci, attr)
        if m is not None:
            return FuncRef(m, ci)
        if attr in ci.nested:
            return ClassRef(ci.nested[attr])
        if attr == "__name__":
            return ci.name
        if attr == "__members__" and repo.is_enum(ci):
            return dict(repo.enum_members(ci))
        if repo.is_enum(ci) and attr in ("_value2member_map_", "_member_map_", "_member_names_"):
            mem_ = repo.enum_members(ci)
            if attr == "_member_names_":
                return list(mem_)
            if attr == "_member_map_":
                return dict(mem_)
            try:
                vm = EnumValueMap({m_.value: m_ for m_ in mem_.values()})
            except TypeError:
                raise Abort(f"{ci.name}._value2member_map_ with unhashable values")
            vm.ci = ci
            return vm
        if repo.is_enum(ci) and attr.startswith("_") and attr.endswith("_") and not attr.startswith("__"):
            raise Abort(f"enum internals {ci.name}.{attr} are not modelled")
        if attr.startswith("__") and attr.endswith("__"):
            # attributes every class object has (or may inherit from a metaclass): not modelled — never reported as a crash of the code
            raise Abort(f"class attribute {ci.name}.{attr} is not modelled")
        # a class whose attributes can be created when it is DEFINED (an __init_subclass__ hook, a metaclass, a class decorator)
        # or looked up dynamically may well have the attribute: not modelled — never reported as a crash of the code
        dyn = [c.name for c in repo.mro(ci) if any(m_ in c.methods for m_ in ("__init_subclass__", "__getattr__", "__class_getitem__", "__set_name__"))
               or any(k.arg == "metaclass" for k in getattr(c.node, "keywords", []))
               or any(not d.startswith(("enum.", "unique", "dataclass", "dataclasses.", "functools.total_ordering", "total_ordering")) for d in c.decorators)]
        if dyn:
            raise Abort(f"class attribute {ci.name}.{attr}: attributes of {dyn[0]} may be created at class-definition time (not modelled)")
        raise PathRaise("AttributeError", f"{ci.name}.{attr}")
    if isinstance(base, ModRef):
        try:
            return fr.folder.ev(node, {})
        except Unfoldable:
            return ModRef(f"{base.name}.{attr}")
    if isinstance(base, (ABits, AInt, ATable, AView)):
        if isinstance(base, ATable) and attr == "shape":
            return (base.rows, base.cols)
        if isinstance(base, (ABits, AView)) and attr == "shape":
            return (len(base),)
        if isinstance(base, (ABits, AView)) and attr == "size":
            return len(base)
        if isinstance(base, ATable) and attr == "T":
            from .bitabs import ATableT
            return base.base if isinstance(base, ATableT) else ATableT(base)
        return AFn(base, attr)
    if isinstance(base, Rec):
        if attr in base.fields:
            return base.fields[attr]
        if base.cls is not None:
            m = repo.find_method(base.cls, attr)
            if m is not None and m.kind == "property":
                return fr.folder.call_func(m, [base], {})
            if m is not None:
                return AFn(base, m)
        raise PathRaise("AttributeError", f"record {attr}")
    if isinstance(base, NPArr):
        if attr == "T":
            return base.T
        if attr == "shape":
            return base.shape
        if attr == "ndim":
            return base.ndim
        if attr == "size":
            return len(base.data) * (len(base.data[0]) if base.ndim == 2 else 1)
        if attr == "dtype":
            return NPDType()
        return AFn(base, attr)
    if isinstance(base, StructObj):
        if attr == "format":
            return base.format
        if attr == "size":
            r_ = struct_model(fr, "calcsize", [base.format], {}, node)
            return r_ if r_ is not NotImplemented else I.opaque("Struct.size")
        return AFn(base, attr)
    if isinstance(base, NPDType):
        if attr in ("str", "name", "itemsize", "kind"):
            return getattr(base, attr)
        raise Abort(f"numpy dtype attribute {attr}")
    if isinstance(base, (dict, list, tuple, bytes, bytearray, str, int, BitArr, set)):
        return AFn(base, attr)
    if base is None:
        if attr == "__class__":
            return I.opaque("type(None)", notnone=True)
        raise PathRaise("AttributeError", f"None.{attr} at {fr.fi.module.relpath}:{node.lineno}")
    if base in (int, bytes, bytearray, str, dict, list):
        return AFn(base, attr)
    return I.opaque(f"attr {attr} of {type(base).__name__}")


def materialise(I, v, depth=0):
    """folded keyword-records of repo classes with a real __init__ (token tables ...) become objects built by that
    constructor, so that code which copies and mutates them is analysed faithfully (opt-in: I.materialise_records)"""
    if not getattr(I, "materialise_records", False) or depth > 6:
        return v
    if isinstance(v, Rec) and v.cls is not None and I.repo.find_method(v.cls, "__init__") is not None \
            and not any(d.startswith("dataclass") for d in v.cls.decorators):
        return I.construct(v.cls, [], {k: materialise(I, x, depth + 1) for k, x in v.fields.items()})
    if isinstance(v, dict):
        return {k: materialise(I, x, depth + 1) for k, x in v.items()}
    if isinstance(v, list):
        return [materialise(I, x, depth + 1) for x in v]
    return v


def find_enum_class(fr, m: EnumMember):
    for ci in fr.I.repo.all_classes():
        if ci.name == m.cls and fr.I.repo.is_enum(ci):
            return ci
    return None


def fin_members_to_enum(fr, v):
    """a finite function whose values are all members (non-negative integer values) of ONE enumeration is the lazy enumeration
    view of the integer "value of the selected member" — the same representation Enum(<symbolic int>) gets"""
    if not isinstance(v, AFin) or not v.table or not all(isinstance(t, EnumMember) for t in v.table):
        return v
    if len({t.cls for t in v.table}) != 1 or not all(isinstance(t.value, int) and not isinstance(t.value, bool) and t.value >= 0 for t in v.table):
        return v
    ci = find_enum_class(fr, v.table[0])
    if ci is None:
        return v
    w = max(max(t.value for t in v.table).bit_length(), 1)
    bits = [fr.I.simp(AFin(list(v.atoms), [(t.value >> j) & 1 for t in v.table])) for j in range(w)]
    return AEnum(ci, AInt(bits))


def symbolic_field(fr, obj: AObj, attr: str):
    """a field of a symbolic `self`, typed by the annotation of its assignment in __init__"""
    return fr.I.opaque(f"symbolic field {attr}")


# ------------------------------------------------------------------------------------------------ subscripts


def bitvector_lookup(fr, base, key, node):
    """T[key] for a constant table of bit strings that is not linear: per-bit finite functions"""
    from .bitabs import fin_to_bit
    rows = []
    for e in base:
        bits = fr.I.simp_bits(e.items) if isinstance(e, ABits) else [cbit(x) for x in e]
        if not all(isinstance(b, F) and b.is_const for b in bits):
            raise Abort("table of non-constant bit strings indexed by data")
        rows.append([b.c for b in bits])
    w = len(rows[0])
    out = []
    for j in range(w):
        v = try_lift(lambda k, j=j: rows[k][j], key)
        if v is TOO_WIDE:
            raise Abort(f"non-linear table lookup with a wide data-dependent key at {fr.fi.module.relpath}:{node.lineno}")
        if isinstance(v, AFin):
            if any(isinstance(t, _Raises) for t in v.table):
                raise PartialRaise("IndexError", f"{fr.fi.module.relpath}:{node.lineno}")
            out.append(fin_to_bit(v))
        elif isinstance(v, _Raises):
            raise PathRaise(v.exc, f"lookup at {fr.fi.module.relpath}:{node.lineno}")
        else:
            out.append(cbit(v))
    return ABits(out, base[0].kind if isinstance(base[0], ABits) else "ba")


def linear_lookup_int(fr, base, key):
    """T[key] for a constant table of 2^k non-negative INTEGERS that is GF(2)-linear in its index (T[i ^ j] == T[i] ^ T[j],
    T[0] == 0 — verified exhaustively through the basis decomposition), e.g. multiplication by a constant in GF(2^8):
    exact for a key whose bits are arbitrary affine forms, however many atoms they involve"""
    if not isinstance(base, (list, tuple)) or not isinstance(key, AInt) or key.ext is not None:
        return None
    n = len(base)
    k = n.bit_length() - 1
    if n == 0 or n != 1 << k or k == 0 or not all(isinstance(e, int) and not isinstance(e, bool) and e >= 0 for e in base) or base[0] != 0:
        return None
    cache = fr.I.repo._cache
    ck = ("linear-int-table", id(base), n)
    ok = cache.get(ck)
    if ok is None:
        ok = True
        for idx in range(n):
            acc = 0
            for i in range(k):
                if idx >> i & 1:
                    acc ^= base[1 << i]
            if acc != base[idx]:
                ok = False
                break
        # keyed by identity of the table object: keep it alive so that the id is not re-used
        cache[ck] = ok
        cache[("linear-int-table-ref", id(base))] = base
    if not ok:
        return None
    kb = [fr.I.simp(key.bit(i)) for i in range(max(k, len(key.bits)))]
    if any(not (isinstance(b, F) and b.is_const and b.c == 0) for b in kb[k:]):
        return None
    w = max(max(e.bit_length() for e in base), 1)
    out = []
    for j in range(w):
        acc = ZERO
        for i in range(k):
            if base[1 << i] >> j & 1:
                acc = acc ^ kb[i]
        out.append(acc)
    return AInt(out)


def linear_lookup(fr, base, key):
    """T[key] for a constant table with 2^k entries of equal-width bit strings that is GF(2)-linear
    (T[i^j] = T[i]^T[j], verified exhaustively on the basis decomposition): exact for affine key bits"""
    if not isinstance(base, list) or not isinstance(key, AInt) or key.ext is not None:
        return None
    n = len(base)
    k = n.bit_length() - 1
    if n != 1 << k or k == 0:
        return None
    rows = []
    for e in base:
        if isinstance(e, ABits):
            bits = fr.I.simp_bits(e.items)
            if not all(isinstance(b, F) and b.is_const for b in bits):
                return None
            rows.append(tuple(b.c for b in bits))
        elif isinstance(e, BitArr):
            rows.append(tuple(e))
        else:
            return None
    w = len(rows[0])
    if any(len(r) != w for r in rows) or any(rows[0]):
        return None
    basis = [rows[1 << i] for i in range(k)]
    for idx in range(n):
        acc = [0] * w
        for i in range(k):
            if idx >> i & 1:
                acc = [x ^ y for x, y in zip(acc, basis[i])]
        if tuple(acc) != rows[idx]:
            return None
    kb = [fr.I.simp(key.bit(i)) for i in range(max(k, len(key.bits)))]
    if any(not (isinstance(b, F) and b.is_const and b.c == 0) for b in kb[k:]):
        return None
    out = []
    for j in range(w):
        acc = ZERO
        for i in range(k):
            if basis[i][j]:
                acc = acc ^ kb[i]
        out.append(acc)
    kind = base[0].kind if isinstance(base[0], ABits) else "ba"
    return ABits(out, kind)


def subscript(fr, base, sl, node):
    I = fr.I
    if isinstance(base, AOpq):
        return I.opaque("subscript of opaque")
    if isinstance(base, (list, tuple, dict)) and not isinstance(sl, ast.Slice) and not any(is_abs(x) and not isinstance(x, ABits) for x in (base.values() if isinstance(base, dict) else base)):
        key = fr.ev(sl)
        if isinstance(base, EnumValueMap) and isinstance(key, AInt) and const_of(fr, key) is None and key.ext is None:
            return I.enum_lookup(base.ci, key, via_map="index")
        if isinstance(key, AInt) and const_of(fr, key) is None or isinstance(key, AFin) or (isinstance(key, tuple) and is_abs(key)):
            if isinstance(key, AInt):
                key = AInt(I.simp_bits(key.bits), key.ext, key.interp, key.isbool)
            if isinstance(base, list) and base and isinstance(base[0], (ABits, BitArr)):
                lin = linear_lookup(fr, base, key)
                if lin is not None:
                    return lin
                return bitvector_lookup(fr, base, key, node)
            lin = linear_lookup_int(fr, base, key)
            if lin is not None:
                return lin
            v = try_lift(lambda k: base[k], key)
            if v is TOO_WIDE:
                raise Abort(f"table lookup with a data-dependent key that is too wide at {fr.fi.module.relpath}:{node.lineno}")
            if isinstance(v, _Raises):
                raise PathRaise(v.exc, f"lookup at {fr.fi.module.relpath}:{node.lineno}")
            if isinstance(v, AFin) and any(isinstance(t, _Raises) for t in v.table):
                exc = [t for t in v.table if isinstance(t, _Raises)][0].exc
                raise PartialRaise(exc, f"{fr.fi.module.relpath}:{node.lineno}")
            return fin_members_to_enum(fr, v)
    if isinstance(base, (list, tuple)) and isinstance(sl, ast.Slice) and sl.step is None and not any(is_abs(x) for x in base):
        # a slice of a constant table whose bounds are finite functions of a few input bits (row of a state table selected by
        # a data-dependent state): the finite function "bounds -> that slice"
        lo = fr.ev(sl.lower) if sl.lower is not None else None
        hi = fr.ev(sl.upper) if sl.upper is not None else None
        if any(isinstance(x, AFin) or (isinstance(x, AInt) and const_of(fr, x) is None) for x in (lo, hi)):
            v = try_lift(lambda a, b: list(base[a:b]), lo, hi)
            if v is TOO_WIDE or v is None:
                raise Abort(f"slice of a table with data-dependent bounds that are too wide at {fr.fi.module.relpath}:{node.lineno}")
            return v
    i = fr.idx(sl)
    if isinstance(i, AOpq):
        return I.opaque("opaque index")
    if isinstance(base, ABits):
        if base.kind == "bytes":
            n = len(base.items) // 8
            if isinstance(i, slice):
                idxs = range(*i.indices(n))
                out = []
                for k in idxs:
                    out.extend(base.items[k * 8:k * 8 + 8])
                return ABits(out, "bytes")
            if not isinstance(i, int):
                raise Abort("bytes index type")
            if i < -n or i >= n:
                raise PathRaise("IndexError", f"index out of range at {fr.fi.module.relpath}:{node.lineno}")
            i %= n
            return AInt(list(reversed(base.items[i * 8:i * 8 + 8])))
        if isinstance(i, slice):
            return ABits(base.items[i], base.kind, base.endian)
        if not isinstance(i, int):
            raise Abort("index type")
        if i < -len(base.items) or i >= len(base.items):
            raise PathRaise("IndexError", f"bit index {i} out of range({len(base.items)}) at {fr.fi.module.relpath}:{node.lineno}")
        return AInt([base.items[i]])
    if isinstance(base, ATable):
        v = fr.table_view(base, i)
        if isinstance(v, tuple):
            return AInt([base.cells[v[0]][v[1]]])
        return v
    if isinstance(base, AView):
        if isinstance(i, slice):
            return AView(base.table, base.coords[i])
        if i < -len(base.coords) or i >= len(base.coords):
            raise PathRaise("IndexError", "view index")
        r, c = base.coords[i]
        return AInt([base.table.cells[r][c]])
    if isinstance(base, AInt):
        raise PathRaise("TypeError", f"'int' object is not subscriptable at {fr.fi.module.relpath}:{node.lineno}")
    if isinstance(base, (ClassRef, ModRef)):
        return I.opaque("typing subscript")
    if isinstance(base, NPArr):
        try:
            return base.getitem(i)
        except Exception as e:
            raise PathRaise("IndexError", str(e))
    if isinstance(base, dict):
        if is_abs(i):
            i = concretise(fr, i)
        if is_abs(i):
            try:
                if i in base:
                    return base[i]
            except TypeError:
                pass
            if isinstance(i, AEnum):
                for k in base:
                    if isinstance(k, EnumMember) and I.decide(eq(fr, i, k, node), f"dictkey:{node.lineno}"):
                        return base[k]
                raise PathRaise("KeyError", "enum key")
            if ident_key(i):
                raise PathRaise("KeyError", repr(i))
            ka = key_atoms(fr, i)
            if ka is not None and len(ka) <= MAX_FIN_ATOMS:
                raise NeedCases(ka)          # a key that is a function of a few input bits: decided per assignment of those bits
            raise Abort("abstract dict key")
        try:
            return base[i]
        except KeyError:
            raise PathRaise("KeyError", repr(i))
        except TypeError:
            raise Abort("unhashable key")
    try:
        r = base[i]
    except IndexError:
        raise PathRaise("IndexError", f"at {fr.fi.module.relpath}:{node.lineno}")
    except KeyError:
        raise PathRaise("KeyError", repr(i))
    except TypeError as e:
        raise PathRaise("TypeError", f"{e} at {fr.fi.module.relpath}:{node.lineno}")
    if isinstance(base, BitArr) and isinstance(i, slice):
        return BitArr(r)
    return r


# ------------------------------------------------------------------------------------------------ calls


def popcount_operand(n: ast.Call):
    """the X of bin(X).count("1") / X.bit_count() / int.bit_count(X), else None"""
    f = n.func
    if isinstance(f, ast.Attribute) and f.attr == "count" and len(n.args) == 1 and isinstance(n.args[0], ast.Constant) and n.args[0].value == "1" \
            and isinstance(f.value, ast.Call) and isinstance(f.value.func, ast.Name) and f.value.func.id == "bin" and len(f.value.args) == 1:
        return f.value.args[0]
    if isinstance(f, ast.Attribute) and f.attr == "bit_count" and not n.args:
        return f.value
    if isinstance(f, ast.Attribute) and f.attr == "bit_count" and isinstance(f.value, ast.Name) and f.value.id == "int" and len(n.args) == 1:
        return n.args[0]
    return None


def call(fr, n: ast.Call):
    I = fr.I
    px = popcount_operand(n)
    if px is not None:
        x = fr.ev(px)
        if isinstance(x, AInt) and x.ext is None and not x.signed:
            bits = I.simp_bits(x.bits)
            if all(isinstance(b, F) and b.is_const for b in bits):
                return sum(b.c for b in bits)
            return APop(bits)
        if isinstance(x, int) and not isinstance(x, bool):
            return bin(x).count("1")
    f = fr.ev(n.func)
    args = []
    for a in n.args:
        if isinstance(a, ast.Starred):
            args.extend(fr.iterate(fr.ev(a.value), a))
        else:
            args.append(fr.ev(a))
    kw = {}
    for k in n.keywords:
        if k.arg is None:
            kv_ = fr.ev(k.value)
            if not isinstance(kv_, dict):
                raise Abort(f"**{type(kv_).__name__} in a call: the keyword arguments are not a dictionary the analysis knows")
            kw.update(kv_)
        else:
            kw[k.arg] = fr.ev(k.value)
    return apply(fr, f, args, kw, n)


def apply(fr, f, args, kw, n):
    I = fr.I
    if isinstance(f, AOpq):
        why_ = str(f.why)
        if any(isinstance(a_, AObj) for a_ in list(args) + list(kw.values())) and not why_.startswith(("logging", "typing", "impure:", "call of opaque (logging", "attr ")) \
                and not getattr(I, "opaque_calls_keep_objects", False):
            # an UNKNOWN callee is handed an object of the analysed program: it may change it (a writer picked from a table by an index
            # the analysis lost).  Treating the call as effect-free would make every effect-based rule conclude from a dropped effect
            raise Abort(f"call of a callee the analysis lost ({why_[:80]}) with an object it could change")
        return I.opaque(f"call of opaque ({f.why})")
    if isinstance(f, FuncRef):
        a = list(args)
        fi = f.info
        if fi.kind == "classmethod":
            a = [ClassRef(f.bound_cls or fi.cls)] + a
        return I.call(fi, a, kw, f.bound_cls or fi.cls, closure=getattr(f, "closure", None))
    if isinstance(f, ClassRef):
        return I.construct(f.info, args, kw)
    if isinstance(f, AFn):
        return method(fr, f.base, f.name, args, kw, n)
    if isinstance(f, AExt):
        I.st.effects.append((f"{f.name}()", list(args), dict(kw), f"{fr.fi.qualname}:{n.lineno}"))
        return I.opaque(f"result of {f.name}()")
    if isinstance(f, ModRef):
        return external(fr, f.name, args, kw, n)
    if f in BUILTINS:
        return BUILTINS[f](fr, args, kw, n)
    if callable(f) and not any(is_abs(a) for a in args) and not any(is_abs(v) for v in kw.values()):
        try:
            r = f(*args, **kw)
        except Exception as e:
            raise PathRaise(type(e).__name__, str(e))
        if type(r).__name__ in ("dict_items", "dict_values", "dict_keys", "range", "enumerate", "zip", "reversed", "map"):
            return list(r)
        return r
    if f in SAFE.values():
        name = [k for k, v in SAFE.items() if v is f][0]
        if name in BUILTIN_NAMES:
            return BUILTIN_NAMES[name](fr, args, kw, n)
    return I.opaque(f"call {ast.unparse(n.func)[:40]}")


def b_len(fr, args, kw, n):
    v = args[0]
    if isinstance(v, ABits):
        return len(v.items) // 8 if v.kind == "bytes" else len(v.items)
    if isinstance(v, (AView,)):
        return len(v)
    if isinstance(v, ATable):
        return v.rows
    if isinstance(v, AOpq):
        return fr.I.opaque("len of opaque")
    if isinstance(v, AObj):
        m = fr.I.repo.find_method(v.cls, "__len__")
        if m is not None:
            return fr.I.call(m, [v], {}, v.cls)
    if v is None or isinstance(v, (AInt, int)):
        raise PathRaise("TypeError", f"object of type {'NoneType' if v is None else 'int'} has no len() at {fr.fi.module.relpath}:{n.lineno}")
    try:
        return len(v)
    except TypeError:
        raise Abort(f"len of {type(v).__name__}")


def b_isinstance(fr, args, kw, n):
    v, t = args
    ts = list(t) if isinstance(t, (tuple, list)) else [t]
    if isinstance(v, AOpq):
        return fr.I.opaque("isinstance of opaque")
    if isinstance(v, AFin):
        # a value selected by a few input bits: its type is the type of the selected values (decided per case when they differ)
        v2 = fr.I.simp_fin(v)
        if isinstance(v2, AFin):
            res = {any(type_matches(fr, tv, x) for x in ts) for tv in v2.table if not isinstance(tv, _Raises)}
            if len(res) == 1:
                return res.pop()
            raise NeedCases(sorted(v2.atoms))
        v = v2
    for x in ts:
        if type_matches(fr, v, x):
            return True
    return False


def type_matches(fr, v, t):
    repo = fr.I.repo
    tn = None
    if isinstance(t, ModRef):
        tn = t.name.split(".")[-1]
    elif isinstance(t, ClassRef):
        ci = t.info
        if isinstance(v, AObj):
            return ci in repo.mro(v.cls)
        if isinstance(v, AEnum):
            return ci in repo.mro(v.cls)
        if isinstance(v, EnumMember):
            c2 = find_enum_class(fr, v)
            return c2 is not None and ci in repo.mro(c2)
        if isinstance(v, Rec) and v.cls is not None:
            return ci in repo.mro(v.cls)
        return False
    elif isinstance(t, type):
        tn = t.__name__
    if tn is None:
        raise Abort(f"isinstance against {t!r}")
    if tn == "bitarray":
        return isinstance(v, BitArr) or (isinstance(v, ABits) and v.kind == "ba")
    if tn == "bytes":
        return isinstance(v, bytes) or (isinstance(v, ABits) and v.kind == "bytes" and not getattr(v, "mutable", False))
    if tn == "bytearray":
        return isinstance(v, bytearray) or (isinstance(v, ABits) and v.kind == "bytes" and getattr(v, "mutable", False))
    if tn == "int":
        return isinstance(v, (int, AInt)) or isinstance(v, ACond)
    if tn == "bool":
        return isinstance(v, bool) or (isinstance(v, AInt) and v.isbool) or isinstance(v, ACond)
    if tn == "str":
        return isinstance(v, str)
    if tn == "float":
        return isinstance(v, float)
    if tn == "list":
        return isinstance(v, list) or (isinstance(v, ABits) and v.kind == "list")
    if tn == "tuple":
        return isinstance(v, tuple)
    if tn == "dict":
        return isinstance(v, dict)
    if tn in ("ndarray", "array"):
        return isinstance(v, (ATable, AView, NPArr)) or (isinstance(v, ABits) and v.kind == "np")
    if tn in ("Enum",):
        return isinstance(v, (AEnum, EnumMember))
    if isinstance(v, AObj) and getattr(v.cls, "stands_for_external", None) == tn:
        return True     # a rule's stand-in object for an external class (datetime ...)
    return False


def b_int(fr, args, kw, n):
    v = args[0] if args else 0
    if isinstance(v, AScaled):
        if v.factor == 1.0:
            return v.aint
        return fr.I.opaque(f"int() of a value scaled by {v.factor}")
    if isinstance(v, AFin):
        return fin_lift(int, v)
    if isinstance(v, (AInt,)):
        return AInt(v.bits, v.ext, v.interp)
    if isinstance(v, ABits) and v.kind == "bitstr":
        base = args[1] if len(args) > 1 else kw.get("base", 10)
        if base != 2 or any(x is BINSTR_PREFIX for x in v.items):
            raise Abort("int() of a symbolic digit string in another base than 2")
        if not v.items:
            raise PathRaise("ValueError", "invalid literal for int() with base 2: ''")
        return AInt(list(reversed(v.items)))
    if isinstance(v, ACond):
        return fr.to_int(v)
    if isinstance(v, AOpq):
        return v
    if is_abs(v):
        raise Abort("int() of abstract")
    try:
        return int(v, *args[1:]) if len(args) > 1 else int(v)
    except Exception as e:
        raise PathRaise(type(e).__name__, str(e))


def b_bool(fr, args, kw, n):
    v = args[0] if args else False
    if isinstance(v, AInt):
        c = fr.I_const(v)
        if c is not None:
            return bool(c)
    if isinstance(v, AInt) and (v.isbool or (v.ext is None and len(v.bits) == 1)):
        return AInt([v.bit(0)], isbool=True)
    if isinstance(v, AOpq):
        return v
    if isinstance(v, ACond):
        return v
    return fr.I.decide(v, "bool()")


def b_bytes(fr, args, kw, n):
    if not args:
        return b""
    v = args[0]
    if isinstance(v, ABits) and v.kind == "bytes":
        r = ABits(v.items, "bytes")
        return r
    if isinstance(v, (list, tuple)):
        if any(is_abs(x) for x in v):
            out = []
            for x in v:
                out.extend(fr.to_int(x).msb_first(8))
            return ABits(out, "bytes")
        try:
            return bytes(v)
        except ValueError as e:
            raise PathRaise("ValueError", str(e))
    if isinstance(v, AOpq):
        return v
    if is_abs(v):
        raise Abort(f"bytes() of {type(v).__name__}")
    try:
        return bytes(v, *args[1:])
    except Exception as e:
        raise PathRaise(type(e).__name__, str(e))


def b_bytearray(fr, args, kw, n):
    r = b_bytes(fr, args, kw, n)
    if isinstance(r, bytes):
        r = ABits(fr.to_bitlist(r), "bytes")
    if isinstance(r, ABits):
        r = ABits(r.items, "bytes")
        r.mutable = True
    return r


def b_list(fr, args, kw, n):
    return list(fr.iterate(args[0], n)) if args else []


def b_tuple(fr, args, kw, n):
    return tuple(fr.iterate(args[0], n)) if args else ()


def b_range(fr, args, kw, n):
    return list(range(*[fr.cint(a) for a in args]))


def b_enumerate(fr, args, kw, n):
    start = fr.cint(kw.get("start", args[1] if len(args) > 1 else 0))
    return [(i + start, x) for i, x in enumerate(fr.iterate(args[0], n))]


def b_zip(fr, args, kw, n):
    return list(zip(*[fr.iterate(a, n) for a in args]))


def b_reversed(fr, args, kw, n):
    return list(reversed(fr.iterate(args[0], n)))


def b_print(fr, args, kw, n):
    return None


def b_hasattr(fr, args, kw, n):
    o, a = args
    if isinstance(o, AObj):
        found = a in o.attrs or fr.I.repo.find_method(o.cls, a) is not None or fr.I.repo.class_attr_owner(o.cls, a) is not None
        if not found:
            ga = fr.I.repo.find_method(o.cls, "__getattr__")
            if ga is not None and isinstance(a, str):
                # the class answers unknown attribute names itself: hasattr is "does __getattr__ return (rather than raise AttributeError)"
                try:
                    fr.I.call(ga, [o, a], {}, o.cls)
                    return True
                except PathRaise as e:
                    if e.exc == "AttributeError":
                        return False
                    raise
        return found
    if isinstance(o, AOpq):
        return fr.I.opaque("hasattr of opaque")
    return hasattr(o, a) if not is_abs(o) else False


def b_divmod(fr, args, kw, n):
    if isinstance(args[0], ASumVec) and const_of(fr, args[1]) == 2:
        return (fr.I.opaque("quotient of integer sums"), args[0].mod2())
    return (binop(fr, ast.FloorDiv(), args[0], args[1], n), binop(fr, ast.Mod(), args[0], args[1], n))


def b_sum(fr, args, kw, n):
    items = fr.iterate(args[0], n)
    # summands that are constant on this path are plain integers
    items = [c if isinstance(x, AInt) and not x.isbool and (c := const_of(fr, x)) is not None else x for x in items]
    if any(is_abs(x) for x in items):
        # integers: added one by one with the same model as `+` (exact where no carry can occur — disjoint bit supports —
        # otherwise the arithmetic abstraction of `+`); other abstract summands stay one uninterpreted value
        if all(isinstance(x, (AInt, AFin)) or (isinstance(x, int) and not isinstance(x, bool) and x >= 0) for x in items):
            if getattr(fr.I, "uninterpreted_arith", False) and len(items) > 2 and all(isinstance(x, AInt) and x.ext is None or isinstance(x, int) for x in items):
                # many summands whose set bits overlap: ONE uninterpreted sum of all of them (a chain of pairwise uninterpreted
                # sums names the same value by a term whose size grows quadratically)
                def support(x):
                    if isinstance(x, int):
                        return {j for j in range(x.bit_length()) if x >> j & 1}
                    return {j for j, b in enumerate(fr.I.simp_bits(x.bits)) if not (isinstance(b, F) and b.is_const and b.c == 0)}
                seen_pos, overlap = set(), False
                for x in items:
                    sp = support(x)
                    if sp & seen_pos:
                        overlap = True
                        break
                    seen_pos |= sp
                if overlap:
                    w = max([len(x.bits) if isinstance(x, AInt) else x.bit_length() for x in items] + [1]) + max(1, len(items)).bit_length()
                    start = list(args[1:2])
                    return fn_int(fr, "arith:sum", start + items, min(w, 64))
            acc = args[1] if len(args) > 1 else 0
            for x in items:
                acc = binop(fr, ast.Add(), acc, x, n)
            return acc
        return fn_int(fr, "arith:sum", items, 64)
    return sum(items, *args[1:])


def b_opaque(name):
    def f(fr, args, kw, n):
        if any(is_abs(a) for a in args):
            return fr.I.opaque(name)
        try:
            return SAFE[name](*args, **kw) if name in SAFE else fr.I.opaque(name)
        except Exception as e:
            raise PathRaise(type(e).__name__, str(e))
    return f


def b_minmax(which):
    """min / max of an abstract integer of known width and a constant: exact where the constant lies outside the integer's range
    or cuts off exactly one extreme value (a saturating clamp), which is decided as an equality (the true branch learns it)"""
    generic = b_opaque(which)

    def f(fr, args, kw, n):
        if len(args) == 2 and not kw:
            a, b = args
            x, c = (a, b) if isinstance(a, AInt) else (b, a)
            if isinstance(x, AInt) and x.ext is None and x.bits and isinstance(c, int) and not isinstance(c, bool):
                w = len(x.bits)
                lo, hi = (-(1 << (w - 1)), (1 << (w - 1)) - 1) if getattr(x, "signed", False) else (0, (1 << w) - 1)
                pat = lambda v: v & ((1 << w) - 1)       # the two's-complement digit pattern of a value in range
                if which == "min":
                    if c >= hi:
                        return x
                    if c <= lo:
                        return c
                    if c == hi - 1:
                        return c if fr.I.decide_eq(x.msb_first(w), pat(hi), "min") else x
                else:
                    if c <= lo:
                        return x
                    if c >= hi:
                        return c
                    if c == lo + 1:
                        return c if fr.I.decide_eq(x.msb_first(w), pat(lo), "max") else x
                raise Abort(f"{which}() of an abstract integer and a constant inside its range")
        return generic(fr, args, kw, n)
    return f


def b_type(fr, args, kw, n):
    v = args[0]
    if isinstance(v, AObj):
        return ClassRef(v.cls)
    if isinstance(v, AEnum):
        return ClassRef(v.cls)
    return fr.I.opaque("type()")


def operator_index_concrete(v):
    import operator as _op
    return _op.index(v)

def key_atoms(fr, key):
    """atoms an abstract dictionary key depends on (an int / finite function / tuple of those), or None when it is not of that kind"""
    I = fr.I
    acc = set()

    def walk(v):
        if isinstance(v, (tuple, list)):
            return all(walk(x) for x in v)
        if isinstance(v, AInt) and v.ext is None:
            for b in I.simp_bits(v.bits):
                if isinstance(b, F):
                    acc.update(b.atoms())
                elif isinstance(b, AFin):
                    acc.update(b.atoms)
                else:
                    return False
            return True
        if isinstance(v, AFin):
            v2 = I.simp_fin(v)
            if isinstance(v2, AFin):
                acc.update(v2.atoms)
            return True
        if isinstance(v, AEnum):
            return walk(v.val)
        return not is_abs(v)
    return sorted(acc) if walk(key) and acc else None


def b_str(fr, args, kw, n):
    if args and isinstance(args[0], AObj) and getattr(fr.I, "interpret_repr", False):
        # repr() / str() of an object of the analysed program: its own rendering method runs (opt-in: a handler that logs the
        # rendering of a received PDU executes that code)
        m_ = fr.I.repo.find_method(args[0].cls, "__repr__") or fr.I.repo.find_method(args[0].cls, "__str__")
        if m_ is not None:
            r_ = fr.I.call(m_, [args[0]], {}, args[0].cls)
            return r_ if isinstance(r_, (str, AOpq)) else fr.I.opaque("str()")
    if args and is_abs(args[0]):
        return fr.I.opaque("str()")
    return str(*args)


def b_dict(fr, args, kw, n):
    """dict(), dict(mapping), dict(pairs), dict(mapping_or_pairs, **kw), dict(**kw) — a NEW dictionary (insertion order kept)"""
    out = {}
    if args:
        src = args[0]
        if isinstance(src, dict):
            out.update(src)
        elif isinstance(src, AOpq):
            return src
        else:
            for item in fr.iterate(src, n):
                k, v = item
                try:
                    hash(k)
                except TypeError:
                    raise Abort("unhashable abstract dict key")
                out[k] = v
    out.update(kw)
    return out


def b_any(fr, args, kw, n):
    for x in fr.iterate(args[0], n):
        if fr.I.decide(x, f"any:{n.lineno}") if is_abs(x) else x:
            return True
    return False


def b_all(fr, args, kw, n):
    for x in fr.iterate(args[0], n):
        if not (fr.I.decide(x, f"all:{n.lineno}") if is_abs(x) else x):
            return False
    return True


def b_next(fr, args, kw, n):
    items = fr.iterate(args[0], n)
    if items:
        return items[0]
    if len(args) > 1:
        return args[1]
    raise PathRaise("StopIteration", "")


BUILTIN_NAMES = {
    "len": b_len, "isinstance": b_isinstance, "int": b_int, "bool": b_bool, "bytes": b_bytes,
    "bytearray": b_bytearray, "list": b_list, "tuple": b_tuple, "range": b_range, "enumerate": b_enumerate,
    "zip": b_zip, "reversed": b_reversed, "print": b_print, "hasattr": b_hasattr, "divmod": b_divmod,
    "sum": b_sum, "type": b_type, "str": b_str, "repr": b_str, "min": b_minmax("min"), "max": b_minmax("max"),
    "abs": lambda fr, args, kw, n: (fin_lift(abs, args[0]) if isinstance(args[0], AFin) else (args[0].mag if isinstance(args[0], ANeg) else (args[0] if isinstance(args[0], AInt) else b_opaque("abs")(fr, args, kw, n)))), "sorted": b_opaque("sorted"), "float": b_opaque("float"), "round": b_opaque("round"),
    "set": b_list, "frozenset": b_list, "any": b_any, "all": b_all, "dict": None,
}
BUILTINS = {}
for _k, _v in list(BUILTIN_NAMES.items()):
    if _v is not None and _k in SAFE:
        BUILTINS[SAFE[_k]] = _v
del BUILTIN_NAMES["dict"]


def install(I):
    """names not in model.SAFE that the interpreter must know, and repo-function summaries"""
    from . import summaries
    summaries.install(I)


# patch Folder name lookup for the extra builtins
_EXTRA = {"isinstance": isinstance, "print": print, "hasattr": hasattr, "type": type, "repr": repr, "round": round,
          "getattr": getattr, "id": id, "chr": chr, "ord": ord, "hex": hex, "bin": bin, "object": object,
          "ValueError": ValueError, "KeyError": KeyError, "Exception": Exception, "NotImplementedError": NotImplementedError,
          "AssertionError": AssertionError, "IndexError": IndexError, "TypeError": TypeError, "super": super, "format": format,
          "next": next, "iter": iter, "StopIteration": StopIteration, "OverflowError": OverflowError, "callable": callable}
for _k, _v in _EXTRA.items():
    SAFE.setdefault(_k, _v)
def b_filter(fr, args, kw, n):
    pred, items = args[0], fr.iterate(args[1], n)
    out = []
    for x in items:
        t = x if pred is None else apply(fr, pred, [x], {}, n)
        if fr.I.decide(t, f"filter:{n.lineno}") if is_abs(t) else t:
            out.append(x)
    return out


def b_map(fr, args, kw, n):
    cols = [fr.iterate(a, n) for a in args[1:]]
    return [apply(fr, args[0], list(xs), {}, n) for xs in zip(*cols)]


SAFE.setdefault("filter", filter)
SAFE.setdefault("map", map)
BUILTINS[filter] = b_filter
BUILTINS[map] = b_map
BUILTINS[isinstance] = b_isinstance
BUILTINS[dict] = b_dict
BUILTINS[next] = b_next
BUILTINS[print] = b_print
BUILTINS[hasattr] = b_hasattr
BUILTINS[type] = b_type
BUILTINS[repr] = b_str
BUILTINS[round] = b_opaque("round")
BUILTINS[hex] = b_opaque("hex")
def b_bin(fr, args, kw, n):
    """bin(x) of a non-negative abstract integer: the text '0b' + binary digits.  The number of digits depends on the value:
    the position of the leading one is decided bit by bit from the top (one path per length), the digits below it stay symbolic.
    Result: ABits of kind 'bitstr' (a str of '0'/'1' characters, one bit form per character) with the '0b' prefix kept as two
    marker items."""
    v = args[0]
    if isinstance(v, bool) or not isinstance(v, (int, AInt)):
        if isinstance(v, AFin):
            return fin_lift(bin, v)
        return fr.I.opaque("bin() of a non-integer")
    if isinstance(v, int):
        return bin(v)
    I = fr.I
    c = const_of(fr, v)
    if c is not None:
        return bin(c)
    if v.ext is not None or v.signed or len(v.bits) > 64:
        return I.opaque("bin() of an unbounded / signed abstract int")
    length = 1
    for j in range(len(v.bits) - 1, 0, -1):
        if I.decide_eq([v.bits[j]], 1, f"bin-width:{n.lineno}:bit{j}"):
            length = j + 1
            break
    return ABits([BINSTR_PREFIX, BINSTR_PREFIX] + v.msb_first(length), "bitstr")


class _Prefix:
    def __repr__(self):
        return "<0b>"


BINSTR_PREFIX = _Prefix()
BUILTINS[bin] = b_bin
BUILTINS[format] = b_opaque("format")


def b_super(fr, args, kw, n):
    self_name = fr.fi.params[0] if fr.fi.params else None
    obj = fr.env.get(self_name)
    cls = fr.fi.cls
    return ("super", obj, cls)


BUILTINS[super] = b_super


def b_getattr(fr, args, kw, n):
    o, a = args[0], args[1]
    if not isinstance(a, str):
        raise Abort("getattr with abstract name")
    node = ast.Attribute(value=ast.Constant(value=None), attr=a, ctx=ast.Load(), lineno=n.lineno, col_offset=0)
    try:
        return getattr_(fr, o, a, node)
    except PathRaise:
        if len(args) > 2:
            return args[2]
        raise


BUILTINS[getattr] = b_getattr


def b_setattr(fr, args, kw, n):
    o, a, v = args
    if not isinstance(a, str):
        raise Abort("setattr with abstract name")
    if isinstance(o, AObj):
        setter = fr.I.repo.find_method(o.cls, a + ".setter")
        if setter is not None:
            fr.I.call(setter, [o, v], {}, o.cls)
        else:
            o.attrs[a] = v
        return None
    if isinstance(o, AOpq):
        return None
    raise Abort(f"setattr on {type(o).__name__}")


SAFE.setdefault("setattr", setattr)
BUILTINS[setattr] = b_setattr

# ------------------------------------------------------------------------------------------------ methods on values


def method(fr, base, name, args, kw, n):
    I = fr.I
    if name == "noop" and base is None:
        return None
    if isinstance(base, StructObj):
        if name in ("pack", "unpack", "unpack_from"):
            r_ = struct_model(fr, name, [base.format] + list(args), kw, n)
            if r_ is not NotImplemented:
                return r_
        return I.opaque(f"Struct.{name}")
    if isinstance(base, AOpq):
        return I.opaque(f"{name}() of opaque string", notnone=True)
    if isinstance(base, AExt):
        I.st.effects.append((f"{base.name}.{name}", list(args), dict(kw), f"{fr.fi.qualname}:{n.lineno}"))
        r = base.results.get(name, AOpq)
        if r is AOpq:
            return I.opaque(f"result of {base.name}.{name}")
        return r(args, kw) if callable(r) else r
    if isinstance(name, FuncInfo) and isinstance(base, Rec):
        return I.call(name, [base] + list(args), kw, base.cls)
    if isinstance(name, FuncInfo):
        fi = name
        if fi.kind == "staticmethod":
            return I.call(fi, list(args), kw, None)
        if fi.kind == "classmethod":
            cls = base.cls if isinstance(base, (AObj, AEnum)) else find_enum_class(fr, base)
            return I.call(fi, [ClassRef(cls)] + list(args), kw, cls)
        cls = base.cls if isinstance(base, (AObj, AEnum)) else find_enum_class(fr, base)
        return I.call(fi, [base] + list(args), kw, cls)
    if isinstance(base, tuple) and base and base[0] == "super":
        pass
    if isinstance(base, ABits):
        return bits_method(fr, base, name, args, kw, n)
    if isinstance(base, AView):
        if name == "tolist":
            return ABits(base.get(), "list")
        if name == "copy":
            return ABits(base.get(), "np")
        if name in ("any", "all", "sum", "count") and not args and not kw:
            # read-only reductions of a row / column view: those of the bits it shows
            if name == "sum":
                return APop(I.simp_bits(base.get())) if not all(isinstance(x, F) and x.is_const for x in I.simp_bits(base.get())) else sum(x.c for x in I.simp_bits(base.get()))
            return bits_method(fr, ABits(base.get(), "np"), name, args, kw, n)
        raise Abort(f"view method {name}")
    if isinstance(base, ATable):
        if name == "fill":
            c = const_of(fr, args[0])
            for r in range(base.rows):
                for cc in range(base.cols):
                    base.cells[r][cc] = cbit(c) if c in (0, 1) else OB("fill value")
            return None
        if name == "tolist":
            return [ABits(row, "list") for row in base.cells]
        raise Abort(f"table method {name}")
    if isinstance(base, AInt):
        if name == "to_bytes":
            length = fr.cint(kw.get("length", args[0] if args else 1))
            order = kw.get("byteorder", args[1] if len(args) > 1 else "big")
            if getattr(base, "signed", False) and not kw.get("signed"):
                sb_ = I.simp(base.bits[-1]) if base.bits else ZERO
                if not (isinstance(sb_, F) and sb_.is_const and sb_.c == 0):
                    # a two's-complement value whose sign bit is free is negative for some inputs: int.to_bytes refuses those
                    raise PartialRaise("OverflowError", f"can't convert negative int to unsigned at {fr.fi.module.relpath}:{n.lineno}")
                base = AInt(list(base.bits[:-1]) or [ZERO])
            elif getattr(base, "signed", False):
                raise Abort("to_bytes(signed=True) of an abstract integer")
            bits = base.msb_first(length * 8)
            if order == "little":
                by = [bits[i * 8:i * 8 + 8] for i in range(length)]
                bits = [b for chunk in reversed(by) for b in chunk]
            r = ABits(bits, "bytes")
            if base.ext is None and len(base.bits) > length * 8:
                hi = I.simp_bits(base.bits[length * 8:])
                if not all(isinstance(b, F) and b.is_const and b.c == 0 for b in hi):
                    r.may_overflow = True
                    I.st.assumed.append(f"to_bytes({length}) of a {len(base.bits)}-bit value does not overflow at {fr.fi.module.relpath}:{n.lineno}")
                    fr.I.overflow_sites.append((fr.fi.qualname, n.lineno, len(base.bits), length * 8)) if hasattr(fr.I, "overflow_sites") else None
            return r
        if name == "bit_length":
            # depends on the value: the position of the leading one is decided bit by bit from the top (one path per length)
            if base.ext is not None or base.signed or len(base.bits) > 64:
                return I.opaque("bit_length of an unbounded / signed abstract int")
            for j in range(len(base.bits) - 1, -1, -1):
                b = I.simp(base.bits[j])
                if isinstance(b, F) and b.is_const:
                    if b.c == 1:
                        return j + 1
                    continue
                if I.decide_eq([b], 1, f"bit_length:{n.lineno}:bit{j}"):
                    return j + 1
            return 0
        raise Abort(f"int method {name}")
    if base is int and name == "to_bytes" and args:
        # unbound spelling int.to_bytes(x, ...)
        x = args[0]
        if isinstance(x, bool):
            x = int(x)
        if isinstance(x, int):
            x = AInt([cbit((x >> j) & 1) for j in range(max(x.bit_length(), 1))]) if x >= 0 else x
        if isinstance(x, AInt):
            return method(fr, x, "to_bytes", list(args[1:]), kw, n)
    if base is int and name == "from_bytes":
        v = args[0]
        order = kw.get("byteorder", args[1] if len(args) > 1 else "big")
        if kw.get("signed"):
            return I.opaque("signed from_bytes")
        if isinstance(v, (bytes, bytearray)):
            return int.from_bytes(v, order)
        if isinstance(v, AOpq):
            return v
        if isinstance(v, AInt):
            raise PathRaise("TypeError", f"cannot convert 'int' object to bytes at {fr.fi.module.relpath}:{n.lineno}")
        if isinstance(v, ABits) and v.kind == "ba":
            v = bits_method(fr, v, "tobytes", [], {}, n)  # buffer protocol: the bitarray's bytes
        b = fr.as_bytes_val(v)
        nbytes = len(b.items) // 8
        chunks = [b.items[i * 8:i * 8 + 8] for i in range(nbytes)]
        if order == "little":
            chunks = list(reversed(chunks))
        msb = [x for c in chunks for x in c]
        return AInt(list(reversed(msb)) or [ZERO])
    if base is bytes and name == "fromhex":
        if args and isinstance(args[0], AFin):
            a0 = I.simp_fin(args[0])
            if isinstance(a0, AFin):
                bad = [t for t in a0.table if not isinstance(t, str)]
                if bad:
                    raise PathRaise("TypeError", "fromhex() argument must be str")
                try:
                    return fin_lift(bytes.fromhex, a0)
                except ValueError as e:
                    raise PartialRaise("ValueError", f"{e} at {fr.fi.module.relpath}:{n.lineno}")
            args = [a0] + list(args[1:])
        try:
            return bytes.fromhex(*args)
        except (ValueError, TypeError) as e:
            raise PathRaise(type(e).__name__, f"{e} at {fr.fi.module.relpath}:{n.lineno}")
    if isinstance(base, (dict, list, tuple, bytes, bytearray, str, int, BitArr, NPArr, set)) or base in (bytes, str, int, dict, list):
        if isinstance(base, bytes) and name in ("hex", "decode") or isinstance(base, str) and name in ("format", "encode", "join", "rjust", "ljust", "upper", "lower", "strip", "split", "startswith", "endswith", "replace", "zfill"):
            if any(is_abs(a) for a in args):
                return I.opaque(f"str/bytes method {name} on abstract", notnone=True)
        if isinstance(base, tuple) and name in ("count", "index") and args and (deep_abs(args[0]) or any(deep_abs(e) for e in base)):
            # python would compare the abstract objects by identity: decided element by element instead
            hits_ = []
            for k_, e_ in enumerate(base):
                t_ = eq(fr, e_, args[0], n)
                if t_ is True or (t_ is not False and I.decide(t_, f"{name}:{n.lineno}")):
                    hits_.append(k_)
                    if name == "index":
                        return k_
            if name == "count":
                return len(hits_)
            raise PathRaise("ValueError", "tuple.index(x): x not in tuple")
        if isinstance(base, list) and name in ("append", "extend", "insert", "pop", "remove", "index", "copy", "clear", "reverse", "sort", "count"):
            if name == "index" and args:
                bounds = []
                for b_ in args[1:]:
                    b_ = I.simp_fin(b_)
                    if isinstance(b_, AFin):
                        raise NeedCases(sorted(b_.atoms))
                    c_ = const_of(fr, b_) if isinstance(b_, (AInt, int)) else None
                    bounds.append(c_ if c_ is not None else fr.cint(b_))
                args = [I.simp_fin(args[0])] + bounds
                base = [I.simp_fin(e) for e in base]
            if name == "index" and args and (isinstance(args[0], AFin) or any(isinstance(e, AFin) for e in base)):
                # finite-function operands: decided exactly case by case over ALL atoms involved (needle and haystack)
                acc = set()
                for x in [args[0]] + list(base):
                    if isinstance(x, AFin):
                        acc.update(x.atoms)
                if len(acc) > MAX_FIN_ATOMS:
                    raise Abort("list.index over too many finite-function atoms")
                raise NeedCases(sorted(acc))
            if name == "index" and args and is_abs(args[0]):
                lo_, hi_, _ = slice(*(list(args[1:3]) + [None] * (2 - len(args[1:3])))).indices(len(base)) if len(args) > 1 else (0, len(base), 1)
                for k, e in enumerate(base):
                    if not lo_ <= k < hi_:
                        continue
                    cand = ABits(fr.to_bitlist(e), "list") if isinstance(e, (list, tuple)) and isinstance(args[0], ABits) else e
                    if I.decide(eq(fr, cand, args[0], n), f"index:{n.lineno}"):
                        return k
                raise PathRaise("ValueError", "x not in list")
            if name in ("count", "remove") and args and (deep_abs(args[0]) or any(deep_abs(e) for e in base)):
                # python would compare the abstract objects by identity: decided element by element instead
                hits = []
                for k, e in enumerate(base):
                    t = eq(fr, e, args[0], n)
                    if t is True or (t is not False and I.decide(t, f"{name}:{n.lineno}")):
                        hits.append(k)
                        if name == "remove":
                            break
                if name == "count":
                    return len(hits)
                if not hits:
                    raise PathRaise("ValueError", "list.remove(x): x not in list")
                del base[hits[0]]
                return None
            if name == "sort" and any(deep_abs(e) for e in base):
                raise Abort(f"sorting a list of abstract values at {fr.fi.module.relpath}:{n.lineno}")
            if name == "extend":
                base.extend(fr.iterate(args[0], n))
                return None
            try:
                return getattr(base, name)(*[fr.cint(a, allow_other=True) if name in ("pop", "insert") and i == 0 else a for i, a in enumerate(args)])
            except (ValueError, IndexError) as e:
                raise PathRaise(type(e).__name__, str(e))
        if isinstance(base, dict) and name in ("items", "keys", "values", "get", "update", "pop", "setdefault", "copy"):
            if name in ("get", "pop", "setdefault") and args and isinstance(args[0], AFin):
                k_ = I.simp_fin(args[0])
                if isinstance(k_, AFin):
                    raise NeedCases(sorted(k_.atoms))      # a key selected by a few input bits: per assignment of those bits
                args = [k_] + list(args[1:])
            if name == "get" and args and (is_abs(args[0]) or isinstance(args[0], tuple)):
                args = [concretise(fr, args[0])] + list(args[1:])
            if name == "get" and args and not isinstance(args[0], AEnum) and (len(base) > 16 or isinstance(args[0], tuple)) \
                    and (is_abs(args[0]) or (isinstance(args[0], tuple) and any(is_abs(x) for x in args[0]))):
                # (an enumeration key, and a scalar key of a small dictionary, are decided entry by entry further down: the PATH forks,
                # which keeps function-valued entries apart)
                ka = key_atoms(fr, args[0])
                if ka is not None and len(ka) <= MAX_FIN_ATOMS:
                    raise NeedCases(ka)          # a (tuple) key that is a function of a few input bits: per assignment of those bits
            if name == "get" and args and is_abs(args[0]):
                try:
                    return subscript_dict_abs(fr, base, args[0], n)
                except PathRaise:
                    return args[1] if len(args) > 1 else None
            try:
                r = getattr(base, name)(*args, **kw)
            except KeyError as e:
                raise PathRaise("KeyError", str(e))
            except TypeError:
                raise Abort("dict op with unhashable abstract key")
            return list(r) if name in ("items", "keys", "values") else r
        if isinstance(base, NPArr):
            if name == "tolist":
                return base.tolist()
            flat = [x for r in base.data for x in r] if base.ndim == 2 else list(base.data)
            if name == "tobytes" and not args and all(isinstance(x, int) and not isinstance(x, bool) for x in flat):
                # constant integer tables are numpy's default integer type (int64, little endian) — see NPDType
                return b"".join(int(x).to_bytes(8, "little", signed=True) for x in flat)
            if name in ("copy", "astype", "view"):
                return NPArr([list(r) for r in base.data] if base.ndim == 2 else list(base.data))
            if name in ("flatten", "ravel"):
                return NPArr(flat)
            if name == "sum" and not args and not kw:
                return sum(flat)
            if name in ("any", "all") and not args and not kw:
                return (any if name == "any" else all)(bool(x) for x in flat)
            if name == "transpose" and not args:
                return base.T
            raise Abort(f"ndarray const method {name}")
        if isinstance(base, BitArr):
            return bits_method(fr, ABits([cbit(x) for x in base], "ba"), name, args, kw, n)
        if isinstance(base, (bytes, bytearray)) and name in ("index", "find", "rfind", "rindex", "count", "startswith", "endswith") and args and isinstance(args[0], ABits) and args[0].kind == "bytes":
            ab_ = I.simp_bits(args[0].items)
            if all(isinstance(b_, F) and b_.is_const for b_ in ab_):
                # an octet string that is constant on this path: the plain bytes method
                args = [bytes(int("".join(str(b_.c) for b_ in ab_[i_:i_ + 8]), 2) for i_ in range(0, len(ab_), 8))] + list(args[1:])
        if any(deep_abs(a) for a in args) or any(deep_abs(v) for v in kw.values()):
            if isinstance(base, bytes) and name == "join":
                out = []
                for x in fr.iterate(args[0], n):
                    out.extend(fr.as_bytes_val(x).items)
                return ABits(out, "bytes")
            return I.opaque(f"method {name} with abstract args")
        try:
            r = getattr(base, name)(*args, **kw)
        except Exception as e:
            raise PathRaise(type(e).__name__, str(e))
        if type(r).__name__ in ("dict_items", "dict_values", "dict_keys"):
            return list(r)
        return r
    return I.opaque(f"method {name} on {type(base).__name__}")


def concretise(fr, key):
    """a key whose abstract parts are constant on this path, as plain python values"""
    if isinstance(key, AInt):
        c = fr.I_const(key)
        if c is not None:
            return bool(c) if key.isbool else c
        return key
    if isinstance(key, AFin):
        return fr.I.simp_fin(key)         # constant once the atoms it depends on are pinned (inside a case split)
    if isinstance(key, tuple):
        return tuple(concretise(fr, k) for k in key)
    return key


def ident_key(k) -> bool:
    """a dictionary key whose equality is decided by identity / plain value: constants, fresh unique values (uuid4) and tuples of those"""
    if isinstance(k, tuple):
        return all(ident_key(x) for x in k)
    if isinstance(k, AOpq):
        return bool(getattr(k, "unique", False))
    return not is_abs(k)


class EnumValueMap(dict):
    """Enum._value2member_map_: value -> member; a lookup with a symbolic integer is the lazy enumeration view of that integer"""
    ci = None


def subscript_dict_abs(fr, d, key, n):
    I = fr.I
    if isinstance(d, EnumValueMap) and isinstance(key, AInt) and const_of(fr, key) is None and key.ext is None:
        return I.enum_lookup(d.ci, key, via_map="index")
    if isinstance(key, AFin):
        key = I.simp_fin(key)
        if isinstance(key, AFin):
            raise NeedCases(sorted(key.atoms))          # a key selected by a few input bits: per assignment of those bits
    ck = concretise(fr, key)
    if not is_abs(ck) or ident_key(ck):
        try:
            return d[ck]
        except KeyError:
            raise PathRaise("KeyError", repr(ck))
    if isinstance(key, AEnum):
        for k in d:
            if isinstance(k, EnumMember) and I.decide(eq(fr, key, k, n), f"dictget:{n.lineno}"):
                return d[k]
        raise PathRaise("KeyError", "enum key")
    for k in d:
        if k is key:
            return d[k]
    if len(d) <= 16 and not isinstance(key, (AOpq, ABits, list, dict)) and not any(isinstance(k, AOpq) for k in d):
        for k in list(d):
            if I.decide(compare(fr, ast.Eq(), key, k, n), f"dictget:{n.lineno}"):
                return d[k]
        raise PathRaise("KeyError", "symbolic key equal to none of the stored keys")
    ka = key_atoms(fr, key)
    if ka is not None and len(ka) <= MAX_FIN_ATOMS:
        raise NeedCases(ka)
    raise Abort("abstract dict key")


_BA_MUTATORS = frozenset(("invert", "reverse", "extend", "append", "setall", "pop", "clear", "bytereverse", "fill", "sort", "insert", "remove",
                          "frombytes", "fromfile", "encode", "pack"))


def bits_method(fr, b: ABits, name, args, kw, n):
    I = fr.I
    if b.frozen and name in _BA_MUTATORS:
        raise PathRaise("TypeError", f"frozenbitarray is immutable ({name}) at {fr.fi.module.relpath}:{getattr(n, 'lineno', 0)}")
    if b.kind == "bitstr":
        # a text of binary digits (see b_bin): the padding / counting methods of str that keep it one
        if any(x is BINSTR_PREFIX for x in b.items):
            raise Abort(f"str method {name} on a digit string that still has its 0b prefix")
        if name in ("zfill", "rjust", "ljust") and args:
            width = fr.cint(args[0])
            fill = args[1] if len(args) > 1 else "0"
            if name != "zfill" and fill not in ("0", "1"):
                raise Abort("padding a digit string with a non-digit")
            padbit = cbit(1) if (name != "zfill" and fill == "1") else cbit(0)
            pad = [padbit] * max(0, width - len(b.items))
            return ABits((list(b.items) + pad) if name == "ljust" else (pad + list(b.items)), "bitstr")
        if name == "count" and args and args[0] in ("0", "1"):
            forms = I.simp_bits(b.items)
            if all(isinstance(x, F) and x.is_const for x in forms):
                return sum(1 for x in forms if x.c == int(args[0]))
            return APop(forms if args[0] == "1" else [x ^ 1 for x in forms])
        raise Abort(f"str method {name} on a symbolic digit string at {fr.fi.module.relpath}:{n.lineno}")
    if b.kind == "bytes" and name in ("decode", "hex", "startswith", "endswith", "strip", "lstrip", "rstrip", "replace", "split", "find", "index", "count", "upper", "lower", "isdigit") \
            and not any(is_abs(a) for a in args):
        bits = I.simp_bits(b.items)
        if all(isinstance(x, F) and x.is_const for x in bits):
            raw = bytes(int("".join(str(x.c) for x in bits[i:i + 8]), 2) for i in range(0, len(bits), 8))
            try:
                return getattr(raw, name)(*args, **kw)
            except Exception as e:
                raise PathRaise(type(e).__name__, str(e))
    if name == "tobytes":
        items = list(b.items)
        if b.kind == "bytes":
            return ABits(items, "bytes")
        if len(items) % 8:
            items += [ZERO] * (8 - len(items) % 8)
        if b.endian == "little":
            items = [x for i in range(0, len(items), 8) for x in reversed(items[i:i + 8])]
        return ABits(items, "bytes")
    if name == "tolist":
        return ABits(list(b.items), "list")
    if name == "copy":
        return b.copy()
    if name == "extend":
        b.items.extend(fr.to_bitlist(args[0]))
        return None
    if name == "insert" and len(args) == 2:
        pos = fr.cint(args[0])
        if b.kind == "bytes":
            x = fr.to_int(args[1])
            hi = I.simp_bits(x.bits[8:]) if x.ext is None else None
            if hi is None or not all(isinstance(t, F) and t.is_const and t.c == 0 for t in hi):
                raise PartialRaise("ValueError", f"bytearray.insert of a value wider than 8 bits at {fr.fi.module.relpath}:{n.lineno}")
            nbytes = len(b.items) // 8
            pos = max(0, min(nbytes, pos if pos >= 0 else nbytes + pos))
            b.items[pos * 8:pos * 8] = x.msb_first(8)
            return None
        nb = len(b.items)
        pos = max(0, min(nb, pos if pos >= 0 else nb + pos))
        b.items.insert(pos, fr.to_bit(args[1]))
        return None
    if name == "append":
        if b.kind == "bytes":
            # bytearray.append(int): one octet; a value that may exceed 255 raises ValueError for those inputs
            x = fr.to_int(args[0])
            hi = I.simp_bits(x.bits[8:]) if x.ext is None else None
            if hi is None or not all(isinstance(t, F) and t.is_const and t.c == 0 for t in hi):
                raise PartialRaise("ValueError", f"bytearray.append of a value wider than 8 bits at {fr.fi.module.relpath}:{n.lineno}")
            b.items.extend(x.msb_first(8))
            return None
        b.items.append(fr.to_bit(args[0]))
        return None
    if name == "frombytes":
        v = args[0]
        if isinstance(v, AOpq):
            raise Abort("frombytes of opaque")
        vb = fr.as_bytes_val(v)
        items = list(vb.items)
        if b.endian == "little":
            items = [x for i in range(0, len(items), 8) for x in reversed(items[i:i + 8])]
        b.items.extend(items)
        return None
    if name == "invert":
        if args:
            i = fr.cint(args[0])
            b.items[i] = b.items[i] ^ 1
        else:
            b.items[:] = [x ^ 1 for x in b.items]
        return None
    if name == "reverse":
        if b.kind == "bytes":
            # bytearray.reverse(): the OCTETS change places, the bits inside each octet keep their order
            octs = [b.items[i:i + 8] for i in range(0, len(b.items), 8)]
            b.items[:] = [x for o in reversed(octs) for x in o]
        else:
            b.items.reverse()
        return None
    if name == "bytereverse":
        items = b.items
        for i in range(0, len(items) - len(items) % 8, 8):
            items[i:i + 8] = reversed(items[i:i + 8])
        return None
    if name == "sum" and b.kind == "np" and not args and not kw:
        # sum of a 0/1 vector: its population count (a constant where every bit is one on this path)
        bs_ = I.simp_bits(b.items)
        return sum(x.c for x in bs_) if all(isinstance(x, F) and x.is_const for x in bs_) else APop(bs_)
    if name == "setall":
        c = const_of(fr, args[0])
        b.items[:] = [cbit(c)] * len(b.items)
        return None
    if name == "fill":
        return 0
    if name == "hex":
        return I.opaque("hex()", notnone=True)
    if name == "to01":
        return I.opaque("to01()", notnone=True)
    if name == "decode":
        if getattr(I, "strict_decode_may_raise", False) and b.kind == "bytes" and b.items and "errors" not in kw and len(args) < 2:
            codec_ = (args[0] if args else kw.get("encoding", "utf-8"))
            if isinstance(codec_, str) and codec_.lower().replace("_", "-") not in ("latin", "latin1", "latin-1", "iso-8859-1", "iso8859-1", "l1", "cp437"):
                # octets the analysis knows nothing about, decoded with a codec that can fail: both outcomes are paths (opt-in)
                if I.st.choose(f"decode({codec_}) fails"):
                    raise PathRaise("UnicodeDecodeError", f"'{codec_}' codec can't decode received octets at {fr.fi.module.relpath}:{getattr(n, 'lineno', 0)}")
        return I.opaque("decode()", notnone=True)
    if name in ("any", "all") and not args and not kw and b.kind != "bytes":
        # bitarray.any() / .all(): "not all zero" / "all one" — a conjunction of linear equalities, decided by trace partitioning
        forms = I.simp_bits(b.items)
        if not forms:
            return name == "all"
        if any(isinstance(x, OB) for x in forms):
            return I.opaque(f"{name}() of unspecified bits")
        if name == "any":
            return not I.decide_eq(forms, 0, f"{fr.fi.name}:{n.lineno}:any")
        return I.decide_eq([x ^ 1 for x in forms], 0, f"{fr.fi.name}:{n.lineno}:all")
    if name == "count" and b.kind != "bytes" and (not args or (len(args) == 1 and args[0] in (0, 1, True, False))):
        forms = I.simp_bits(b.items)
        want = 1 if not args else int(args[0])
        if all(isinstance(x, F) and x.is_const for x in forms):
            return sum(1 for x in forms if x.c == want)
        if not any(isinstance(x, OB) for x in forms):
            return APop(forms if want == 1 else [x ^ 1 for x in forms])
    if name == "count":
        return I.opaque("count()")
    if name == "index" and b.kind == "list":
        return I.opaque("list.index on abstract")
    if name in ("dot",):
        return I.opaque("numpy dot")
    if name in ("startswith", "endswith") and b.kind == "bytes" and args:
        # data.startswith(prefix[, start[, end]]): the octets of the window compared with the prefix (a tuple of prefixes: any of them)
        nb = len(b.items) // 8
        lo_, hi_, _ = slice(*([fr.cint(a) if a is not None else None for a in args[1:3]] + [None] * (2 - len(args[1:3])))).indices(nb)
        prefixes = list(args[0]) if isinstance(args[0], tuple) else [args[0]]
        for pf in prefixes:
            if isinstance(pf, AOpq):
                return I.opaque("bytes.startswith of opaque")
            pb = fr.as_bytes_val(pf)
            k = len(pb.items) // 8
            if k > max(hi_ - lo_, 0):
                continue
            start = lo_ if name == "startswith" else hi_ - k
            window = ABits(b.items[start * 8:(start + k) * 8], "bytes")
            t = eq(fr, window, pb, n)
            if t is True or (t is not False and I.decide(t, f"{name}:{n.lineno}")):
                return True
        return False
    if name in ("startswith", "endswith") and b.kind == "bytes":
        return I.opaque("bytes.startswith")
    if name in ("ljust", "rjust", "zfill") and b.kind == "bytes" and args and not kw:
        width = fr.cint(args[0])
        fill = b"0" if name == "zfill" else (args[1] if len(args) > 1 else b" ")
        if name == "zfill" and len(args) != 1 or not isinstance(fill, (bytes, bytearray)) or len(fill) != 1:
            raise PathRaise("TypeError", f"bytes.{name}: the fill must be a single byte at {fr.fi.module.relpath}:{n.lineno}")
        if name == "zfill":
            raise Abort("bytes.zfill (sign handling) is not modelled")
        pad = [cbit((fill[0] >> (7 - j)) & 1) for j in range(8)] * max(0, width - len(b.items) // 8)
        return ABits((list(b.items) + pad) if name == "ljust" else (pad + list(b.items)), "bytes")
    raise Abort(f"bitarray/bytes method {name} at {fr.fi.module.relpath}:{n.lineno}")


# ------------------------------------------------------------------------------------------------ external callables


_STRUCT_SIZES = {"x": 1, "c": 1, "b": 1, "B": 1, "?": 1, "h": 2, "H": 2, "i": 4, "I": 4, "l": 4, "L": 4, "q": 8, "Q": 8, "s": 1}


def struct_model(fr, fn, args, kw, n):
    """struct.unpack / unpack_from / pack / calcsize for formats with an explicit byte order and the integer / char / bytes / pad
    codes: fields are cut out of (or laid into) the octets exactly; signed codes give two's-complement abstract integers"""
    import re as _re
    I = fr.I
    fmt = args[0]
    if not fmt or fmt[0] not in "<>!=":
        return NotImplemented   # native alignment: not modelled
    little = fmt[0] == "<"
    items = []
    for cnt, code in _re.findall(r"(\d*)([a-zA-Z?])", fmt[1:].replace(" ", "")):
        if code not in _STRUCT_SIZES:
            return NotImplemented
        c = int(cnt) if cnt else 1
        if code == "s":
            items.append(("s", c))
        else:
            items.extend([(code, _STRUCT_SIZES[code])] * c)
    total = sum(sz for _, sz in items)
    if fn == "calcsize":
        return total
    if fn in ("unpack", "unpack_from"):
        buf = kw.get("buffer", args[1] if len(args) > 1 else None)
        off = kw.get("offset", args[2] if len(args) > 2 else 0) if fn == "unpack_from" else 0
        off = fr.cint(off)
        if isinstance(buf, AOpq):
            return I.opaque("struct.unpack of opaque")
        b = fr.as_bytes_val(buf)
        nb = len(b.items) // 8
        if off < 0:
            off += nb
        if (fn == "unpack" and nb != total) or (fn == "unpack_from" and (off < 0 or nb - off < total)):
            raise PathRaise("struct.error", f"unpack requires a buffer of {total} bytes at {fr.fi.module.relpath}:{n.lineno}")
        out, pos = [], off
        for code, sz in items:
            chunk = [b.items[(pos + k) * 8:(pos + k) * 8 + 8] for k in range(sz)]
            pos += sz
            if code == "x":
                continue
            if code in ("s", "c"):
                out.append(ABits([x for c_ in chunk for x in c_], "bytes"))
                continue
            if little:
                chunk = list(reversed(chunk))
            msb = [x for c_ in chunk for x in c_]
            if code == "?":
                out.append(AInt([OB("struct '?' truthiness")], isbool=True) if False else I.opaque("struct ? field"))
                continue
            sm = I.simp_bits(msb)
            if all(isinstance(x, F) and x.is_const for x in sm):
                val = int("".join(str(x.c) for x in sm), 2)
                if code in "bhilq" and sm[0].c:
                    val -= 1 << len(sm)
                out.append(val)                 # a constant field is a plain (possibly negative) integer
                continue
            v = AInt(list(reversed(msb)))
            if code in "bhilq":
                v.signed = True
            out.append(v)
        return tuple(out)
    if fn == "pack":
        vals = list(args[1:])
        outb = []
        vi = 0
        for code, sz in items:
            if code == "x":
                outb.extend([ZERO] * 8 * sz)
                continue
            if vi >= len(vals):
                raise PathRaise("struct.error", "pack expected more items")
            v = vals[vi]
            vi += 1
            if code in ("s", "c"):
                vb = fr.as_bytes_val(v)
                bits = list(vb.items)[:8 * sz]
                bits += [ZERO] * (8 * sz - len(bits))
                outb.extend(bits)
                continue
            if code in "bhilq?":
                return NotImplemented
            A = fr.to_int(v)
            if A.ext is not None or getattr(A, "signed", False):
                return NotImplemented
            hi = I.simp_bits(A.bits[8 * sz:])
            if not all(isinstance(x, F) and x.is_const and x.c == 0 for x in hi):
                raise PartialRaise("struct.error", f"'{code}' format requires 0 <= number < 2**{8 * sz} at {fr.fi.module.relpath}:{n.lineno}")
            msb = A.msb_first(8 * sz)
            chunk = [msb[k * 8:k * 8 + 8] for k in range(sz)]
            if little:
                chunk = list(reversed(chunk))
            outb.extend(x for c_ in chunk for x in c_)
        if vi != len(vals):
            raise PathRaise("struct.error", "pack expected fewer items")
        return ABits(outb, "bytes")
    return NotImplemented


def external(fr, name, args, kw, n):
    I = fr.I
    short = name.split(".")[-1]
    if name == "types.MappingProxyType" and len(args) == 1 and isinstance(args[0], dict):
        return args[0]   # a read-only view: reads behave like the dictionary (a store through it would be a TypeError, not modelled)
    if name in ("bitarray.frozenbitarray", "frozenbitarray"):
        r = external(fr, "bitarray.bitarray", args, kw, n)
        if isinstance(r, ABits):
            r.frozen = True
        return r
    if name in ("bitarray.bitarray", "bitarray"):
        endian = kw.get("endian", "big")
        if not args:
            return ABits([], "ba", endian)
        v = args[0]
        if isinstance(v, str):
            return ABits([cbit(int(c)) for c in v], "ba", endian)
        if isinstance(v, AInt) or isinstance(v, int) and not isinstance(v, bool):
            nbits = v if isinstance(v, int) else const_of(fr, v)
            if isinstance(nbits, int) and 0 <= nbits <= 4096:
                # bitarray(n): n bits of unspecified content — opaque bits until they are overwritten (setall / item stores)
                return ABits([OB("bitarray(n): uninitialised bit") for _ in range(nbits)], "ba", endian)
            return I.opaque("bitarray(n): uninitialised bits")
        if isinstance(v, AOpq):
            return v
        return ABits(fr.to_bitlist(v), "ba", endian)
    if name == "bitarray.util.int2ba":
        v = args[0]
        length = kw.get("length", args[1] if len(args) > 1 else None)
        endian = kw.get("endian", args[2] if len(args) > 2 else "big")
        if kw.get("signed"):
            if isinstance(v, AInt) and v.ext is None and length is not None:
                w = fr.cint(length)
                if v.signed and len(v.bits) == w:
                    bits = v.msb_first(w)
                    return ABits(bits if endian == "big" else bits[::-1], "ba", endian)
                if not v.signed and len(v.bits) >= w:
                    top = I.simp_bits(v.bits[w - 1:])
                    if not all(isinstance(b, F) and b.is_const and b.c == 0 for b in top):
                        raise PartialRaise("OverflowError", f"int2ba(signed, length={w}) of an unsigned {len(v.bits)}-bit value at {fr.fi.module.relpath}:{n.lineno}")
                if not v.signed and len(v.bits) < w:
                    bits = v.msb_first(w)
                    return ABits(bits if endian == "big" else bits[::-1], "ba", endian)
            if isinstance(v, int):
                w = fr.cint(length)
                if not -(1 << (w - 1)) <= v < (1 << (w - 1)):
                    raise PathRaise("OverflowError", f"signed int2ba({v}, length={w})")
                bits = [cbit(((v + (1 << w)) >> (w - 1 - j)) & 1) for j in range(w)]
                return ABits(bits if endian == "big" else bits[::-1], "ba", endian)
            return I.opaque("signed int2ba")
        if isinstance(v, AOpq):
            if length is None:
                return v
            return ABits([OB(v.why)] * fr.cint(length), "ba", endian)
        if isinstance(v, AEnum):
            raise PathRaise("TypeError", "int2ba of enum")
        if v is TOO_WIDE:
            raise PathRaise("TypeError", f"int2ba(None) at {fr.fi.module.relpath}:{n.lineno}")
        A = fr.to_int(v)
        if length is None:
            c = const_of(fr, v)
            if c is None:
                # minimal-width result: its length depends on the value — the position of the leading one is decided
                # bit by bit from the top (a fork per candidate length; the lower bits stay symbolic)
                if not isinstance(A, AInt) or A.ext is not None or A.signed or len(A.bits) > 16:
                    return I.opaque("int2ba without length on abstract int")
                length = 1
                for j in range(len(A.bits) - 1, 0, -1):
                    if I.decide_eq([A.bits[j]], 1, f"int2ba-width:{n.lineno}:bit{j}"):
                        length = j + 1
                        break
            else:
                length = max(c.bit_length(), 1)
        length = fr.cint(length)
        c = const_of(fr, v)
        if c is not None and c >= (1 << length):
            raise PathRaise("OverflowError", f"int2ba({c}, length={length})")
        bits = A.msb_first(length)
        return ABits(bits if endian == "big" else bits[::-1], "ba", endian)
    if name == "bitarray.util.ba2int":
        v = args[0]
        if isinstance(v, AOpq):
            return v
        if isinstance(v, BitArr):
            v = ABits([cbit(x) for x in v], "ba")
        if not isinstance(v, ABits):
            raise PathRaise("TypeError", f"ba2int of {type(v).__name__} at {fr.fi.module.relpath}:{n.lineno}")
        if not v.items:
            raise PathRaise("ValueError", "ba2int of empty bitarray")
        items = v.items if v.endian == "big" else v.items[::-1]
        r = AInt(list(reversed(items)))
        if kw.get("signed"):
            r.signed = True
        return r
    if name == "numpy.apply_along_axis" and len(args) >= 3 and isinstance(args[2], ATable):
        # func applied to every 1-D slice along the axis; the results form a NEW array (the input is not written)
        func, axis, t = args[0], fr.cint(args[1]), args[2]
        extra = list(args[3:])
        lines = []
        if axis in (1, -1):
            slices = [ABits([t.cells[r][c] for c in range(t.cols)], "np") for r in range(t.rows)]
        elif axis == 0:
            slices = [ABits([t.cells[r][c] for r in range(t.rows)], "np") for c in range(t.cols)]
        else:
            raise Abort("apply_along_axis: axis of a 2-D table")
        for sl_ in slices:
            res = apply(fr, func, [sl_] + extra, dict(kw), n)
            lines.append(fr.to_bitlist(res))
        if len({len(x) for x in lines}) != 1:
            raise Abort("apply_along_axis: results of different lengths")
        if axis == 0:
            out = ATable(len(lines[0]), len(lines))
            for c, col in enumerate(lines):
                for r, v in enumerate(col):
                    out.cells[r][c] = v
        else:
            out = ATable(len(lines), len(lines[0]))
            for r, row in enumerate(lines):
                for c, v in enumerate(row):
                    out.cells[r][c] = v
        return out
    if name == "itertools.count":
        start = fr.cint(args[0]) if args else 0
        step = fr.cint(args[1]) if len(args) > 1 else 1
        # an endless counter: unrolled far enough for any loop that leaves through return / break / an exception
        return list(range(start, start + 4096 * step, step))
    if name == "operator.index":
        x = args[0]
        if isinstance(x, (AInt, ANeg)) or (isinstance(x, int)):
            return int(x) if isinstance(x, bool) else x
        if isinstance(x, AOpq):
            return x
        if isinstance(x, AFin):
            return fin_lift(operator_index_concrete, x)       # a truth value / small integer selected by a few input bits
        if isinstance(x, ACond):
            return fr.to_int(x)
        if is_abs(x) and not isinstance(x, (ABits, AObj, AEnum)):
            raise Abort(f"operator.index of {type(x).__name__} is not modelled")
        raise PathRaise("TypeError", "object cannot be interpreted as an integer")
    if name == "bitarray.util.zeros":
        nbits = fr.cint(args[0] if args else kw.get("length"))
        return ABits([cbit(0)] * nbits, "ba", kw.get("endian", args[1] if len(args) > 1 else "big"))
    if name in ("numpy.ndarray", "numpy.zeros", "numpy.empty", "numpy.ones"):
        shape = kw.get("shape", args[0] if args else None)
        fill = None if short in ("ndarray", "empty") else cbit(1 if short == "ones" else 0)
        if isinstance(shape, int):
            return ABits([fill or OB("uninitialised")] * shape, "np")
        shape = tuple(fr.cint(x) for x in shape)
        if len(shape) == 1:
            return ABits([fill or OB("uninitialised")] * shape[0], "np")
        return ATable(shape[0], shape[1], fill)
    if name in ("numpy.zeros_like", "numpy.ones_like") and args and isinstance(args[0], (ABits, AView)) and not (set(kw) - {"dtype"}):
        nbits = len(args[0].items) if isinstance(args[0], ABits) else len(args[0].get())
        return ABits([cbit(1 if name.endswith("ones_like") else 0) for _ in range(nbits)], "np")
    if name in ("numpy.array", "numpy.asarray", "numpy.copy"):
        v = args[0]
        if isinstance(v, ABits):
            return ABits(list(v.items), "np")
        if isinstance(v, AView):
            return ABits(v.get(), "np")
        if isinstance(v, AOpq):
            return v
        if isinstance(v, list) and any(is_abs(x) for x in v):
            return ABits([fr.to_bit(x) for x in v], "np")
        if isinstance(v, (list, tuple)) and all(isinstance(x, int) for x in v):
            return ABits([cbit(x) if x in (0, 1) else OB("non-bit") for x in v], "np")
        return NPArr(v)
    if name in ("numpy.logical_not", "numpy.invert", "numpy.bitwise_not") and args:
        # on 0/1 vectors: element-wise complement (numpy.invert of an int vector is not that — only logical_not is exact for 0/1 ints;
        # the others are modelled only for boolean-valued operands and otherwise left opaque)
        if name != "numpy.logical_not":
            return I.opaque(f"{name} of an integer vector")
        return ABits([b ^ 1 for b in fr.to_bitlist(args[0])], "np")
    if name in ("numpy.logical_xor", "numpy.bitwise_xor") and len(args) == 2:
        a, b = fr.to_bitlist(args[0]), fr.to_bitlist(args[1])
        if len(a) != len(b):
            raise PathRaise("ValueError", "operands could not be broadcast together")
        return ABits([x ^ y for x, y in zip(a, b)], "np")
    if name == "numpy.append":
        a = fr.to_bitlist(args[0])
        b = fr.to_bitlist(args[1])
        return ABits(a + b, "np")
    if name in ("numpy.concatenate",):
        out = []
        for p in fr.iterate(args[0], n):
            out.extend(fr.to_bitlist(p))
        return ABits(out, "np")
    if name in ("numpy.dot", "numpy.matmul"):
        v = matvec(fr, args[0], args[1])
        return v if v is not None else I.opaque("numpy.dot operands")
    if name in ("numpy.mod", "numpy.remainder") and isinstance(args[0], ASumVec) and const_of(fr, args[1]) == 2:
        return args[0].mod2()
    if name == "numpy.transpose" and isinstance(args[0], NPArr):
        return args[0].T
    if name in ("numpy.bitwise_xor.reduce", "numpy.logical_xor.reduce"):
        acc = ZERO
        for b in fr.to_bitlist(args[0]):
            acc = acc ^ b
        return AInt([acc])
    if name in ("numpy.sum", "numpy.count_nonzero"):
        return fn_int(fr, short, [ABits(fr.to_bitlist(args[0]), "seq")], 16)
    if name in ("bisect.bisect_left", "bisect.bisect_right", "bisect.bisect") and len(args) == 2 and not kw and isinstance(args[0], (list, tuple)) \
            and all(isinstance(x, int) and not isinstance(x, bool) for x in args[0]) and list(args[0]) == sorted(args[0]):
        # position of a (symbolic) integer in a sorted constant table: decided entry by entry with the exact ordering comparison
        x_ = args[1]
        if not is_abs(x_):
            import bisect as _bisect
            return getattr(_bisect, short)(list(args[0]), x_)
        pos = 0
        for e_ in args[0]:
            beyond = compare(fr, ast.Gt() if short == "bisect_left" else ast.GtE(), x_, e_, n)
            if I.decide(beyond, f"bisect:{getattr(n, 'lineno', 0)}"):
                pos += 1
            else:
                break
        return pos
    if name == "numpy.flatnonzero" and len(args) == 1 and isinstance(args[0], (ABits, AView)):
        bs_ = I.simp_bits(args[0].items if isinstance(args[0], ABits) else args[0].get())
        if all(isinstance(x, F) and x.is_const for x in bs_):
            return [i_ for i_, x in enumerate(bs_) if x.c]      # positions of the ones of a vector that is constant on this path
        raise Abort("numpy.flatnonzero of a symbolic vector")
    if name == "numpy.array_equal":
        return eq(fr, ABits(fr.to_bitlist(args[0]), "seq") if not isinstance(args[0], AOpq) else args[0],
                  ABits(fr.to_bitlist(args[1]), "seq") if not isinstance(args[1], AOpq) else args[1], n)
    if name.startswith("math.") and not any(is_abs(a) for a in args):
        import math
        f = getattr(math, short, None)
        if f is not None:
            try:
                return f(*args)
            except Exception as e:
                raise PathRaise(type(e).__name__, str(e))
    if name == "array.array":
        init = args[1] if len(args) > 1 else []
        return list(fr.iterate(init, n))
    if name in ("copy.copy", "copy.deepcopy", "copy"):
        return deep_copy(args[0], deep=name.endswith("deepcopy"))
    if name.startswith("typing.") or name.startswith("logging"):
        return I.opaque(name)
    if name in ("uuid.uuid4", "uuid.uuid1"):
        o = I.opaque("impure:" + name, notnone=True)
        o.unique = True
        return o
    if name in ("uuid.uuid5", "uuid.uuid3") and len(args) == 2 and not deep_abs(args[1]):
        # name-based identifiers are a FUNCTION of their arguments: equal names give the one same identifier on a path
        memo = I.st.__dict__.setdefault("uuid_by_name", {})
        k_ = (name, args[0].why if isinstance(args[0], AOpq) else (repr(args[0]) if isinstance(args[0], (str, bytes, int, tuple)) else type(args[0]).__name__), repr(args[1]))
        if k_ not in memo:
            o = I.opaque(f"{name} of {args[1]!r}", notnone=True)
            o.unique = True
            memo[k_] = o
        return memo[k_]
    if name.startswith("uuid.NAMESPACE_"):
        return I.opaque(name, notnone=True)
    if name.startswith("datetime.") or name.startswith("time.") or name.startswith("secrets.") or name.startswith("random.") or name.startswith("uuid."):
        return I.opaque("impure:" + name, notnone=True)
    if name == "struct.Struct" and len(args) == 1 and isinstance(args[0], str):
        return StructObj(args[0])
    if name in ("struct.unpack", "struct.unpack_from", "struct.pack", "struct.calcsize") and args and isinstance(args[0], str):
        r_ = struct_model(fr, name.split(".")[1], args, kw, n)
        if r_ is not NotImplemented:
            return r_
    if name == "struct.pack" or name == "struct.unpack":
        return I.opaque(name)
    return I.opaque(f"external {name}")


def deep_copy(v, deep=True, memo=None):
    memo = {} if memo is None else memo
    if id(v) in memo:
        return memo[id(v)]
    if isinstance(v, AObj):
        o = AObj(v.cls)
        memo[id(v)] = o
        o.attrs = {k: (deep_copy(x, deep, memo) if deep else x) for k, x in v.attrs.items()}
        return o
    if isinstance(v, ABits):
        r = ABits(list(v.items), v.kind, v.endian)
        return r
    if isinstance(v, list):
        return [deep_copy(x, deep, memo) if deep else x for x in v]
    if isinstance(v, dict):
        return {k: (deep_copy(x, deep, memo) if deep else x) for k, x in v.items()}
    if isinstance(v, ATable):
        t = ATable(v.rows, v.cols)
        t.cells = [list(r) for r in v.cells]
        return t
    return v


def popcount_witness(I, st, diff_forms, max_weight=2):
    """Paths that assumed a population-count threshold carry no constraint for it.  Before a difference found on such a path is
    reported, look for a CONCRETE assignment of the counted bits (0, 1 or 2 of the free bits set) under which every threshold
    condition of the path evaluates the way the path decided it and some difference bit is still 1 (or free).  Returns
    None if the path has no such condition, else (found: bool, description)."""
    import itertools
    import operator
    conds = [(k, v) for k, v in st.conds.items() if isinstance(k, tuple) and k and k[0] == "popcnt"]
    if not conds:
        return None
    opf = {"Lt": operator.lt, "LtE": operator.le, "Gt": operator.gt, "GtE": operator.ge, "Eq": operator.eq, "NotEq": operator.ne}
    parsed = []
    for k, decided in conds:
        forms, opname, r = k[1]
        parsed.append((list(forms), opf[opname], r, decided))
    # candidate assignments: drive the bits counted by the LAST condition decided true (else the last one)
    drive = next((p for p in reversed(parsed) if p[3]), parsed[-1])
    free_idx = [i for i, f in enumerate(I.simp_bits(drive[0])) if not (isinstance(f, F) and f.is_const)]
    for w in range(0, max_weight + 1):
        for combo in itertools.combinations(free_idx, w):
            lin = st.lin.copy()
            ok = True
            for i, f in enumerate(drive[0]):
                f = lin.reduce(f)
                want = 1 if i in combo else 0
                if isinstance(f, F) and f.is_const:
                    continue
                if lin.add(f ^ want) == "contradiction":
                    ok = False
                    break
            if not ok:
                continue
            good = True
            for forms, fn, r, decided in parsed:
                vals = [lin.reduce(f) for f in forms]
                if not all(isinstance(v, F) and v.is_const for v in vals):
                    # bits of another counted word still free: give them the value 0 as well
                    for v in vals:
                        if not v.is_const:
                            if lin.add(v) == "contradiction":
                                good = False
                    vals = [lin.reduce(f) for f in forms]
                if not good or fn(sum(v.c for v in vals), r) != decided:
                    good = False
                    break
            if not good:
                continue
            red = [lin.reduce(d) for d in diff_forms]
            if any((isinstance(d, F) and (not d.is_const or d.c == 1)) for d in red):
                word = "".join(str(lin.reduce(f).c) if lin.reduce(f).is_const else "x" for f in drive[0])
                return True, f"witness: counted word = {word} ({word.count('1')} bit(s) set)"
    return False, "no witness with up to 2 set bits satisfies the path's population-count conditions"
