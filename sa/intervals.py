"""Interval analysis of additive checksum accumulators (ones-complement style): decides that no carry is masked away.

The accumulator is found structurally (a name that a for-loop over 2-octet slices adds int.from_bytes(...) to); its
interval after the loop follows from the maximal number of words; every later statement is evaluated over intervals.
A mask `E & (2^k - 1)` discards information iff E can exceed the mask — allowed only in the end-around-carry idiom
`(E & m) + (E >> k)`, which puts the discarded part back."""
from __future__ import annotations

import ast
from typing import Dict, List, Optional, Tuple

from .model import AnalysisError

INF = float("inf")


class Iv:
    __slots__ = ("lo", "hi")

    def __init__(self, lo, hi):
        self.lo, self.hi = lo, hi

    def join(self, o):
        return Iv(min(self.lo, o.lo), max(self.hi, o.hi))

    def __eq__(self, o):
        return isinstance(o, Iv) and (self.lo, self.hi) == (o.lo, o.hi)

    def __repr__(self):
        f = lambda x: hex(int(x)) if x not in (INF, -INF) else str(x)
        return f"[{f(self.lo)}, {f(self.hi)}]"


def is_mask(c) -> Optional[int]:
    """k if c == 2^k - 1"""
    if isinstance(c, int) and c > 0 and (c & (c + 1)) == 0:
        return c.bit_length()
    return None


class CarryAnalysis:
    def __init__(self, fi, max_words: int, fold=None):
        self.fi, self.max_words = fi, max_words
        self.acc: Optional[str] = None
        self.word_bits = 16
        self.events: List[Tuple[int, str, Iv, bool, str]] = []   # (line, expr, operand interval, ok, why)
        self.final: Optional[Iv] = None
        self.folder = fold   # callable(expr) -> constant or raises

    # ---- locate the summation loop
    def find_sum_loop(self):
        for n in ast.walk(self.fi.node):
            if isinstance(n, ast.For):
                for s in n.body:
                    if isinstance(s, ast.AugAssign) and isinstance(s.op, ast.Add) and isinstance(s.target, ast.Name):
                        v = s.value
                        if isinstance(v, ast.Call) and ast.unparse(v.func) == "int.from_bytes" and v.args and isinstance(v.args[0], ast.Subscript) \
                                and isinstance(v.args[0].slice, ast.Slice):
                            sl = v.args[0].slice
                            width = None
                            if sl.lower is not None and isinstance(sl.upper, ast.BinOp) and isinstance(sl.upper.op, ast.Add) \
                                    and ast.dump(sl.upper.left) == ast.dump(sl.lower) and isinstance(sl.upper.right, ast.Constant):
                                width = sl.upper.right.value
                            if width is None:
                                raise AnalysisError(f"{self.fi.qualname}: summation slice width not constant")
                            self.acc, self.word_bits = s.target.id, 8 * width
                            return n
        # `acc = sum(<word> for i in range(0, len(data), w))`
        for n in ast.walk(self.fi.node):
            if isinstance(n, (ast.Assign, ast.AnnAssign)) and n.value is not None and isinstance(n.value, ast.Call) \
                    and isinstance(n.value.func, ast.Name) and n.value.func.id == "sum" and n.value.args and isinstance(n.value.args[0], ast.GeneratorExp):
                t = n.targets[0] if isinstance(n, ast.Assign) else n.target
                if not isinstance(t, ast.Name):
                    continue
                ge = n.value.args[0]
                elt = ge.elt
                word_hi = None
                if isinstance(elt, ast.Call) and ast.unparse(elt.func) == "int.from_bytes" and elt.args and isinstance(elt.args[0], ast.Subscript) \
                        and isinstance(elt.args[0].slice, ast.Slice):
                    sl = elt.args[0].slice
                    if sl.lower is not None and isinstance(sl.upper, ast.BinOp) and isinstance(sl.upper.op, ast.Add) \
                            and ast.dump(sl.upper.left) == ast.dump(sl.lower) and isinstance(sl.upper.right, ast.Constant):
                        word_hi = (1 << (8 * sl.upper.right.value)) - 1
                else:
                    # a word assembled from single octets: every `x[...]` is an octet
                    class _Oct(dict):
                        pass
                    try:
                        word_hi = self.iv_octets(elt).hi
                    except AnalysisError:
                        word_hi = None
                if word_hi is None or word_hi == INF:
                    continue
                self.acc = t.id
                self.word_bits = int(word_hi).bit_length()
                self.sum_stmt = n
                return n
        raise AnalysisError(f"{self.fi.qualname}: additive checksum accumulator (acc += int.from_bytes(data[i:i+w]) in a loop, or acc = sum(<word> for ...)) not found")

    def iv_octets(self, e) -> "Iv":
        """interval of an expression over single octets x[i] (each in [0, 255])"""
        if isinstance(e, ast.Subscript) and not isinstance(e.slice, ast.Slice):
            return Iv(0, 255)
        c = self.const(e)
        if c is not None:
            return Iv(c, c)
        if isinstance(e, ast.BinOp):
            l, r = self.iv_octets(e.left), self.iv_octets(e.right)
            if isinstance(e.op, ast.LShift) and l.lo >= 0 and r.lo == r.hi:
                return Iv(l.lo << int(r.lo), int(l.hi) << int(r.lo))
            if isinstance(e.op, ast.Mult) and l.lo >= 0 and r.lo >= 0:
                return Iv(l.lo * r.lo, l.hi * r.hi)
            if isinstance(e.op, ast.Add):
                return Iv(l.lo + r.lo, l.hi + r.hi)
            if isinstance(e.op, (ast.BitOr, ast.BitXor)) and l.lo >= 0 and r.lo >= 0:
                return Iv(0, (1 << max(int(l.hi).bit_length(), int(r.hi).bit_length())) - 1)
        raise AnalysisError(f"{self.fi.qualname}:{getattr(e, 'lineno', 0)}: word expression not analysable")

    def const(self, e):
        if isinstance(e, ast.Constant) and isinstance(e.value, int) and not isinstance(e.value, bool):
            return e.value
        if self.folder is not None:
            try:
                v = self.folder(e)
                if isinstance(v, int) and not isinstance(v, bool):
                    return v
            except Exception:
                return None
        return None

    # ---- expressions
    def iv(self, e, env, parent_add=None) -> Iv:
        c = self.const(e)
        if c is not None:
            return Iv(c, c)
        if isinstance(e, ast.Name):
            if e.id in env:
                return env[e.id]
            raise AnalysisError(f"{self.fi.qualname}:{e.lineno}: value of {e.id} not tracked")
        if isinstance(e, ast.Attribute) and ast.unparse(e) in env:
            return env[ast.unparse(e)]
        if isinstance(e, ast.UnaryOp) and isinstance(e.op, ast.Invert):
            a = self.iv(e.operand, env)
            return Iv(-a.hi - 1, -a.lo - 1)
        if isinstance(e, ast.UnaryOp) and isinstance(e.op, ast.USub):
            a = self.iv(e.operand, env)
            return Iv(-a.hi, -a.lo)
        if isinstance(e, ast.BinOp):
            if isinstance(e.op, ast.BitAnd):
                m = self.const(e.right)
                operand = e.left
                if m is None:
                    m = self.const(e.left)
                    operand = e.right
                k = is_mask(m)
                if k is None:
                    raise AnalysisError(f"{self.fi.qualname}:{e.lineno}: `&` with a non-mask operand")
                inner = operand.operand if isinstance(operand, ast.UnaryOp) and isinstance(operand.op, ast.Invert) else operand
                a = self.iv(inner, env)
                fits = a.lo >= 0 and a.hi <= m
                if fits:
                    self.events.append((e.lineno, ast.unparse(e), a, True, "operand fits the mask"))
                elif parent_add is not None and inner is operand and self.is_fold_partner(parent_add, e, inner, k):
                    self.events.append((e.lineno, ast.unparse(parent_add), a, True, f"end-around carry: the bits above 2^{k} are added back by `>> {k}` in the same expression"))
                else:
                    self.events.append((e.lineno, ast.unparse(e), a, False,
                                        f"the operand ranges over {a} but only {k} bits are kept: a carry above bit {k - 1} is dropped"))
                if inner is operand:
                    if a.lo >= 0 and a.hi != INF and (int(a.lo) >> k) == (int(a.hi) >> k):
                        return Iv(int(a.lo) & m, int(a.hi) & m)    # same upper part: the low bits run through a sub-range
                    return Iv(0, min(a.hi, m) if a.lo >= 0 else m)
                return Iv(max(0, m - a.hi) if fits else 0, m - max(a.lo, 0) if fits else m)
            if isinstance(e.op, ast.BitXor):
                m = self.const(e.right)
                operand = e.left
                if m is None:
                    m = self.const(e.left)
                    operand = e.right
                k = is_mask(m)
                if k is None:
                    raise AnalysisError(f"{self.fi.qualname}:{e.lineno}: `^` with a non-mask operand")
                a = self.iv(operand, env)
                fits = a.lo >= 0 and a.hi <= m
                self.events.append((e.lineno, ast.unparse(e), a, fits, "operand fits the mask (x ^ m = m - x: the complement)" if fits else
                                    f"the operand ranges over {a} but the complement mask has {k} bits: the bits above it survive un-complemented and overflow the field"))
                return Iv(0, m) if fits else Iv(0, max(a.hi, m))
            if isinstance(e.op, ast.Add):
                l = self.iv(e.left, env, parent_add=e)
                r = self.iv(e.right, env, parent_add=e)
                return Iv(l.lo + r.lo, l.hi + r.hi)
            if isinstance(e.op, ast.Sub):
                l, r = self.iv(e.left, env), self.iv(e.right, env)
                return Iv(l.lo - r.hi, l.hi - r.lo)
            if isinstance(e.op, ast.RShift):
                k = self.const(e.right)
                a = self.iv(e.left, env)
                if k is None or a.lo < 0:
                    raise AnalysisError(f"{self.fi.qualname}:{e.lineno}: shift not analysable")
                return Iv(int(a.lo) >> k, (int(a.hi) >> k) if a.hi != INF else INF)
            if isinstance(e.op, ast.LShift):
                k = self.const(e.right)
                a = self.iv(e.left, env)
                if k is None or a.lo < 0:
                    raise AnalysisError(f"{self.fi.qualname}:{e.lineno}: shift not analysable")
                return Iv(a.lo * (1 << k), a.hi * (1 << k))
            if isinstance(e.op, ast.Mod):
                m = self.const(e.right)
                a = self.iv(e.left, env)
                if m is None or m <= 0:
                    raise AnalysisError(f"{self.fi.qualname}:{e.lineno}: modulus not constant")
                if a.lo >= 0 and a.hi < m:
                    return a
                return Iv(0, m - 1)
        if isinstance(e, ast.IfExp):
            return self.iv(e.body, env).join(self.iv(e.orelse, env))
        raise AnalysisError(f"{self.fi.qualname}:{getattr(e, 'lineno', 0)}: expression {ast.unparse(e)[:40]} not analysable over intervals")

    @staticmethod
    def is_fold_partner(add: ast.BinOp, and_node, inner, k) -> bool:
        other = add.right if add.left is and_node else add.left
        return isinstance(other, ast.BinOp) and isinstance(other.op, ast.RShift) and isinstance(other.right, ast.Constant) and other.right.value == k \
            and ast.dump(other.left) == ast.dump(inner)

    # ---- statements after the summation loop
    def cond_hi(self, test, env) -> Optional[int]:
        """the loop runs while acc exceeds this bound (acc >> k, acc > c, acc >= c)"""
        if isinstance(test, ast.BinOp) and isinstance(test.op, ast.RShift) and isinstance(test.left, ast.Name) and test.left.id == self.acc:
            k = self.const(test.right)
            return (1 << k) - 1 if k is not None else None
        if isinstance(test, ast.Compare) and len(test.ops) == 1 and isinstance(test.left, ast.Name) and test.left.id == self.acc:
            c = self.const(test.comparators[0])
            if c is not None and isinstance(test.ops[0], ast.Gt):
                return c
            if c is not None and isinstance(test.ops[0], ast.GtE):
                return c - 1
        return None

    def run(self):
        self.sum_stmt = None
        loop = self.find_sum_loop()
        word_hi = (1 << self.word_bits) - 1
        env: Dict[str, Iv] = {self.acc: Iv(0, self.max_words * word_hi)}
        self.after_sum = env[self.acc]
        # statements that follow the loop in its block
        parent = next(p for p in ast.walk(self.fi.node) if any(loop is c for c in getattr(p, "body", []) if isinstance(getattr(p, "body", None), list)))
        idx = parent.body.index(loop)
        for s in parent.body[idx + 1:]:
            self.stmt(s, env)
        self.final = env[self.acc]
        return self

    def mentions_acc(self, node) -> bool:
        return any(isinstance(n, ast.Name) and n.id == self.acc for n in ast.walk(node))

    def stmt(self, s, env):
        if isinstance(s, (ast.Assign, ast.AnnAssign)):
            tgt = s.targets[0] if isinstance(s, ast.Assign) else s.target
            if s.value is None:
                return
            if isinstance(tgt, ast.Name) and (tgt.id == self.acc or self.mentions_acc(s.value)):
                env[tgt.id] = self.iv(s.value, env)
            return
        if isinstance(s, ast.AugAssign) and isinstance(s.target, ast.Name) and s.target.id in env:
            fake = ast.BinOp(left=ast.Name(id=s.target.id, ctx=ast.Load()), op=s.op, right=s.value)
            ast.copy_location(fake, s)
            ast.fix_missing_locations(fake)
            env[s.target.id] = self.iv(fake, env)
            return
        if isinstance(s, ast.While):
            bound = self.cond_hi(s.test, env)
            if bound is None:
                if self.mentions_acc(s):
                    raise AnalysisError(f"{self.fi.qualname}:{s.lineno}: loop condition on the accumulator not recognised")
                return
            cur = env[self.acc]
            for _ in range(64):
                if cur.hi <= bound:
                    break
                inside = dict(env)
                inside[self.acc] = Iv(max(cur.lo, bound + 1), cur.hi)
                for b in s.body:
                    self.stmt(b, inside)
                nxt = cur.join(inside[self.acc])
                # descending chain: everything the body can produce from values above the bound
                after = Iv(min(cur.lo, inside[self.acc].lo), max(min(cur.hi, bound), inside[self.acc].hi))
                if after == cur:
                    raise AnalysisError(f"{self.fi.qualname}:{s.lineno}: the folding loop does not decrease the interval {cur}")
                cur = after
            else:
                raise AnalysisError(f"{self.fi.qualname}:{s.lineno}: folding loop did not stabilise")
            env[self.acc] = Iv(cur.lo, min(cur.hi, bound))
            return
        if isinstance(s, ast.If):
            e1, e2 = dict(env), dict(env)
            for b in s.body:
                self.stmt(b, e1)
            for b in s.orelse:
                self.stmt(b, e2)
            for k in set(e1) | set(e2):
                if k in e1 and k in e2:
                    env[k] = e1[k].join(e2[k])
            return
        if isinstance(s, (ast.Return, ast.Expr)):
            return


def expr_interval(fi, expr, env, fold=None) -> Iv:
    """interval of an integer expression of function fi under env (names / dotted attribute texts -> Iv)"""
    a = CarryAnalysis.__new__(CarryAnalysis)
    a.fi, a.folder, a.events, a.acc = fi, fold, [], None
    return a.iv(expr, env)
