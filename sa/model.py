"""E1 + E2: repository model and constant folder (stdlib `ast` only; never imports repo code).

Repo(root) parses every *.py under <root>/okdmr/dmrlib (tests excluded), indexes modules, classes,
functions, imports, class hierarchy, and folds module-/class-level initialisers lazily.
"""
from __future__ import annotations

import ast
import hashlib
import operator
import os
import pathlib
from typing import Any, Dict, List, Optional, Tuple


class AnalysisError(Exception):
    """The analysis could not be carried out (anchor vanished, idiom not modelled, count shortfall)."""


class Unfoldable(Exception):
    pass


# ----------------------------------------------------------------------------- folded value kinds


class EnumMember:
    __slots__ = ("cls", "name", "value")

    def __init__(self, cls: str, name: str, value: Any):
        self.cls, self.name, self.value = cls, name, value

    def __repr__(self):
        return f"{self.cls}.{self.name}"

    def __hash__(self):
        return hash((self.cls, self.name))

    def __eq__(self, o):
        return isinstance(o, EnumMember) and (self.cls, self.name) == (o.cls, o.name)


class Rec:
    """A keyword-record constructor call folded field by field (dataclass / plain class)."""

    def __init__(self, ctor: str, fields: Dict[str, Any], cls: "Optional[ClassInfo]" = None):
        self.ctor, self.fields, self.cls = ctor, fields, cls

    def __repr__(self):
        return f"{self.ctor}({', '.join(f'{k}={v!r}' for k, v in self.fields.items())})"

    def __eq__(self, o):
        return isinstance(o, Rec) and self.ctor == o.ctor and self.fields == o.fields

    def __hash__(self):
        return hash((self.ctor, tuple(sorted((k, repr(v)) for k, v in self.fields.items()))))


class BitArr(list):
    """bitarray literal folded to a list of 0/1."""

    endian = "big"


class StructObj:
    """struct.Struct(fmt): a compiled format — its methods are the struct module's functions with the format bound"""

    def __init__(self, fmt):
        self.format = fmt

    def __repr__(self):
        return f"Struct({self.format!r})"


class GenList(list):
    """the elements a folded generator expression produces (so that next() on it can be told from next() on a list)"""


class NPArr:
    """numpy.ndarray of ints folded to nested lists (1-D or 2-D)."""

    def __init__(self, data):
        self.data = [list(r) if isinstance(r, (list, tuple)) else r for r in data]

    @property
    def ndim(self):
        return 2 if self.data and isinstance(self.data[0], list) else 1

    @property
    def shape(self):
        return (len(self.data), len(self.data[0])) if self.ndim == 2 else (len(self.data),)

    @property
    def T(self):
        if self.ndim == 1:
            return self
        return NPArr([list(c) for c in zip(*self.data)])

    def tolist(self):
        return [list(r) for r in self.data] if self.ndim == 2 else list(self.data)

    def getitem(self, idx):
        if isinstance(idx, tuple):
            r, c = idx
            rows = self.data[r] if isinstance(r, slice) else [self.data[r]]
            out = [row[c] for row in rows]
            if not isinstance(r, slice):
                out = out[0]
                return NPArr(out) if isinstance(out, list) else out
            return NPArr(out)
        v = self.data[idx]
        if isinstance(idx, slice):
            return NPArr(v)
        return NPArr(v) if isinstance(v, list) else v

    def __eq__(self, o):
        return isinstance(o, NPArr) and self.data == o.data

    def __len__(self):
        return len(self.data)

    def __iter__(self):
        return iter([NPArr(r) if isinstance(r, list) else r for r in self.data])

    def __hash__(self):
        return hash(repr(self.data))

    def __repr__(self):
        return f"NPArr({self.data})"


class ClassRef:
    def __init__(self, info: "ClassInfo"):
        self.info = info

    def __eq__(self, o):
        return isinstance(o, ClassRef) and o.info is self.info

    def __hash__(self):
        return hash(id(self.info))

    def __repr__(self):
        return f"<class {self.info.qualname}>"


class FuncRef:
    def __init__(self, info: "FuncInfo", bound_cls: "Optional[ClassInfo]" = None):
        self.info, self.bound_cls = info, bound_cls

    def __repr__(self):
        return f"<func {self.info.qualname}>"


STDLIB_CONSTANT_MODULES = {"codecs", "string", "sys", "math", "struct"}


class ModRef:
    def __init__(self, name: str):
        self.name = name


# ----------------------------------------------------------------------------- model


class FuncInfo:
    def __init__(self, node, module: "Module", cls: "Optional[ClassInfo]"):
        self.node, self.module, self.cls = node, module, cls
        self.name = node.name
        self.decorators = [ast.unparse(d) for d in node.decorator_list]

    @property
    def qualname(self):
        return f"{self.module.short}:{self.cls.name + '.' if self.cls else ''}{self.name}"

    @property
    def kind(self):
        for d in self.decorators:
            if d in ("staticmethod", "classmethod", "property"):
                return d
            if d.endswith(".setter"):
                return "setter"
        return "method" if self.cls else "function"

    @property
    def params(self) -> List[str]:
        a = self.node.args
        return [x.arg for x in a.posonlyargs + a.args]

    @property
    def loc(self):
        return f"{self.module.relpath}:{self.node.lineno}"


class ClassInfo:
    def __init__(self, node: ast.ClassDef, module: "Module"):
        self.node, self.module, self.name = node, module, node.name
        self.methods: Dict[str, FuncInfo] = {}
        self.assigns: Dict[str, ast.AST] = {}  # class-level name -> value expr (last wins)
        self.assign_nodes: Dict[str, ast.stmt] = {}
        self.annotations: Dict[str, ast.AST] = {}
        self.decorators = [ast.unparse(d) for d in node.decorator_list]
        self.nested: Dict[str, "ClassInfo"] = {}
        for st in node.body:
            if isinstance(st, ast.ClassDef):
                self.nested[st.name] = ClassInfo(st, module)
                self.nested[st.name].outer = self
            if isinstance(st, (ast.FunctionDef, ast.AsyncFunctionDef)):
                fi = FuncInfo(st, module, self)
                if fi.kind == "setter":
                    self.methods[st.name + ".setter"] = fi
                else:
                    self.methods[st.name] = fi
            elif isinstance(st, ast.Assign) and len(st.targets) == 1 and isinstance(st.targets[0], ast.Name):
                self.assigns[st.targets[0].id] = st.value
                self.assign_nodes[st.targets[0].id] = st
            elif isinstance(st, ast.Assign) and len(st.targets) == 1 and isinstance(st.targets[0], (ast.Tuple, ast.List)) \
                    and all(isinstance(e, ast.Name) for e in st.targets[0].elts):
                # `A, B = <expr>` at class level: each name is <expr>[i]
                for i, e in enumerate(st.targets[0].elts):
                    sub = ast.Subscript(value=st.value, slice=ast.Constant(value=i), ctx=ast.Load())
                    ast.copy_location(sub, st.value)
                    ast.fix_missing_locations(sub)
                    self.assigns[e.id] = sub
                    self.assign_nodes[e.id] = st
            elif isinstance(st, ast.AnnAssign) and isinstance(st.target, ast.Name):
                self.annotations[st.target.id] = st.annotation
                if st.value is not None:
                    self.assigns[st.target.id] = st.value
                    self.assign_nodes[st.target.id] = st
        # class-body statements that UPDATE a class-level name after its assignment (a loop that fills a table, TABLE[k] = v,
        # TABLE.update(...), TABLE += ...): the initialiser alone is not the attribute's value — such a name never folds (fail closed)
        self.body_mutated: set = set()
        for st in node.body:
            if isinstance(st, (ast.FunctionDef, ast.AsyncFunctionDef, ast.ClassDef)):
                continue
            simple = isinstance(st, (ast.Assign, ast.AnnAssign)) and all(isinstance(t, (ast.Name, ast.Tuple, ast.List)) for t in (st.targets if isinstance(st, ast.Assign) else [st.target]))
            for n in ast.walk(st):
                if isinstance(n, (ast.FunctionDef, ast.AsyncFunctionDef, ast.Lambda, ast.ClassDef)):
                    continue
                root = None
                if isinstance(n, (ast.Subscript, ast.Attribute)) and isinstance(n.ctx, (ast.Store, ast.Del)):
                    root = n
                elif isinstance(n, ast.AugAssign):
                    root = n.target
                elif isinstance(n, ast.Call) and isinstance(n.func, ast.Attribute) and n.func.attr in (
                        "update", "append", "extend", "insert", "setdefault", "pop", "remove", "clear", "add", "sort", "reverse", "__setitem__", "fill", "put"):
                    root = n.func.value
                elif isinstance(n, ast.Name) and isinstance(n.ctx, ast.Store) and not simple:
                    root = n          # re-bound inside a loop / if / with of the class body
                while isinstance(root, (ast.Subscript, ast.Attribute)):
                    root = root.value
                if isinstance(root, ast.Name) and root.id in self.assigns:
                    self.body_mutated.add(root.id)

    @property
    def qualname(self):
        outer = getattr(self, "outer", None)
        return f"{self.module.short}:{(outer.name + '.') if outer else ''}{self.name}"

    @property
    def loc(self):
        return f"{self.module.relpath}:{self.node.lineno}"


class Module:
    def __init__(self, name: str, path: pathlib.Path, root: pathlib.Path):
        self.name, self.path = name, path
        self.relpath = str(path.relative_to(root)) if str(path).startswith(str(root)) else str(path)
        self.src = path.read_text()
        self.tree = ast.parse(self.src, filename=str(path))
        self.short = name[len("okdmr.dmrlib."):] if name.startswith("okdmr.dmrlib.") else name
        self.classes: Dict[str, ClassInfo] = {}
        self.functions: Dict[str, FuncInfo] = {}
        self.assigns: Dict[str, ast.AST] = {}
        self.imports: Dict[str, Tuple[str, Optional[str]]] = {}  # local -> (module, name|None)
        self.absorbed_class_stores = set()
        for st in self.tree.body:
            self._index(st)
        # function-local imports (used in the repo to break cycles) are visible for resolution too
        for n in ast.walk(self.tree):
            if isinstance(n, (ast.Import, ast.ImportFrom)):
                self._imp(n, override=False)

    def _imp(self, st, override=True):
        if isinstance(st, ast.Import):
            for a in st.names:
                loc = a.asname or a.name.split(".")[0]
                if override or loc not in self.imports:
                    self.imports[loc] = (a.name if a.asname else a.name.split(".")[0], None)
        else:
            mod = st.module or ""
            if st.level:
                base = self.name.split(".")
                base = base[: len(base) - st.level]
                mod = ".".join(base + ([mod] if mod else []))
            for a in st.names:
                loc = a.asname or a.name
                if override or loc not in self.imports:
                    self.imports[loc] = (mod, a.name)

    def _index(self, st):
        if isinstance(st, ast.ClassDef):
            self.classes[st.name] = ClassInfo(st, self)
        elif isinstance(st, (ast.FunctionDef, ast.AsyncFunctionDef)):
            self.functions[st.name] = FuncInfo(st, self, None)
        elif isinstance(st, ast.Assign) and len(st.targets) == 1 and isinstance(st.targets[0], ast.Name):
            self.assigns[st.targets[0].id] = st.value
        elif isinstance(st, ast.Assign) and len(st.targets) == 1 and isinstance(st.targets[0], (ast.Tuple, ast.List)) \
                and all(isinstance(e, ast.Name) for e in st.targets[0].elts):
            # A, B, C = x, y, z   /   A, B = some_sequence
            tg = st.targets[0].elts
            if isinstance(st.value, (ast.Tuple, ast.List)) and len(st.value.elts) == len(tg):
                for e, v in zip(tg, st.value.elts):
                    self.assigns[e.id] = v
            else:
                for i_, e in enumerate(tg):
                    self.assigns[e.id] = ast.copy_location(ast.Subscript(value=st.value, slice=ast.Constant(value=i_), ctx=ast.Load()), st.value)
        elif isinstance(st, ast.Assign) and len(st.targets) > 1 and all(isinstance(t, ast.Name) for t in st.targets):
            for t in st.targets:          # A = B = value
                self.assigns[t.id] = st.value
        elif isinstance(st, ast.AnnAssign) and isinstance(st.target, ast.Name) and st.value is not None:
            self.assigns[st.target.id] = st.value
        elif isinstance(st, (ast.Assign, ast.AnnAssign)) and getattr(st, "value", None) is not None \
                and isinstance((st.targets[0] if isinstance(st, ast.Assign) and len(st.targets) == 1 else getattr(st, "target", None)), ast.Attribute) \
                and isinstance((st.targets[0] if isinstance(st, ast.Assign) else st.target).value, ast.Name) \
                and (st.targets[0] if isinstance(st, ast.Assign) else st.target).value.id in self.classes:
            # `Class.ATTR = <expr>` at module level, after the class statement: the class attribute is what was bound last (a table
            # that needs the finished class to be computed); evaluated in the module's scope, where the class name is visible
            t = st.targets[0] if isinstance(st, ast.Assign) else st.target
            self.classes[t.value.id].assigns[t.attr] = st.value
            self.absorbed_class_stores.add(id(t))
        elif isinstance(st, (ast.Import, ast.ImportFrom)):
            self._imp(st)
        elif isinstance(st, (ast.If, ast.Try)):
            for sub in ast.iter_child_nodes(st):
                if isinstance(sub, ast.stmt):
                    self._index(sub)


ENUM_BASES = {"Enum", "IntEnum", "Flag", "IntFlag", "enum.Enum", "enum.IntEnum", "enum.Flag", "enum.IntFlag"}


class Repo:
    def __init__(self, root: str = None, include_tests: bool = False):
        self.root = pathlib.Path(root or os.environ.get("OKDMR_REPO", "/repo")).resolve()
        self.pkg = self.root / "okdmr" / "dmrlib"
        if not self.pkg.is_dir():
            raise AnalysisError(f"package directory {self.pkg} not found")
        self.modules: Dict[str, Module] = {}
        self.parse_errors: List[str] = []
        for p in sorted(self.pkg.rglob("*.py")):
            rel = p.relative_to(self.root)
            if "tests" in rel.parts and not include_tests:
                continue
            name = ".".join(rel.with_suffix("").parts)
            if name.endswith(".__init__"):
                name = name[: -len(".__init__")]
            try:
                self.modules[name] = Module(name, p, self.root)
            except SyntaxError as e:
                raise AnalysisError(f"cannot parse {rel}: {e}")
        self._cache: Dict[Tuple, Any] = {}
        self._inprogress: set = set()
        self.fold_stats = {"folded": 0, "unfoldable": 0}
        # class attributes (re)bound while a module is IMPORTED by anything but a plain top-level `Class.ATTR = expr` of the class's
        # own module (which Module._index folds into the class): inside an if / loop at module level, from another module, through
        # setattr.  The class-level initialiser then is not what the attribute holds: such an attribute never folds (fail closed).
        self.import_time_class_stores: Dict[str, set] = {}
        class_names = {c for m in self.modules.values() for c in m.classes}

        def scan(m, stmts):
            for st in stmts:
                if isinstance(st, (ast.FunctionDef, ast.AsyncFunctionDef, ast.ClassDef)):
                    continue
                for n in ast.walk(st):
                    if isinstance(n, (ast.FunctionDef, ast.AsyncFunctionDef, ast.ClassDef, ast.Lambda)):
                        continue
                    tgt = None
                    if isinstance(n, ast.Attribute) and isinstance(n.ctx, (ast.Store, ast.Del)) and isinstance(n.value, ast.Name) and id(n) not in m.absorbed_class_stores:
                        tgt = (n.value.id, n.attr)
                    elif isinstance(n, ast.Call) and isinstance(n.func, ast.Name) and n.func.id in ("setattr", "delattr") and len(n.args) >= 2 and isinstance(n.args[0], ast.Name):
                        tgt = (n.args[0].id, n.args[1].value if isinstance(n.args[1], ast.Constant) and isinstance(n.args[1].value, str) else "*")
                    if tgt is None:
                        continue
                    cname = tgt[0] if tgt[0] in m.classes else (m.imports.get(tgt[0], (None, None))[1] or "")
                    if cname in class_names:
                        self.import_time_class_stores.setdefault(cname, set()).add(tgt[1])
        for m in self.modules.values():
            scan(m, m.tree.body)

    def add_external_module(self, name: str, relpath: str) -> Module:
        """a dependency file read as DATA (parsed, never imported): searched under the repo root and in site-packages"""
        if name in self.modules:
            return self.modules[name]
        import glob
        cands = [self.root / relpath] + [pathlib.Path(p) for p in sorted(glob.glob(f"/venv/lib/python3*/site-packages/{relpath}"))]
        for c in cands:
            if c.is_file():
                m = Module(name, c, c.parents[len(pathlib.Path(relpath).parts) - 1])
                self.modules[name] = m
                return m
        raise AnalysisError(f"dependency source {relpath} not found (needed as data)")

    # ---------------------------------------------------------------- lookup helpers
    def module(self, short: str) -> Module:
        name = short if short.startswith("okdmr.") else "okdmr.dmrlib." + short
        if name not in self.modules:
            raise AnalysisError(f"anchor module {name} not found")
        return self.modules[name]

    def cls(self, short_mod: str, name: str) -> ClassInfo:
        m = self.module(short_mod)
        if name not in m.classes:
            raise AnalysisError(f"anchor class {name} not found in {m.relpath}")
        return m.classes[name]

    def func(self, short_mod: str, qual: str) -> FuncInfo:
        m = self.module(short_mod)
        if "." in qual:
            c, f = qual.split(".", 1)
            ci = self.cls(short_mod, c)
            fi = self.find_method(ci, f)
            if fi is None:
                raise AnalysisError(f"anchor method {qual} not found in {m.relpath}")
            return fi
        if qual not in m.functions:
            raise AnalysisError(f"anchor function {qual} not found in {m.relpath}")
        return m.functions[qual]

    def all_classes(self):
        for m in self.modules.values():
            for c in m.classes.values():
                yield c
                yield from c.nested.values()

    def all_functions(self):
        for m in self.modules.values():
            yield from m.functions.values()
            for c in m.classes.values():
                yield from c.methods.values()

    def digest(self, modules=None) -> str:
        h = hashlib.sha256()
        for name in sorted(modules or self.modules):
            m = self.modules[name] if isinstance(name, str) else name
            h.update(m.name.encode())
            h.update(m.src.encode())
        return h.hexdigest()[:16]

    # ---------------------------------------------------------------- name resolution
    def resolve(self, module: Module, name: str, _depth=0):
        """Resolve a module-level name to ClassInfo | FuncInfo | ('const', module, name) | ModRef | None."""
        if _depth > 10:
            return None
        if name in module.classes:
            return module.classes[name]
        if name in module.functions:
            return module.functions[name]
        if name in module.assigns:
            return ("const", module, name)
        if name in module.imports:
            mod, attr = module.imports[name]
            if attr is None:
                return ModRef(mod)
            if mod in self.modules:
                r = self.resolve(self.modules[mod], attr, _depth + 1)
                if r is not None:
                    return r
            sub = f"{mod}.{attr}"
            if sub in self.modules:
                return ModRef(sub)
            return ModRef(sub)  # external (numpy, bitarray, typing ...)
        return None

    def resolve_expr_class(self, module: Module, expr: ast.AST) -> Optional[ClassInfo]:
        """Resolve an expression naming a class (Name or dotted) to ClassInfo."""
        if isinstance(expr, ast.Name):
            r = self.resolve(module, expr.id)
            return r if isinstance(r, ClassInfo) else None
        if isinstance(expr, ast.Constant) and isinstance(expr.value, str):
            r = self.resolve(module, expr.value)
            return r if isinstance(r, ClassInfo) else None
        if isinstance(expr, ast.Attribute) and isinstance(expr.value, ast.Name):
            r = self.resolve(module, expr.value.id)
            if isinstance(r, ModRef) and r.name in self.modules:
                r2 = self.resolve(self.modules[r.name], expr.attr)
                return r2 if isinstance(r2, ClassInfo) else None
        return None

    def bases(self, ci: ClassInfo) -> List[ClassInfo]:
        out = []
        for b in ci.node.bases:
            r = self.resolve_expr_class(ci.module, b)
            if r is not None:
                out.append(r)
        return out

    def mro(self, ci: ClassInfo) -> List[ClassInfo]:
        key = ("mro", ci.qualname)
        if key in self._cache:
            return self._cache[key]
        # C3 linearisation
        def merge(seqs):
            res = []
            seqs = [list(s) for s in seqs if s]
            while seqs:
                for s in seqs:
                    h = s[0]
                    if not any(h in t[1:] for t in seqs):
                        break
                else:
                    raise AnalysisError(f"inconsistent MRO for {ci.qualname}")
                res.append(h)
                seqs = [[x for x in t if x is not h] for t in seqs]
                seqs = [t for t in seqs if t]
            return res

        bs = self.bases(ci)
        out = [ci] + merge([self.mro(b) for b in bs] + [bs])
        self._cache[key] = out
        return out

    def is_enum(self, ci: ClassInfo) -> bool:
        for c in self.mro(ci):
            for b in c.node.bases:
                if ast.unparse(b) in ENUM_BASES:
                    return True
        return False

    def find_method(self, ci: ClassInfo, name: str) -> Optional[FuncInfo]:
        for c in self.mro(ci):
            if name in c.methods:
                return c.methods[name]
        return None

    def subclasses(self, ci: ClassInfo) -> List[ClassInfo]:
        return [c for c in self.all_classes() if c is not ci and ci in self.mro(c)]

    # ---------------------------------------------------------------- constant folding (E2)
    def const(self, module: Module, name: str):
        key = ("mc", module.name, name)
        if key in self._cache:
            v = self._cache[key]
            if isinstance(v, Unfoldable):
                raise v
            return v
        if key in self._inprogress:
            raise Unfoldable(f"cyclic constant {name}")
        self._inprogress.add(key)
        try:
            v = Folder(self, module, None).ev(module.assigns[name], {})
            self.fold_stats["folded"] += 1
        except Unfoldable as e:
            self._cache[key] = e
            self.fold_stats["unfoldable"] += 1
            raise
        finally:
            self._inprogress.discard(key)
        self._cache[key] = v
        return v

    def class_attr_owner(self, ci: ClassInfo, attr: str) -> Optional[ClassInfo]:
        for c in self.mro(ci):
            if attr in c.assigns:
                return c
        return None

    def class_const(self, ci: ClassInfo, attr: str):
        """Folded value of class-level attribute `attr` (searching the MRO)."""
        owner = self.class_attr_owner(ci, attr)
        if owner is not None and attr in getattr(owner, "body_mutated", ()):
            raise Unfoldable(f"{owner.name}.{attr} is updated by later statements of the class body (a loop / item store / update call) — its value is not its initialiser")
        for c_ in self.mro(ci):
            dyn = self.import_time_class_stores.get(c_.name, ())
            if attr in dyn or "*" in dyn:
                raise Unfoldable(f"{c_.name}.{attr} is (re)bound at import time outside the class statement — its value is not the class-level initialiser")
        if owner is None:
            raise Unfoldable(f"{ci.name}.{attr} not a class-level assignment")
        key = ("cc", owner.qualname, attr)
        if key in self._cache:
            v = self._cache[key]
            if isinstance(v, Unfoldable):
                raise v
            return v
        if key in self._inprogress:
            raise Unfoldable(f"cyclic constant {owner.name}.{attr}")
        self._inprogress.add(key)
        try:
            v = Folder(self, owner.module, owner).ev(owner.assigns[attr], {})
            if self.is_enum(owner) and not attr.startswith("_"):
                v = EnumMember(owner.name, attr, v)
            self.fold_stats["folded"] += 1
        except Unfoldable as e:
            self._cache[key] = e
            self.fold_stats["unfoldable"] += 1
            raise
        finally:
            self._inprogress.discard(key)
        self._cache[key] = v
        return v

    def enum_members(self, ci: ClassInfo) -> Dict[str, EnumMember]:
        """name -> EnumMember, declaration order; aliases kept (caller decides)."""
        out = {}
        for st in ci.node.body:
            n = None
            if isinstance(st, ast.Assign) and len(st.targets) == 1 and isinstance(st.targets[0], ast.Name):
                n = st.targets[0].id
            elif isinstance(st, ast.AnnAssign) and isinstance(st.target, ast.Name) and st.value is not None:
                n = st.target.id
            if n and not n.startswith("_"):
                out[n] = self.class_const(ci, n)
        return out

    def fold_expr(self, expr: ast.AST, module: Module, cls: Optional[ClassInfo] = None, env: Optional[dict] = None):
        return Folder(self, module, cls).ev(expr, env or {})


BIN = {
    ast.Add: operator.add, ast.Sub: operator.sub, ast.Mult: operator.mul, ast.Mod: operator.mod,
    ast.FloorDiv: operator.floordiv, ast.Pow: operator.pow, ast.LShift: operator.lshift,
    ast.RShift: operator.rshift, ast.BitOr: operator.or_, ast.BitAnd: operator.and_,
    ast.BitXor: operator.xor, ast.Div: operator.truediv,
}
CMP = {
    ast.Eq: operator.eq, ast.NotEq: operator.ne, ast.Lt: operator.lt, ast.LtE: operator.le,
    ast.Gt: operator.gt, ast.GtE: operator.ge, ast.In: lambda a, b: a in b,
    ast.NotIn: lambda a, b: a not in b, ast.Is: lambda a, b: _same_object(a, b), ast.IsNot: lambda a, b: not _same_object(a, b),
}


def _same_object(a, b):
    """`a is b` for folded values: references to a class are created afresh by every lookup but denote one runtime object"""
    return a is b or (isinstance(a, ClassRef) and isinstance(b, ClassRef) and a == b)
SAFE = {
    "dict": dict, "list": list, "tuple": tuple, "range": range, "enumerate": enumerate, "zip": zip,
    "reversed": reversed, "sorted": sorted, "len": len, "bytes": bytes, "int": int, "set": set,
    "frozenset": frozenset, "abs": abs, "min": min, "max": max, "sum": sum, "bool": bool, "str": str,
    "divmod": divmod, "float": float, "bytearray": bytearray, "any": any, "all": all, "map": map, "slice": slice, "pow": pow, "filter": filter, "next": next, "iter": iter, "round": round, "hex": hex, "bin": bin, "ord": ord, "chr": chr, "isinstance": isinstance, "repr": repr,
}
MAX_STEPS = 2_000_000


class _Break(Exception):
    pass


class _Continue(Exception):
    pass


class _Return(Exception):
    def __init__(self, v):
        self.v = v


class Folder:
    """Evaluates constant expressions.  Only literals, folded constants and whitelisted pure builtins;
    repo helpers are inlined (constexpr) when every argument is itself a folded constant."""

    def __init__(self, repo: Repo, module: Module, cls: Optional[ClassInfo]):
        self.repo, self.module, self.cls = repo, module, cls
        self.steps = 0

    # -- names
    def name(self, id_: str, loc: dict):
        if id_ in loc:
            return loc[id_]
        if self.cls is not None and id_ in self.cls.assigns:
            return self.repo.class_const(self.cls, id_)
        if self.cls is not None and id_ in self.cls.methods and self.cls.methods[id_].kind == "method":
            # a class-level table may name the plain functions defined earlier in the class body (dispatch tables)
            return FuncRef(self.cls.methods[id_])
        r = self.repo.resolve(self.module, id_)
        if isinstance(r, ClassInfo):
            return ClassRef(r)
        if isinstance(r, FuncInfo):
            return FuncRef(r)
        if isinstance(r, tuple):
            return self.repo.const(r[1], r[2])
        if isinstance(r, ModRef):
            return r
        if id_ in SAFE:
            return SAFE[id_]
        if id_ in ("True", "False", "None"):
            return {"True": True, "False": False, "None": None}[id_]
        raise Unfoldable(f"name {id_}")

    def ev(self, n: ast.AST, loc: dict):
        self.steps += 1
        if self.steps > MAX_STEPS:
            raise Unfoldable("step budget exceeded")
        m = getattr(self, "ev_" + type(n).__name__, None)
        if m is None:
            raise Unfoldable(type(n).__name__)
        return m(n, loc)

    def ev_Constant(self, n, loc):
        return n.value

    def ev_Name(self, n, loc):
        return self.name(n.id, loc)

    def ev_Tuple(self, n, loc):
        return tuple(self._elts(n.elts, loc))

    def ev_List(self, n, loc):
        return self._elts(n.elts, loc)

    def ev_Set(self, n, loc):
        return set(self._elts(n.elts, loc))

    def _elts(self, elts, loc):
        out = []
        for e in elts:
            if isinstance(e, ast.Starred):
                out.extend(self.ev(e.value, loc))
            else:
                out.append(self.ev(e, loc))
        return out

    def ev_Dict(self, n, loc):
        d = {}
        for k, v in zip(n.keys, n.values):
            if k is None:
                d.update(self.ev(v, loc))
            else:
                d[self.ev(k, loc)] = self.ev(v, loc)
        return d

    def ev_UnaryOp(self, n, loc):
        v = self.ev(n.operand, loc)
        return {ast.USub: operator.neg, ast.Not: operator.not_, ast.Invert: operator.invert, ast.UAdd: operator.pos}[type(n.op)](v)

    def ev_BinOp(self, n, loc):
        l, r = self.ev(n.left, loc), self.ev(n.right, loc)
        if isinstance(l, NPArr) or isinstance(r, NPArr):
            return self._np_binop(n.op, l, r)
        if isinstance(l, BitArr) and isinstance(r, BitArr) and isinstance(n.op, ast.Add):
            return BitArr(list(l) + list(r))
        if isinstance(l, BitArr) and isinstance(n.op, ast.Mult):
            return BitArr(list(l) * r)
        try:
            return BIN[type(n.op)](l, r)
        except Exception as e:
            raise Unfoldable(f"binop {type(n.op).__name__}: {e}")

    def _np_binop(self, op, l, r):
        def ew(f, a, b):
            if isinstance(a, NPArr) and isinstance(b, NPArr):
                if a.ndim == 1:
                    return NPArr([f(x, y) for x, y in zip(a.data, b.data)])
                return NPArr([[f(x, y) for x, y in zip(ra, rb)] for ra, rb in zip(a.data, b.data)])
            if isinstance(a, NPArr):
                if a.ndim == 1:
                    return NPArr([f(x, b) for x in a.data])
                return NPArr([[f(x, b) for x in ra] for ra in a.data])
            if b.ndim == 1:
                return NPArr([f(a, x) for x in b.data])
            return NPArr([[f(a, x) for x in rb] for rb in b.data])

        if isinstance(op, ast.MatMult):
            return np_matmul(l, r)
        return ew(BIN[type(op)], l, r)

    def ev_BoolOp(self, n, loc):
        r = None
        for i, v in enumerate(n.values):
            r = self.ev(v, loc)
            if isinstance(n.op, ast.And) and not r:
                return r
            if isinstance(n.op, ast.Or) and r:
                return r
        return r

    def ev_Compare(self, n, loc):
        l = self.ev(n.left, loc)
        for op, c in zip(n.ops, n.comparators):
            r = self.ev(c, loc)
            if not CMP[type(op)](l, r):
                return False
            l = r
        return True

    def ev_IfExp(self, n, loc):
        return self.ev(n.body, loc) if self.ev(n.test, loc) else self.ev(n.orelse, loc)

    def ev_JoinedStr(self, n, loc):
        out = ""
        for v in n.values:
            if isinstance(v, ast.Constant):
                out += str(v.value)
            else:
                val = self.ev(v.value, loc)
                spec = self.ev(v.format_spec, loc) if v.format_spec is not None else ""
                if isinstance(val, (int, str, float, bytes, bool)) or val is None:
                    out += format(val, spec)
                else:
                    raise Unfoldable("fstring of non-scalar")
        return out

    def _slice(self, sl, loc):
        return slice(*(None if x is None else self.ev(x, loc) for x in (sl.lower, sl.upper, sl.step)))

    def ev_Subscript(self, n, loc):
        v = self.ev(n.value, loc)
        sl = n.slice
        if isinstance(v, NPArr):
            if isinstance(sl, ast.Tuple):
                idx = tuple(self._slice(e, loc) if isinstance(e, ast.Slice) else self.ev(e, loc) for e in sl.elts)
            elif isinstance(sl, ast.Slice):
                idx = self._slice(sl, loc)
            else:
                idx = self.ev(sl, loc)
            try:
                return v.getitem(idx)
            except Exception as e:
                raise Unfoldable(f"ndarray index: {e}")
        if isinstance(v, (ClassRef, ModRef)) or callable(v):
            raise Unfoldable("subscript of class/typing alias")
        try:
            if isinstance(sl, ast.Slice):
                r = v[self._slice(sl, loc)]
                return BitArr(r) if isinstance(v, BitArr) else r
            return v[self.ev(sl, loc)]
        except Unfoldable:
            raise
        except Exception as e:
            raise Unfoldable(f"subscript: {e!r}")

    def ev_Attribute(self, n, loc):
        base = self.ev(n.value, loc)
        a = n.attr
        if isinstance(base, ModRef):
            full = f"{base.name}.{a}"
            if base.name in self.repo.modules:
                r = self.repo.resolve(self.repo.modules[base.name], a)
                if isinstance(r, ClassInfo):
                    return ClassRef(r)
                if isinstance(r, FuncInfo):
                    return FuncRef(r)
                if isinstance(r, tuple):
                    return self.repo.const(r[1], r[2])
            elif base.name in STDLIB_CONSTANT_MODULES:
                # plain data constants of a few standard-library modules (byte order marks, digit strings, limits): read from the
                # interpreter's own standard library — never from the analysed package
                import importlib
                try:
                    val = getattr(importlib.import_module(base.name), a)
                except Exception:
                    val = None
                if isinstance(val, (bytes, str, int, float)) and not isinstance(val, bool):
                    return val
            return ModRef(full)
        if isinstance(base, ClassRef):
            ci = base.info
            if self.repo.class_attr_owner(ci, a) is not None:
                return self.repo.class_const(ci, a)
            m = self.repo.find_method(ci, a)
            if m is not None:
                return FuncRef(m, ci)
            raise Unfoldable(f"{ci.name}.{a}")
        if isinstance(base, EnumMember):
            if a == "value":
                return base.value
            if a == "name":
                return base.name
            raise Unfoldable(f"enum member attr {a}")
        if isinstance(base, Rec):
            if a in base.fields:
                return base.fields[a]
            if base.cls is not None:
                m = self.repo.find_method(base.cls, a)
                if m is not None and m.kind == "property":
                    return self.call_func(m, [base], {})
            raise Unfoldable(f"record attr {a}")
        if isinstance(base, NPArr):
            if a == "T":
                return base.T
            if a == "shape":
                return base.shape
            if a == "tolist":
                return base.tolist
            raise Unfoldable(f"ndarray attr {a}")
        if isinstance(base, dict) and a in ("items", "values", "keys", "get", "update", "setdefault", "pop", "copy"):
            return getattr(base, a)
        if isinstance(base, set) and a in ("add", "update", "discard", "union", "intersection", "difference", "copy"):
            return getattr(base, a)
        if isinstance(base, list) and not isinstance(base, BitArr) and a in ("append", "extend", "insert", "pop", "reverse", "sort"):
            return getattr(base, a)   # import-time construction of a table in a helper's local list
        if isinstance(base, (list, BitArr)) and a in ("index", "count", "copy", "tolist"):
            if a == "tolist":
                return lambda: list(base)
            return getattr(base, a)
        if isinstance(base, (bytes, str)) and a in ("hex", "upper", "lower", "encode", "decode", "startswith", "endswith", "join", "format", "fromhex"):
            return getattr(base, a)
        if base is bytes and a == "fromhex":
            return bytes.fromhex
        if base is int and a == "from_bytes":
            return int.from_bytes
        if isinstance(base, int) and a in ("to_bytes", "bit_length"):
            return getattr(base, a)
        raise Unfoldable(f"attr {a} on {type(base).__name__}")

    def _comp(self, n, loc, emit):
        def rec(i, l):
            if i == len(n.generators):
                emit(l)
                return
            g = n.generators[i]
            it = self.ev(g.iter, l)
            if isinstance(it, ClassRef):
                if not self.repo.is_enum(it.info):
                    raise Unfoldable(f"iteration over class {it.info.name}")
                seen, members = set(), []
                for m in self.repo.enum_members(it.info).values():   # aliases are not iterated (enum semantics)
                    if repr(m.value) not in seen:
                        seen.add(repr(m.value))
                        members.append(m)
                it = members
            try:
                it = list(it)
            except TypeError:
                raise Unfoldable(f"iteration over {type(it).__name__}")
            for item in it:
                l2 = dict(l)
                self.bind(g.target, item, l2)
                if all(self.ev(c, l2) for c in g.ifs):
                    rec(i + 1, l2)

        rec(0, loc)

    def ev_ListComp(self, n, loc):
        out = []
        self._comp(n, loc, lambda l: out.append(self.ev(n.elt, l)))
        return out

    def ev_GeneratorExp(self, n, loc):
        return GenList(self.ev_ListComp(n, loc))

    def ev_SetComp(self, n, loc):
        out = set()
        self._comp(n, loc, lambda l: out.add(self.ev(n.elt, l)))
        return out

    def ev_DictComp(self, n, loc):
        out = {}
        self._comp(n, loc, lambda l: out.__setitem__(self.ev(n.key, l), self.ev(n.value, l)))
        return out

    def ev_Lambda(self, n, loc):
        raise Unfoldable("lambda")

    def ev_Call(self, n, loc):
        fn_txt = ast.unparse(n.func)
        args = self._elts(n.args, loc)
        kw = {}
        for k in n.keywords:
            if k.arg is None:
                kw.update(self.ev(k.value, loc))
            else:
                kw[k.arg] = self.ev(k.value, loc)
        # numpy / bitarray constructors and the handful of numpy operations used at class level
        f = None
        try:
            f = self.ev(n.func, loc)
        except Unfoldable:
            f = None
        if isinstance(f, ModRef):
            return self.external_call(f.name, args, kw)
        if isinstance(f, ClassRef):
            return self.construct(f.info, args, kw)
        if isinstance(f, FuncRef):
            a = list(args)
            if f.info.kind == "classmethod":
                a = [ClassRef(f.bound_cls or f.info.cls)] + a
            return self.call_func(f.info, a, kw)
        if f is next and args and isinstance(args[0], GenList):
            # next(<generator expression>[, default]): the first element the generator would produce
            if args[0]:
                return args[0][0]
            if len(args) > 1:
                return args[1]
            raise Unfoldable(f"call {fn_txt}: StopIteration")
        if callable(f):
            if f in (map, filter) and args and not callable(args[0]) and args[0] is not None:
                # map / filter with a function of the analysed program or of a library that is not executed here
                raise Unfoldable(f"call {fn_txt}: the function argument is not a folded builtin")
            try:
                r = f(*args, **kw)
                if isinstance(r, (range, enumerate, zip, reversed, map, filter)) or type(r).__name__ in ("dict_items", "dict_values", "dict_keys"):
                    return list(r)
            except Unfoldable:
                raise
            except Exception as e:
                raise Unfoldable(f"call {fn_txt}: {e!r}")
            return r
        raise Unfoldable(f"call {fn_txt}")

    def external_call(self, name: str, args, kw):
        if name == "struct.Struct" and len(args) == 1 and isinstance(args[0], str):
            return StructObj(args[0])
        if name == "types.MappingProxyType" and len(args) == 1 and isinstance(args[0], dict):
            return args[0]   # read-only view of a constant table: folded as the table
        if name in ("bitarray.frozenbitarray", "frozenbitarray") and args:
            return self.external_call("bitarray.bitarray", args, kw)
        if name in ("numpy.array", "numpy.asarray"):
            v = args[0]
            if isinstance(v, NPArr):
                return NPArr(v.tolist())
            return NPArr(v)
        if name in ("bitarray.bitarray", "bitarray"):
            v = args[0] if args else []
            if isinstance(v, str):
                return BitArr([int(c) for c in v])
            if isinstance(v, int):
                raise Unfoldable("bitarray(n) is uninitialised")
            b = BitArr([int(bool(x)) for x in v])
            return b
        if name == "numpy.transpose":
            return args[0].T
        if name in ("numpy.identity", "numpy.eye"):
            k = args[0]
            m = kw.get("M", args[1] if len(args) > 1 and isinstance(args[1], int) else None) or k
            return NPArr([[1 if i == j else 0 for j in range(m)] for i in range(k)])
        if name == "numpy.ones":
            shp = args[0] if args else kw.get("shape")
            if isinstance(shp, int):
                return NPArr([1] * shp)
            return NPArr([[1] * shp[1] for _ in range(shp[0])])
        if name in ("numpy.hstack", "numpy.column_stack"):
            parts = [p if isinstance(p, NPArr) else NPArr(p) for p in args[0]]
            if parts[0].ndim == 1:
                return NPArr(sum((p.data for p in parts), []))
            return NPArr([sum((p.data[i] for p in parts), []) for i in range(parts[0].shape[0])])
        if name in ("numpy.vstack", "numpy.row_stack"):
            parts = [p if isinstance(p, NPArr) else NPArr(p) for p in args[0]]
            return NPArr(sum((p.tolist() if p.ndim == 2 else [p.tolist()] for p in parts), []))
        if name == "bitarray.util.zeros":
            return BitArr([0] * args[0])
        if name == "numpy.zeros":
            shp = args[0] if args else kw.get("shape")
            if isinstance(shp, int):
                return NPArr([0] * shp)
            return NPArr([[0] * shp[1] for _ in range(shp[0])])
        if name == "numpy.concatenate":
            parts = [p if isinstance(p, NPArr) else NPArr(p) for p in args[0]]
            axis = kw.get("axis", args[1] if len(args) > 1 else 0)
            if axis == 1:
                return NPArr([sum((p.data[i] for p in parts), []) for i in range(parts[0].shape[0])])
            if parts[0].ndim == 1:
                return NPArr(sum((p.data for p in parts), []))
            return NPArr(sum((p.tolist() for p in parts), []))
        if name in ("numpy.dot", "numpy.matmul"):
            return np_matmul(args[0], args[1])
        if name == "bitarray.util.int2ba":
            v, length = args[0], kw.get("length", args[1] if len(args) > 1 else None)
            bits = [int(c) for c in bin(v)[2:]]
            if length is not None:
                if len(bits) > length:
                    raise Unfoldable("int2ba overflow")
                bits = [0] * (length - len(bits)) + bits
            b = BitArr(bits)
            if kw.get("endian", "big") == "little":
                b = BitArr(bits[::-1])
            return b
        if name == "bitarray.util.ba2int":
            return int("".join(str(x) for x in args[0]) or "0", 2)
        if name.startswith("typing.") or name.startswith("enum."):
            raise Unfoldable(f"typing/enum helper {name}")
        raise Unfoldable(f"external call {name}")

    def construct(self, ci: ClassInfo, args, kw):
        repo = self.repo
        if repo.is_enum(ci):
            if len(args) == 1 and not kw:
                for mem in repo.enum_members(ci).values():
                    if mem.value == args[0]:
                        return mem
            raise Unfoldable(f"enum lookup {ci.name}({args})")
        # dataclass or plain keyword-record class
        fields: Dict[str, Any] = {}
        is_dc = any(d.startswith("dataclass") for d in ci.decorators)
        init = repo.find_method(ci, "__init__")
        if is_dc and init is None:
            names = []
            for c in reversed(repo.mro(ci)):
                for st in c.node.body:
                    if isinstance(st, ast.AnnAssign) and isinstance(st.target, ast.Name):
                        if st.target.id not in names:
                            names.append(st.target.id)
                        if st.value is not None:
                            fields[st.target.id] = Folder(repo, c.module, c).ev(st.value, {})
            for nme, v in zip(names, args):
                fields[nme] = v
            fields.update(kw)
            missing = [x for x in names if x not in fields]
            if missing:
                raise Unfoldable(f"dataclass {ci.name} missing {missing}")
            rec = Rec(ci.name, fields, ci)
            post = repo.find_method(ci, "__post_init__")
            if post is not None:
                self.run_post_init(post, rec)
            return rec
        if init is not None:
            a = init.node.args
            params = [x.arg for x in a.posonlyargs + a.args][1:]
            defaults = a.defaults
            dmap = {}
            for p, d in zip(params[len(params) - len(defaults):], defaults):
                dmap[p] = d
            for p, v in zip(params, args):
                fields[p] = v
            fields.update(kw)
            for p in params:
                if p not in fields:
                    if p in dmap:
                        try:
                            fields[p] = Folder(repo, init.module, None).ev(dmap[p], {})
                        except Unfoldable:
                            fields[p] = None
                    else:
                        raise Unfoldable(f"{ci.name}() missing {p}")
            return Rec(ci.name, fields, ci)
        raise Unfoldable(f"construct {ci.name}")

    def run_post_init(self, post: FuncInfo, rec: Rec):
        """Model `object.__setattr__(self, "x", <expr>)` under foldable `if` tests (frozen dataclass idiom)."""
        loc = {post.params[0]: rec}

        def run(stmts):
            for st in stmts:
                if isinstance(st, ast.If):
                    run(st.body if self.ev(st.test, loc) else st.orelse)
                elif isinstance(st, ast.Expr) and isinstance(st.value, ast.Call) and ast.unparse(st.value.func) == "object.__setattr__":
                    a = st.value.args
                    rec.fields[self.ev(a[1], loc)] = self.ev(a[2], loc)
                elif isinstance(st, ast.Expr) and isinstance(st.value, ast.Constant):
                    pass
                elif isinstance(st, ast.Pass):
                    pass
                else:
                    raise Unfoldable(f"__post_init__ statement {type(st).__name__}")

        run(post.node.body)

    # -- constexpr inlining of a repo function on constant arguments
    def call_func(self, fi: FuncInfo, args, kw):
        a = fi.node.args
        params = [x.arg for x in a.posonlyargs + a.args]
        loc = {}
        for p, v in zip(params, args):
            loc[p] = v
        for k, v in kw.items():
            loc[k] = v
        defaults = a.defaults
        for p, d in zip(params[len(params) - len(defaults):], defaults):
            if p not in loc:
                loc[p] = Folder(self.repo, fi.module, None).ev(d, {})
        missing = [p for p in params if p not in loc]
        if missing:
            raise Unfoldable(f"call {fi.qualname}: missing {missing}")
        sub = Folder(self.repo, fi.module, None)
        sub.steps = self.steps
        try:
            sub.exec_block(fi.node.body, loc)
        except _Return as r:
            self.steps = sub.steps
            return r.v
        self.steps = sub.steps
        return None

    def exec_block(self, stmts, loc):
        for st in stmts:
            self.steps += 1
            if self.steps > MAX_STEPS:
                raise Unfoldable("step budget exceeded")
            if isinstance(st, ast.Return):
                raise _Return(self.ev(st.value, loc) if st.value is not None else None)
            elif isinstance(st, ast.Assign):
                v = self.ev(st.value, loc)
                for t in st.targets:
                    self.bind(t, v, loc)
            elif isinstance(st, ast.AnnAssign):
                if st.value is not None:
                    self.bind(st.target, self.ev(st.value, loc), loc)
            elif isinstance(st, ast.AugAssign):
                if not isinstance(st.target, ast.Name):
                    raise Unfoldable("augassign target")
                loc[st.target.id] = BIN[type(st.op)](loc[st.target.id], self.ev(st.value, loc))
            elif isinstance(st, ast.If):
                self.exec_block(st.body if self.ev(st.test, loc) else st.orelse, loc)
            elif isinstance(st, ast.For):
                broke = False
                for item in self.ev(st.iter, loc):
                    self.bind(st.target, item, loc)
                    try:
                        self.exec_block(st.body, loc)
                    except _Break:
                        broke = True
                        break
                    except _Continue:
                        continue
                if not broke:
                    self.exec_block(st.orelse, loc)
            elif isinstance(st, ast.While):
                broke = False
                while self.ev(st.test, loc):
                    self.steps += 1
                    if self.steps > MAX_STEPS:
                        raise Unfoldable("step budget exceeded")
                    try:
                        self.exec_block(st.body, loc)
                    except _Break:
                        broke = True
                        break
                    except _Continue:
                        continue
                if not broke:
                    self.exec_block(st.orelse, loc)
            elif isinstance(st, ast.Break):
                raise _Break()
            elif isinstance(st, ast.Continue):
                raise _Continue()
            elif isinstance(st, ast.Expr):
                if isinstance(st.value, ast.Constant):
                    continue
                self.ev(st.value, loc)
            elif isinstance(st, ast.Assert):
                if not self.ev(st.test, loc):
                    raise Unfoldable("assert fails at fold time")
            elif isinstance(st, ast.Pass):
                pass
            else:
                raise Unfoldable(f"statement {type(st).__name__} in constexpr function")

    def bind(self, t, v, loc):
        if isinstance(t, ast.Name):
            loc[t.id] = v
        elif isinstance(t, (ast.Tuple, ast.List)):
            v = list(v)
            if len(v) != len(t.elts):
                raise Unfoldable("unpack arity")
            for e, x in zip(t.elts, v):
                self.bind(e, x, loc)
        elif isinstance(t, ast.Subscript):
            base = self.ev(t.value, loc)
            idx = self.ev(t.slice, loc)
            try:
                base[idx] = v
            except Exception as e:
                raise Unfoldable(f"subscript store: {e!r}")
        else:
            raise Unfoldable("bind target")


def np_matmul(a, b):
    A = a.data if isinstance(a, NPArr) else a
    B = b.data if isinstance(b, NPArr) else b
    a2 = bool(A) and isinstance(A[0], list)
    b2 = bool(B) and isinstance(B[0], list)
    if a2 and b2:
        return NPArr([[sum(x * y for x, y in zip(r, c)) for c in zip(*B)] for r in A])
    if a2:
        return NPArr([sum(x * y for x, y in zip(r, B)) for r in A])
    if b2:
        return NPArr([sum(x * y for x, y in zip(A, c)) for c in zip(*B)])
    return sum(x * y for x, y in zip(A, B))
