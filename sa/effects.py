"""Alias / mutation-effect analysis over the syntax tree of the whole library (used by C19).

Abstract value of an expression: (own, reach, kind, typ)
  own    origins the object itself may be            reach   origins of anything reachable from it (own <= reach)
  kind   'imm' | 'mut' | 'np' | '?'                   typ     ClassInfo of the object when it is known
Origins:  ('P', name)  the object passed as parameter `name` of the function under analysis
          ('S', what)  an object that lives as long as the process: class-level / module-level mutable value,
                       the value of a mutable default argument, the cached result of an lru_cache function.
The walk is flow-sensitive inside a function (rebinding a name to a private copy is seen), joins at branches, runs loop
bodies twice, and is interprocedural through per-function summaries (which parameters may be mutated in place, what the
result may alias) iterated to a fixpoint over the resolved call graph.  In-place operations are: subscript / slice
stores, `del x[i]`, augmented assignment on a non-immutable object, the mutating methods of list / dict / set /
bitarray / bytearray / numpy arrays, attribute stores, and calls of repository functions whose summary mutates the
corresponding parameter."""
from __future__ import annotations

import ast
from typing import Dict, List, Optional, Set, Tuple

from .model import AnalysisError, BitArr, ClassInfo, FuncInfo, ModRef, NPArr, Rec, Unfoldable

E = frozenset()

MUTATORS = {
    "append", "extend", "insert", "pop", "remove", "reverse", "sort", "clear", "update", "setdefault", "popitem", "add", "discard",
    "invert", "setall", "bytereverse", "frombytes", "fill", "put", "itemset", "resize", "byteswap", "pack", "fromfile", "fromlist",
    "fromstring", "fromunicode", "intersection_update", "difference_update", "symmetric_difference_update", "__setitem__", "__delitem__",
    "__iadd__", "__ixor__", "__iand__", "__ior__", "appendleft", "popleft", "extendleft", "rotate",
}
GROWERS = {"append", "extend", "insert", "update", "add", "setdefault", "appendleft", "extendleft", "__setitem__"}
EXTERNAL_MUTATORS = {  # external function -> index of the mutated positional argument
    "random.shuffle": 0, "numpy.copyto": 0, "numpy.put": 0, "numpy.place": 0, "numpy.fill_diagonal": 0, "numpy.putmask": 0,
    "struct.pack_into": 1, "heapq.heappush": 0, "heapq.heappop": 0, "heapq.heapify": 0, "bisect.insort": 0, "shutil.copyfileobj": 1,
}
SHALLOW_COPIES = {"copy.copy", "list", "dict", "set", "sorted", "reversed", "tuple", "frozenset", "collections.OrderedDict", "collections.deque", "enumerate", "zip", "filter", "map", "iter"}
FLAT_COPIES = {  # results share nothing with their arguments
    "copy.deepcopy", "bytes", "bytearray", "bitarray.bitarray", "bitarray", "int", "str", "bool", "float", "len", "hex", "bin", "ord", "chr", "abs", "sum", "min", "max",
    "round", "divmod", "pow", "repr", "hash", "isinstance", "issubclass", "type", "id", "range", "format", "any", "all", "bitarray.util.ba2int", "bitarray.util.int2ba",
    "bitarray.util.ba2hex", "bitarray.util.hex2ba", "bitarray.util.zeros", "numpy.array", "numpy.zeros", "numpy.ones", "numpy.arange", "numpy.concatenate",
    "numpy.array_equal", "numpy.dot", "numpy.matmul", "numpy.mod", "numpy.copy", "numpy.append", "numpy.packbits", "numpy.unpackbits", "numpy.sum",
    "int.from_bytes", "int.to_bytes", "bytes.fromhex", "struct.pack", "struct.unpack", "math.ceil", "math.floor", "array.array",
}
NP_VIEWS = {"numpy.asarray", "numpy.reshape", "numpy.ravel", "numpy.transpose", "numpy.flip", "numpy.squeeze", "numpy.atleast_1d", "numpy.atleast_2d", "memoryview",
            "numpy.frombuffer", "numpy.ascontiguousarray", "numpy.asanyarray", "numpy.flipud", "numpy.fliplr", "numpy.swapaxes", "numpy.rollaxis", "numpy.moveaxis"}
NP_VIEW_METHODS = {"reshape", "ravel", "view", "transpose", "squeeze", "swapaxes", "T", "flat", "real"}
FLAT_METHODS = {"tobytes", "tolist", "hex", "decode", "encode", "to01", "count", "index", "find", "search", "any", "all", "length", "nbytes", "buffer_info", "endian",
                "copy", "__copy__", "astype", "flatten", "dot", "sum", "items", "keys", "values", "get", "join", "split", "strip", "upper", "lower", "format",
                "startswith", "endswith", "replace", "zfill", "rjust", "ljust", "to_bytes", "bit_length", "strftime", "isoformat", "total_seconds", "unpack", "itersearch"}
# of FLAT_METHODS these still hand out the elements / values of the receiver
ELEMENT_METHODS = {"copy", "__copy__", "items", "values", "get", "keys"}
IMM_ANN = {"int", "str", "bytes", "bool", "float", "tuple", "Tuple", "None", "complex", "frozenset", "Literal", "type", "Type", "Callable", "date", "time", "datetime"}
MUT_ANN = {"bitarray", "bytearray", "list", "List", "dict", "Dict", "set", "Set", "deque", "Deque", "MutableSequence", "MutableMapping", "Any", "object"}
NP_ANN = {"ndarray", "array", "NDArray"}
FLAT_ANN = {"bitarray", "bytearray", "frozenbitarray"}   # mutable buffers whose ELEMENTS are immutable scalars (kind "flat")
CLOCK = {
    "time.time", "time.time_ns", "time.monotonic", "time.monotonic_ns", "time.perf_counter", "time.localtime", "time.gmtime", "time.strftime", "time.ctime",
    "datetime.datetime.now", "datetime.datetime.utcnow", "datetime.datetime.today", "datetime.date.today", "datetime.now", "datetime.utcnow", "datetime.today",
    "date.today", "random.random", "random.randint", "random.randrange", "random.choice", "random.choices", "random.shuffle", "random.getrandbits", "random.sample",
    "random.uniform", "random.randbytes", "secrets.token_bytes", "secrets.token_hex", "secrets.randbelow", "secrets.randbits", "secrets.choice", "os.urandom",
    "uuid.uuid4", "uuid.uuid1", "uuid4", "uuid1", "os.getpid", "numpy.random.rand", "numpy.random.randint", "numpy.random.random",
}


class Val:
    """fields: attr -> Val for objects whose layout is known locally (constructed here / shallow copies / local stores);
    fdef: the value of every attribute not listed in `fields` (None: fall back to the collapsed `reach`)"""
    __slots__ = ("own", "reach", "kind", "typ", "fields", "fdef")

    def __init__(self, own=E, reach=E, kind="?", typ=None, fields=None, fdef=None):
        self.own, self.reach, self.kind, self.typ = frozenset(own), frozenset(own) | frozenset(reach), kind, typ
        self.fields, self.fdef = fields, fdef

    def join(self, o: "Val") -> "Val":
        if self is o:
            return self
        k = self.kind if self.kind == o.kind else ("?" if "imm" in (self.kind, o.kind) or "cls" in (self.kind, o.kind) else _kjoin(self.kind, o.kind))
        fields = fdef = None
        if self.fields is not None and o.fields is not None:
            fields = {}
            for a in set(self.fields) | set(o.fields):
                x = self.fields.get(a) or self.fdef
                y = o.fields.get(a) or o.fdef
                if x is None or y is None:
                    fields = None
                    break
                fields[a] = x.join(y)
            if fields is not None:
                fdef = self.fdef.join(o.fdef) if (self.fdef is not None and o.fdef is not None) else None
                if fdef is None and (self.fdef is not None or o.fdef is not None):
                    fields = None
        return Val(self.own | o.own, self.reach | o.reach, k, self.typ if self.typ is o.typ else _lca(self.typ, o.typ), fields, fdef)

    def with_field(self, attr, v):
        f = dict(self.fields or {})
        f[attr] = v
        return Val(self.own, self.reach | v.reach, self.kind, self.typ, f, self.fdef)


_REPO = [None]


def _lca(a, b):
    """least common ancestor class of two classes (None if unknown / unrelated)"""
    repo = _REPO[0]
    if a is None or b is None or repo is None:
        return None
    mb = repo.mro(b)
    return next((c for c in repo.mro(a) if c in mb), None)


def _kjoin(a, b):
    if a == b:
        return a
    if {a, b} == {"cont", "mut"}:
        return "mut"
    if "np" in (a, b):
        return "np"
    if "flat" in (a, b):
        return "mut" if "mut" in (a, b) else "?"
    if "mut" in (a, b):
        return "mut"
    return "?"


FRESH_IMM = Val(E, E, "imm")
FRESH = Val(E, E, "?")


class Event:
    __slots__ = ("fi", "line", "origin", "how", "via", "node", "fuzzy", "ctx")

    def __init__(self, fi, line, origin, how, via=(), node=None, fuzzy=False, ctx=()):
        self.fi, self.line, self.origin, self.how, self.via, self.node, self.fuzzy, self.ctx = fi, line, origin, how, tuple(via), node, fuzzy, ctx

    def key(self):
        return (self.fi.qualname, self.origin, self.how, self.via)

    def __repr__(self):
        return f"{self.fi.qualname}:{self.line} {self.how} on {self.origin}" + (f" via {' <- '.join(self.via)}" if self.via else "") + (" [receiver class unresolved]" if self.fuzzy else "")


class Summary:
    def __init__(self):
        self.mut: Dict[str, Dict[Tuple[str, tuple], bool]] = {}   # param -> {(how, via chain): fuzzy}: one witness per distinct operation (an exact witness replaces a fuzzy one)
        self.ret_own: Set = set()      # param names / S origins the result may BE
        self.ret_reach: Set = set()    # ... may reach
        self.grow: Dict[str, Set] = {}  # param -> origins stored into it
        self.p2f: Dict[str, Set] = {}        # param -> {(class qualname, attr)} fields the argument (or something reachable from it) is stored in
        self.fieldmap: Dict[str, Set] = {}   # (constructors) attribute of self -> param names / S origins that flow into it
        self.ret_kind = None
        self.ret_typ = "unset"

    def snapshot(self):
        return (tuple(sorted((k, tuple(sorted((h, f) for (h, _), f in v.items()))) for k, v in self.mut.items())), tuple(sorted(map(repr, self.ret_own))), tuple(sorted(map(repr, self.ret_reach))),
                tuple(sorted((k, tuple(sorted(map(repr, v)))) for k, v in self.grow.items())), tuple(sorted((k, tuple(sorted(map(repr, v)))) for k, v in self.fieldmap.items())), tuple(sorted((k, tuple(sorted(v))) for k, v in self.p2f.items())), self.ret_kind, getattr(self.ret_typ, "qualname", self.ret_typ))


def ann_names(ann: Optional[ast.AST]) -> Set[str]:
    out = set()
    if ann is None:
        return out
    for n in ast.walk(ann):
        if isinstance(n, ast.Name):
            out.add(n.id)
        elif isinstance(n, ast.Attribute):
            out.add(n.attr)
        elif isinstance(n, ast.Constant) and isinstance(n.value, str):
            out.add(n.value.split(".")[-1].split("[")[0])
    return out - {"Optional", "Union", "Final", "ClassVar", "typing", "numpy", "np"}


def is_mutable_default(expr: ast.AST) -> bool:
    if isinstance(expr, (ast.Constant, ast.Tuple, ast.Lambda, ast.JoinedStr)):
        return False
    if isinstance(expr, ast.UnaryOp):
        return is_mutable_default(expr.operand)
    if isinstance(expr, (ast.Name, ast.Attribute)):
        return False   # named constants / enum members (mutable module-level objects are caught as shared state where they are defined)
    if isinstance(expr, ast.BinOp):
        return is_mutable_default(expr.left) or is_mutable_default(expr.right)
    if isinstance(expr, ast.Call):
        fn = ast.unparse(expr.func)
        if fn in ("bytes", "int", "str", "float", "bool", "tuple", "frozenset", "bytes.fromhex", "object"):
            return False
        return True
    return True   # list / dict / set displays, comprehensions ...


class Effects:
    def __init__(self, repo, scope_prefixes=None):
        self.repo = repo
        _REPO[0] = repo
        self.funcs: List[FuncInfo] = list(repo.all_functions())
        self.summ: Dict[str, Summary] = {f.qualname: Summary() for f in self.funcs}
        self._imm_elem_cache: Dict = {}
        self.by_name: Dict[str, List[FuncInfo]] = {}
        for f in self.funcs:
            self.by_name.setdefault(f.name, []).append(f)
        self.field_store: Dict[Tuple[str, str], Set] = {}   # (class qualname, attr) -> S origins stored there
        self.field_by_attr: Dict[str, Set] = {}
        self.field_typ: Dict[Tuple[str, str], object] = {}    # (class qualname, attr) -> ClassInfo | 'top'
        self.inst_fields: Dict[str, Set[str]] = {}             # class qualname -> attrs assigned through self.<attr> = ...
        self.events: Dict[tuple, Event] = {}
        self.calls: Dict[str, Set[str]] = {}                  # call graph: caller qualname -> callee qualnames / 'ext:<dotted>'
        self.call_sites: Dict[Tuple[str, str], int] = {}
        self.defaults: List[Tuple[FuncInfo, str, ast.AST]] = []
        self.cached: Set[str] = set()
        self.unresolved_calls = 0
        self.resolved_calls = 0
        self.ctx_summ: Dict[tuple, Summary] = {}    # (qualname, consts) -> summary of the function with flag parameters fixed
        self.ctx_funcs: Dict[tuple, FuncInfo] = {}
        self.flag_params: Dict[str, Set[str]] = {}   # qualname -> parameters that are tested by an `if` of the function
        self._collect_static()

    # ------------------------------------------------------------------ static facts
    def _collect_static(self):
        for f in self.funcs:
            if any(d.split("(")[0].split(".")[-1] in ("lru_cache", "cache", "cached_property") for d in f.decorators):
                self.cached.add(f.qualname)
            a = f.node.args
            pos = a.posonlyargs + a.args
            for p, d in zip(pos[len(pos) - len(a.defaults):], a.defaults):
                if is_mutable_default(d):
                    self.defaults.append((f, p.arg, d))
            for p, d in zip(a.kwonlyargs, a.kw_defaults):
                if d is not None and is_mutable_default(d):
                    self.defaults.append((f, p.arg, d))
            pnames = {p.arg for p in pos + a.kwonlyargs}
            stored = {t.id for n in ast.walk(f.node) if isinstance(n, (ast.Assign, ast.AugAssign, ast.AnnAssign, ast.For, ast.NamedExpr))
                      for t in ast.walk(n.targets[0] if isinstance(n, ast.Assign) else n.target) if isinstance(t, ast.Name) and isinstance(t.ctx, ast.Store)}
            flags = set()
            for n in ast.walk(f.node):
                if isinstance(n, (ast.If, ast.IfExp)):
                    for m in ast.walk(n.test):
                        if isinstance(m, ast.Name) and m.id in pnames and m.id not in stored:
                            flags.add(m.id)
            if flags:
                self.flag_params[f.qualname] = flags
            if f.cls is not None:
                for n in ast.walk(f.node):
                    if isinstance(n, (ast.Assign, ast.AnnAssign, ast.AugAssign)):
                        for t in (n.targets if isinstance(n, ast.Assign) else [n.target]):
                            for tt in ast.walk(t):
                                if isinstance(tt, ast.Attribute) and isinstance(tt.value, ast.Name) and tt.value.id == "self" and isinstance(tt.ctx, ast.Store):
                                    self.inst_fields.setdefault(f.cls.qualname, set()).add(tt.attr)

    def default_origin(self, f: FuncInfo, p: str):
        return ("S", f"default of {f.qualname}({p})")

    def immutable_elements(self, origin) -> bool:
        """is the origin a class-level container annotated (Dict[int, SomeEnum], Tuple[int, ...], List[str] ...) to hold only immutable
        element types — builtin scalars, tuples, enumeration classes of the repository?"""
        if not (isinstance(origin, tuple) and origin[0] == "S" and "." in origin[1] and ":" in origin[1]):
            return False
        key = ("imm-elems", origin[1])
        if key in self._imm_elem_cache:
            return self._imm_elem_cache[key]
        res = False
        clsq, attr = origin[1].rsplit(".", 1)
        ci = next((c for c in self.repo.all_classes() if c.qualname == clsq), None)
        ann = ci.annotations.get(attr) if ci is not None else None
        if ann is not None:
            names = ann_names(ann) - {"Dict", "dict", "List", "list", "Tuple", "tuple", "Set", "set", "FrozenSet", "frozenset", "Sequence", "Mapping", "Optional", "Union", "Final", "ClassVar"}
            enums = {c.name for c in self.repo.all_classes() if self.repo.is_enum(c)}
            res = bool(names) and all(n_ in IMM_ANN or n_ in enums for n_ in names)
        self._imm_elem_cache[key] = res
        return res

    def class_attr_origin(self, ci: ClassInfo, attr: str) -> Optional[Val]:
        """class-level attribute looked up through the MRO: None if there is none; a Val (shared origin if mutable)"""
        owner = self.repo.class_attr_owner(ci, attr)
        if owner is None or attr in owner.methods:
            return None
        expr = owner.assigns.get(attr)
        if expr is None:
            return None
        k = self.static_kind(expr, owner)
        if k == "imm":
            return FRESH_IMM
        o = ("S", f"{owner.qualname}.{attr}")
        typ = self.repo.resolve_expr_class(owner.module, expr.func) if isinstance(expr, ast.Call) else None
        return Val({o}, {o}, k, typ)

    def static_kind(self, expr: ast.AST, ci: Optional[ClassInfo] = None, module=None) -> str:
        if isinstance(expr, ast.Constant) or isinstance(expr, (ast.Tuple, ast.JoinedStr, ast.Compare, ast.Lambda)):
            if isinstance(expr, ast.Tuple) and any(self.static_kind(e, ci, module) != "imm" for e in expr.elts):
                return "mut"
            return "imm"
        if isinstance(expr, ast.UnaryOp):
            return self.static_kind(expr.operand, ci, module)
        if isinstance(expr, (ast.Dict, ast.List, ast.Set, ast.ListComp, ast.DictComp, ast.SetComp)):
            return "cont"
        if isinstance(expr, ast.BinOp):
            l, r = self.static_kind(expr.left, ci, module), self.static_kind(expr.right, ci, module)
            return "imm" if l == r == "imm" else _kjoin(l, r)
        if isinstance(expr, ast.Call):
            fn = ast.unparse(expr.func)
            last = fn.split(".")[-1]
            if fn in ("int", "str", "bytes", "float", "bool", "tuple", "frozenset", "len", "bytes.fromhex", "range", "re.compile", "logging.getLogger", "TypeVar", "struct.Struct", "object"):
                return "imm"
            if fn.startswith(("numpy.", "np.")):
                return "np"
            mod = (ci.module if ci is not None else module)
            if mod is not None:
                c = self.repo.resolve_expr_class(mod, expr.func)
                if c is not None and self.repo.is_enum(c):
                    return "imm"
            if last in ("time", "date", "timedelta", "datetime"):
                return "imm"
            return "mut"
        if isinstance(expr, (ast.Name, ast.Attribute)):
            return "imm"   # alias of another constant / enum member: the defining site is analysed on its own
        return "mut"

    # ------------------------------------------------------------------ driver
    def run(self, max_rounds=12):
        for rnd in range(max_rounds):
            before = {q: s.snapshot() for q, s in self.summ.items()}
            fs_before = ({k: frozenset(v) for k, v in self.field_store.items()}, {k: getattr(v, "qualname", v) for k, v in self.field_typ.items()})
            for f in self.funcs:
                FuncWalk(self, f).run()
            ctx_before = {k: v.snapshot() for k, v in self.ctx_summ.items()}
            for key in list(self.ctx_summ):
                FuncWalk(self, self.ctx_funcs[key], key[1]).run()
            if ctx_before != {k: v.snapshot() for k, v in self.ctx_summ.items()}:
                continue
            if before == {q: s.snapshot() for q, s in self.summ.items()} and fs_before == ({k: frozenset(v) for k, v in self.field_store.items()}, {k: getattr(v, "qualname", v) for k, v in self.field_typ.items()}):
                self.rounds = rnd + 1
                return self
        raise AnalysisError("effect summaries did not reach a fixpoint")

    def record(self, ev: Event):
        old = self.events.get(ev.key())
        if old is None or (old.fuzzy and not ev.fuzzy):
            self.events[ev.key()] = ev

    # ------------------------------------------------------------------ call graph queries
    def reaches(self, start: str, targets: Set[str], limit=100000):
        """shortest call path from function `start` to any node in `targets` (BFS over the resolved call graph)"""
        seen = {start: None}
        queue = [start]
        while queue:
            cur = queue.pop(0)
            for nxt in sorted(self.calls.get(cur, ())):
                if nxt in seen:
                    continue
                seen[nxt] = cur
                if nxt in targets:
                    path = [nxt]
                    while seen[path[-1]] is not None:
                        path.append(seen[path[-1]])
                    return list(reversed(path))
                queue.append(nxt)
        return None


class FuncWalk:
    def __init__(self, eff: Effects, fi: FuncInfo, consts=()):
        self.eff, self.fi, self.repo = eff, fi, eff.repo
        self.consts = dict(consts)          # parameter -> known constant (bool / None) in this calling context
        self.summ = eff.summ[fi.qualname] if not consts else eff.ctx_summ[(fi.qualname, tuple(sorted(self.consts.items(), key=repr)))]
        self.mod = fi.module
        self.fuzzy_now = False

    # ---------------------------------------------------------------- parameters
    def param_val(self, arg: ast.arg, idx: int) -> Val:
        name = arg.arg
        names = ann_names(arg.annotation)
        kind = "?"
        typ = None
        if idx == 0 and self.fi.cls is not None and self.fi.kind in ("method", "property", "setter"):
            return Val({("P", name)}, E, "mut", self.fi.cls, {}, None)
        if idx == 0 and self.fi.cls is not None and self.fi.kind == "classmethod":
            return Val(E, E, "cls", self.fi.cls)
        if names:
            if names & NP_ANN:
                kind = "np"
            elif names & FLAT_ANN and names <= FLAT_ANN | IMM_ANN | {"Optional", "Union"}:
                kind = "flat"
            elif names & MUT_ANN:
                kind = "mut"
            elif names <= IMM_ANN:
                kind = "imm"
            else:
                rest = names - IMM_ANN
                cls = [self.repo.resolve(self.mod, n) for n in rest]
                if all(isinstance(c, ClassInfo) and self.repo.is_enum(c) for c in cls):
                    kind = "imm"
                else:
                    kind = "mut"
                    known = [c for c in cls if isinstance(c, ClassInfo)]
                    if len(known) == 1 and len(rest) == 1:
                        typ = known[0]
        if kind == "imm":
            return FRESH_IMM
        return Val({("P", name)}, E, kind, typ)

    def run(self):
        a = self.fi.node.args
        env: Dict[str, Val] = {}
        allp = a.posonlyargs + a.args
        for i, p in enumerate(allp):
            env[p.arg] = self.param_val(p, i)
        for p in a.kwonlyargs:
            env[p.arg] = self.param_val(p, 99)
        if a.vararg:
            env[a.vararg.arg] = Val({("P", a.vararg.arg)}, E, "mut")
        if a.kwarg:
            env[a.kwarg.arg] = Val({("P", a.kwarg.arg)}, E, "mut")
        # a mutable default may be the argument
        for f, pname, d in self.eff.defaults:
            if f is self.fi and pname in env:
                o = self.eff.default_origin(f, pname)
                env[pname] = env[pname].join(Val({o}, {o}, self.eff.static_kind(d, self.fi.cls, self.mod)))
        self.block(self.fi.node.body, env)

    # ---------------------------------------------------------------- statements
    def block(self, stmts, env):
        for s in stmts:
            self.stmt(s, env)

    def join_env(self, a: Dict[str, Val], b: Dict[str, Val]) -> Dict[str, Val]:
        out = {}
        for k in set(a) | set(b):
            if k in a and k in b:
                out[k] = a[k].join(b[k])
            else:
                out[k] = (a.get(k) or b.get(k))
        return out

    def stmt(self, s, env):
        m = getattr(self, "s_" + type(s).__name__, None)
        if m is None:
            for n in ast.iter_child_nodes(s):
                if isinstance(n, ast.expr):
                    self.ev(n, env)
            return
        m(s, env)

    def s_Expr(self, s, env):
        self.ev(s.value, env)

    def s_Return(self, s, env):
        if s.value is not None:
            v = self.ev(s.value, env)
            self.summ.ret_own |= {o[1] if o[0] == "P" else o for o in v.own}
            self.summ.ret_reach |= {o[1] if o[0] == "P" else o for o in v.reach}
            rk = self.summ.ret_kind
            self.summ.ret_kind = v.kind if rk is None else (rk if rk == v.kind else ("?" if "imm" in (rk, v.kind) or "cls" in (rk, v.kind) else _kjoin(rk, v.kind)))
            if self.summ.ret_typ == "unset":
                self.summ.ret_typ = v.typ if v.typ is not None else "top"
            elif self.summ.ret_typ != "top" and self.summ.ret_typ is not v.typ:
                self.summ.ret_typ = "top"

    def s_Assign(self, s, env):
        v = self.ev(s.value, env)
        for t in s.targets:
            self.bind(t, v, env, s, s.value)

    def s_AnnAssign(self, s, env):
        if s.value is not None:
            v = self.ev(s.value, env)
            names = ann_names(s.annotation)
            if v.kind == "?" and names:
                if names & NP_ANN:
                    v = Val(v.own, v.reach, "np", v.typ)
                elif names <= IMM_ANN:
                    v = Val(v.own, v.reach, "imm", v.typ)
            if v.typ is None and v.kind != "cls" and isinstance(s.target, ast.Attribute):
                rest = names - IMM_ANN - MUT_ANN - NP_ANN
                if len(rest) == 1 and not (names & (MUT_ANN | NP_ANN)):
                    r = self.repo.resolve(self.mod, next(iter(rest)))
                    if isinstance(r, ClassInfo) and not self.repo.is_enum(r):
                        v = Val(v.own, v.reach, v.kind, r, v.fields, v.fdef)
            self.bind(s.target, v, env, s, s.value)

    def s_AugAssign(self, s, env):
        v = self.ev(s.value, env)
        t = s.target
        if isinstance(t, ast.Name):
            cur = env.get(t.id) or self.name_val(t.id, env)
            if cur.kind == "imm" or (v.kind == "imm" and cur.kind == "?" and isinstance(s.op, (ast.Add, ast.Sub, ast.Mult, ast.LShift, ast.RShift, ast.Div, ast.FloorDiv, ast.Mod, ast.Pow))
                                     and not cur.own):
                env[t.id] = Val(E, E, "imm") if cur.kind == "imm" else cur
                return
            self.mutate(cur, s, f"augmented assignment `{t.id} {OPS.get(type(s.op), '?')}= ...` (in place)")
            env[t.id] = Val(cur.own, cur.reach | v.reach, cur.kind, cur.typ)
        elif isinstance(t, ast.Subscript):
            base = self.ev(t.value, env)
            self.ev(t.slice, env)
            self.mutate(base, s, "augmented item assignment")
        elif isinstance(t, ast.Attribute):
            base = self.ev(t.value, env)
            self.attr_store(t, base, v, env, s)

    def s_Delete(self, s, env):
        for t in s.targets:
            if isinstance(t, ast.Subscript):
                self.mutate(self.ev(t.value, env), s, "del item")
            elif isinstance(t, ast.Attribute):
                self.mutate(self.ev(t.value, env), s, "del attribute")
            elif isinstance(t, ast.Name):
                env.pop(t.id, None)

    def s_If(self, s, env):
        self.ev(s.test, env)
        d = self.decide(s.test)
        if d is not None:
            self.block(s.body if d else s.orelse, env)
            return
        e1, e2 = dict(env), dict(env)
        self.block(s.body, e1)
        self.block(s.orelse, e2)
        env.clear()
        env.update(self.join_env(e1, e2))

    def s_While(self, s, env):
        for _ in range(2):
            self.ev(s.test, env)
            e1 = dict(env)
            self.block(s.body, e1)
            j = self.join_env(env, e1)
            env.clear()
            env.update(j)
        self.block(s.orelse, env)

    def s_For(self, s, env):
        it = self.ev(s.iter, env)
        elem = Val(it.reach, it.reach, "imm" if it.kind == "imm" and not it.reach else "?")
        if it.kind == "flat":
            elem = FRESH_IMM
        elif it.kind == "np":
            elem = Val(it.own, it.reach, "np")                # iterating a 2-D array yields row views
        if isinstance(s.iter, ast.Call) and ast.unparse(s.iter.func) in ("range", "enumerate") and ast.unparse(s.iter.func) == "range":
            elem = FRESH_IMM
        for _ in range(2):
            e1 = dict(env)
            self.bind(s.target, elem, e1, s, None)
            self.block(s.body, e1)
            j = self.join_env(env, e1)
            env.clear()
            env.update(j)
        self.block(s.orelse, env)

    s_AsyncFor = s_For

    def s_With(self, s, env):
        for it in s.items:
            v = self.ev(it.context_expr, env)
            if it.optional_vars is not None:
                self.bind(it.optional_vars, v, env, s, None)
        self.block(s.body, env)

    s_AsyncWith = s_With

    def s_Try(self, s, env):
        e0 = dict(env)
        self.block(s.body, env)
        outs = [dict(env)]
        for h in s.handlers:
            eh = self.join_env(e0, env)
            if h.name:
                eh[h.name] = FRESH
            self.block(h.body, eh)
            outs.append(eh)
        e = outs[0]
        for o in outs[1:]:
            e = self.join_env(e, o)
        self.block(s.orelse, e)
        self.block(s.finalbody, e)
        env.clear()
        env.update(e)

    def s_FunctionDef(self, s, env):
        env[s.name] = FRESH   # nested functions: not analysed (none mutate captured state in the library; checked by the caller rule)

    s_AsyncFunctionDef = s_FunctionDef

    def s_ClassDef(self, s, env):
        env[s.name] = FRESH

    def s_Import(self, s, env):
        pass

    s_ImportFrom = s_Pass = s_Break = s_Continue = s_Global = s_Nonlocal = s_Import

    def s_Assert(self, s, env):
        self.ev(s.test, env)

    def s_Raise(self, s, env):
        if s.exc is not None:
            self.ev(s.exc, env)

    # ---------------------------------------------------------------- binding / stores
    def bind(self, t, v: Val, env, stmt, value_expr):
        if isinstance(t, ast.Name):
            env[t.id] = v
        elif isinstance(t, (ast.Tuple, ast.List)):
            if isinstance(value_expr, (ast.Tuple, ast.List)) and len(value_expr.elts) == len(t.elts) and not any(isinstance(e, ast.Starred) for e in t.elts):
                for tt, ve in zip(t.elts, value_expr.elts):
                    self.bind(tt, self.ev(ve, env), env, stmt, ve)
            else:
                elem = Val(v.reach, v.reach, "?" if v.reach or v.kind != "imm" else "imm")
                for tt in t.elts:
                    self.bind(tt.value if isinstance(tt, ast.Starred) else tt, elem, env, stmt, None)
        elif isinstance(t, ast.Subscript):
            base = self.ev(t.value, env)
            self.ev(t.slice, env)
            self.mutate(base, stmt, "item / slice store")
            self.grow(t.value, v, env)
        elif isinstance(t, ast.Attribute):
            base = self.ev(t.value, env)
            self.attr_store(t, base, v, env, stmt)
        elif isinstance(t, ast.Starred):
            self.bind(t.value, v, env, stmt, None)

    def grow(self, base_expr, v: Val, env):
        """something was stored INTO the object named by base_expr: it now reaches v"""
        root = base_expr
        while isinstance(root, (ast.Attribute, ast.Subscript)):
            root = root.value
        if isinstance(root, ast.Name) and root.id in env and v.reach:
            cur = env[root.id]
            fields = cur.fields
            if fields is not None and isinstance(base_expr, ast.Attribute) and base_expr.value is root:
                fv = fields.get(base_expr.attr) or cur.fdef
                if fv is not None:
                    fields = dict(fields)
                    fields[base_expr.attr] = Val(fv.own, fv.reach | v.reach, fv.kind, fv.typ, fv.fields, fv.fdef)
            env[root.id] = Val(cur.own, cur.reach | v.reach, cur.kind, cur.typ, fields, cur.fdef)
            for o in cur.own:
                if o[0] == "P":
                    self.summ.grow.setdefault(o[1], set()).update({x[1] if x[0] == "P" else x for x in v.reach})

    def attr_store(self, t: ast.Attribute, base: Val, v: Val, env, stmt):
        cls = base.typ
        if base.kind == "cls" or (isinstance(t.value, ast.Name) and isinstance(self.repo.resolve(self.mod, t.value.id), ClassInfo) and t.value.id not in env):
            ci = cls if base.kind == "cls" else self.repo.resolve(self.mod, t.value.id)
            owner = self.repo.class_attr_owner(ci, t.attr) or ci
            self.eff.record(Event(self.fi, stmt.lineno, ("S", f"{owner.qualname}.{t.attr}"), "class attribute re-bound at run time", node=stmt))
            return
        if cls is not None:
            shared = {o for o in v.reach if o[0] == "S"}
            if shared:
                self.eff.field_store.setdefault((cls.qualname, t.attr), set()).update(shared)
                self.eff.field_by_attr.setdefault(t.attr, set()).update(shared)
            for o in v.reach:
                if o[0] == "P":
                    self.summ.p2f.setdefault(o[1], set()).add((cls.qualname, t.attr))
            ft = self.eff.field_typ.get((cls.qualname, t.attr), "unset")
            vt = v.typ if v.typ is not None and v.kind != "cls" else ("top" if v.kind != "imm" else ft)
            if ft == "unset":
                self.eff.field_typ[(cls.qualname, t.attr)] = vt
            elif ft != "top" and vt is not ft and vt != "unset":
                lca = "top"
                if isinstance(ft, ClassInfo) and isinstance(vt, ClassInfo):
                    mb = self.repo.mro(vt)
                    lca = next((c for c in self.repo.mro(ft) if c in mb), "top")
                self.eff.field_typ[(cls.qualname, t.attr)] = lca
        else:
            shared = {o for o in v.reach if o[0] == "S"}
            if shared:
                self.eff.field_by_attr.setdefault(t.attr, set()).update(shared)
        self.mutate(base, stmt, f"attribute store .{t.attr}")
        if isinstance(t.value, ast.Name) and t.value.id in env:
            name = t.value.id
            if name == "self" and self.fi.name in ("__init__", "__post_init__"):
                self.summ.fieldmap.setdefault(t.attr, set()).update({o[1] if o[0] == "P" else o for o in v.reach})
            cur = env[name]
            if cur.fields is not None:
                env[name] = cur.with_field(t.attr, v)
                return
        self.grow(t.value, v, env)

    def mutate(self, target: Val, node, how: str, via=(), fuzzy=False):
        fuzzy = fuzzy or self.fuzzy_now
        for o in target.own:
            if o[0] == "P":
                ws = self.summ.mut.setdefault(o[1], {})
                # one witness per distinct operation text (shortest chain wins), at most 16 operations per parameter
                same = [k for k in ws if k[0] == how]
                if not same:
                    if len(ws) < 16:
                        ws[(how, tuple(via))] = fuzzy
                else:
                    k0 = same[0]
                    if (ws[k0] and not fuzzy) or (ws[k0] == fuzzy and len(via) < len(k0[1])):
                        del ws[k0]
                        ws[(how, tuple(via))] = fuzzy
            if not self.consts:
                self.eff.record(Event(self.fi, getattr(node, "lineno", 0), o, how, via, node=node, fuzzy=fuzzy))

    # ---------------------------------------------------------------- expressions
    def name_val(self, id_: str, env) -> Val:
        if id_ in env:
            return env[id_]
        r = self.repo.resolve(self.mod, id_)
        if isinstance(r, ClassInfo):
            return Val(E, E, "cls", r)
        if isinstance(r, tuple) and r and r[0] == "const":
            _, m, n = r
            expr = m.assigns[n]
            k = self.eff.static_kind(expr, None, m)
            if k == "imm":
                return FRESH_IMM
            o = ("S", f"{m.short}:{n}")
            typ = self.repo.resolve_expr_class(m, expr.func) if isinstance(expr, ast.Call) else None
            return Val({o}, {o}, k, typ)
        return FRESH

    def ev(self, n, env) -> Val:
        m = getattr(self, "e_" + type(n).__name__, None)
        if m is None:
            out = FRESH
            for c in ast.iter_child_nodes(n):
                if isinstance(c, ast.expr):
                    self.ev(c, env)
            return out
        return m(n, env)

    def e_Constant(self, n, env):
        return FRESH_IMM

    def e_Name(self, n, env):
        return self.name_val(n.id, env)

    def e_JoinedStr(self, n, env):
        for v in n.values:
            self.ev(v, env)
        return FRESH_IMM

    def e_FormattedValue(self, n, env):
        self.ev(n.value, env)
        return FRESH_IMM

    def e_Compare(self, n, env):
        self.ev(n.left, env)
        for c in n.comparators:
            self.ev(c, env)
        return FRESH_IMM

    def e_BoolOp(self, n, env):
        out = None
        for v in n.values:
            x = self.ev(v, env)
            out = x if out is None else out.join(x)
        return out

    def e_UnaryOp(self, n, env):
        v = self.ev(n.operand, env)
        if isinstance(n.op, ast.Not):
            return FRESH_IMM
        return Val(E, E, v.kind)   # ~bits / -x build a new object

    def e_BinOp(self, n, env):
        l, r = self.ev(n.left, env), self.ev(n.right, env)
        k = "imm" if l.kind == r.kind == "imm" else ("np" if "np" in (l.kind, r.kind) else ("mut" if "mut" in (l.kind, r.kind) else "?"))
        if "flat" in (l.kind, r.kind) and {l.kind, r.kind} <= {"flat", "imm"}:
            return Val(E, E, "flat")                          # bits + bits, bits * 3, bits ^ bits: a new flat buffer
        return Val(E, (l.reach | r.reach) if k != "imm" else E, k)

    def e_IfExp(self, n, env):
        self.ev(n.test, env)
        d = self.decide(n.test)
        if d is not None:
            return self.ev(n.body if d else n.orelse, env)
        return self.ev(n.body, env).join(self.ev(n.orelse, env))

    def e_Tuple(self, n, env):
        reach = E
        kinds = set()
        for e in n.elts:
            v = self.ev(e.value if isinstance(e, ast.Starred) else e, env)
            reach |= v.reach
            kinds.add(v.kind)
        return Val(E, reach, "imm" if kinds <= {"imm"} else "mut")

    def e_List(self, n, env):
        reach = E
        for e in n.elts:
            reach |= self.ev(e.value if isinstance(e, ast.Starred) else e, env).reach
        return Val(E, reach, "cont")

    e_Set = e_List

    def e_Dict(self, n, env):
        reach = E
        for k, v in zip(n.keys, n.values):
            if k is not None:
                self.ev(k, env)
            reach |= self.ev(v, env).reach
        return Val(E, reach, "cont")

    def comp(self, n, env, elts):
        e1 = dict(env)
        for g in n.generators:
            it = self.ev(g.iter, e1)
            elem = Val(it.reach, it.reach, "?")
            if isinstance(g.iter, ast.Call) and ast.unparse(g.iter.func) == "range":
                elem = FRESH_IMM
            self.bind(g.target, elem, e1, n, None)
            for c in g.ifs:
                self.ev(c, e1)
        reach = E
        for e in elts:
            reach |= self.ev(e, e1).reach
        return Val(E, reach, "cont")

    def e_ListComp(self, n, env):
        return self.comp(n, env, [n.elt])

    e_SetComp = e_GeneratorExp = e_ListComp

    def e_DictComp(self, n, env):
        return self.comp(n, env, [n.key, n.value])

    def e_Lambda(self, n, env):
        return FRESH

    def e_Await(self, n, env):
        return self.ev(n.value, env)

    def e_Starred(self, n, env):
        return self.ev(n.value, env)

    def e_NamedExpr(self, n, env):
        v = self.ev(n.value, env)
        self.bind(n.target, v, env, n, n.value)
        return v

    def e_Subscript(self, n, env):
        base = self.ev(n.value, env)
        self.ev(n.slice, env)
        if base.kind == "imm":
            return FRESH_IMM
        is_slice = isinstance(n.slice, ast.Slice) or (isinstance(n.slice, ast.Tuple) and any(isinstance(e, ast.Slice) for e in n.slice.elts))
        if base.kind == "flat":
            # bitarray / bytearray: a slice is a private copy, an item is an int
            return Val(E, E, "flat") if is_slice else FRESH_IMM
        if is_slice:
            if base.kind == "np":
                return Val(base.own, base.reach, "np")       # numpy slices are views
            return Val(E, base.reach, base.kind)              # list / bytes slices are copies
        if base.kind == "np":
            if isinstance(n.slice, ast.Tuple):
                return Val(E, base.reach, "?")                # a[i, j]: a scalar
            return Val(base.own, base.reach, "np")            # a[i]: a row VIEW of a 2-D array (a scalar of a 1-D one: cannot be mutated anyway)
        if base.own and all(self.eff.immutable_elements(o) for o in base.own):
            # an element of a class-level table whose annotation says it holds only immutable values (ints, texts, tuples,
            # members of an enumeration): a value, not a handle on the table
            return FRESH_IMM
        return Val(base.reach, base.reach, "?")

    def e_Slice(self, n, env):
        for c in (n.lower, n.upper, n.step):
            if c is not None:
                self.ev(c, env)
        return FRESH_IMM

    def e_Attribute(self, n, env):
        base = self.ev(n.value, env)
        attr = n.attr
        if base.kind == "cls" and base.typ is not None:
            v = self.eff.class_attr_origin(base.typ, attr)
            if v is not None:
                return v
            return FRESH
        if isinstance(n.value, ast.Name) and n.value.id not in env:
            r = self.repo.resolve(self.mod, n.value.id)
            if isinstance(r, ModRef):
                if r.name in self.repo.modules:
                    m = self.repo.modules[r.name]
                    if attr in m.assigns and self.eff.static_kind(m.assigns[attr], None, m) != "imm":
                        o = ("S", f"{m.short}:{attr}")
                        return Val({o}, {o}, "mut")
                return FRESH
        if base.fields is not None and base.kind != "cls":
            fv = base.fields.get(attr) or base.fdef
            if fv is not None and not (base.typ is not None and self.repo.find_method(base.typ, attr) is not None):
                inst = base.typ is None or any(attr in self.eff.inst_fields.get(c.qualname, ()) for c in self.repo.mro(base.typ)) or attr in base.fields
                if inst:
                    extra = set()
                    ftyp = fv.typ
                    if attr not in base.fields and base.typ is not None:
                        for c in self.repo.mro(base.typ):
                            extra |= self.eff.field_store.get((c.qualname, attr), set())
                            ft = self.eff.field_typ.get((c.qualname, attr))
                            if ftyp is None and isinstance(ft, ClassInfo):
                                ftyp = ft
                    return Val(fv.own | extra, fv.reach | extra, fv.kind, ftyp, fv.fields, fv.fdef)
        ci = base.typ
        if ci is not None:
            inst = any(attr in self.eff.inst_fields.get(c.qualname, ()) for c in self.repo.mro(ci)) or any(attr in self.eff.inst_fields.get(c.qualname, ()) for c in self.repo.subclasses(ci))
            if not inst:
                v = self.eff.class_attr_origin(ci, attr)
                if v is not None:
                    return v
            extra = set()
            for c in list(self.repo.mro(ci)) + list(self.repo.subclasses(ci)):
                extra |= self.eff.field_store.get((c.qualname, attr), set())
            if attr in NP_VIEW_METHODS and base.kind == "np":
                return Val(base.own, base.reach, "np")
            m = self.repo.find_method(ci, attr)
            if m is not None and m.kind == "property":
                return self.apply_summary(m, [base], {}, n, env)
            ftyp = None
            for c in self.repo.mro(ci):
                ft = self.eff.field_typ.get((c.qualname, attr))
                if ft is not None:
                    ftyp = ft if isinstance(ft, ClassInfo) else None
                    break
            # typed object: shared origins come field-sensitively from the global field store (or from the object being shared itself)
            # (parameter origins: only those the base itself IS — an object merely stored somewhere inside the base is not
            # every one of its fields; stores made in this function are tracked through Val.fields)
            o2 = set(base.own) | extra
            return Val(o2, o2 | base.reach, "?", ftyp)
        if attr in NP_VIEW_METHODS and base.kind == "np":
            return Val(base.own, base.reach, "np")
        if base.kind == "imm":
            return FRESH_IMM
        extra = self.eff.field_by_attr.get(attr, set())
        return Val(base.reach | extra, base.reach | extra, "?")

    # ---------------------------------------------------------------- calls
    def dotted(self, fn: ast.AST, env) -> Optional[str]:
        """dotted external name of a callee expression, through the module's imports"""
        parts = []
        cur = fn
        while isinstance(cur, ast.Attribute):
            parts.append(cur.attr)
            cur = cur.value
        if not isinstance(cur, ast.Name) or cur.id in env:
            return None
        r = self.repo.resolve(self.mod, cur.id)
        if isinstance(r, ModRef):
            return ".".join([r.name] + list(reversed(parts)))
        if r is None and cur.id in __builtins__ if isinstance(__builtins__, dict) else hasattr(__builtins__, cur.id):
            return ".".join([cur.id] + list(reversed(parts)))
        return None

    def note_call(self, target: str, node):
        self.eff.calls.setdefault(self.fi.qualname, set()).add(target)
        self.eff.call_sites.setdefault((self.fi.qualname, target), getattr(node, "lineno", 0))

    def e_Call(self, n, env):
        args = [self.ev(a.value if isinstance(a, ast.Starred) else a, env) for a in n.args]
        kw = {}
        for k in n.keywords:
            v = self.ev(k.value, env)
            if k.arg is None:
                kw.setdefault("**", v)
            else:
                kw[k.arg] = v
        fn = n.func
        # --- direct names
        if isinstance(fn, ast.Name) and fn.id not in env:
            r = self.repo.resolve(self.mod, fn.id)
            if isinstance(r, FuncInfo):
                return self.apply_summary(r, args, kw, n, env)
            if isinstance(r, ClassInfo):
                return self.construct(r, args, kw, n, env)
            d = self.dotted(fn, env) or fn.id
            return self.external(d, None, args, kw, n, env)
        if isinstance(fn, ast.Name):
            held = env.get(fn.id)
            if held is not None and held.kind == "cls" and held.typ is not None:
                # a local name holding a class (`register_class = A if flag else B`): an instance of (a subclass of) their common base
                return self.construct(held.typ, args, kw, n, env)
            self.eff.unresolved_calls += 1
            return Val(E, frozenset().union(*[a.reach for a in args]) if args else E, "?")
        if isinstance(fn, ast.Attribute):
            # super().m(...)
            if isinstance(fn.value, ast.Call) and isinstance(fn.value.func, ast.Name) and fn.value.func.id == "super" and self.fi.cls is not None:
                mro = self.repo.mro(self.fi.cls)[1:]
                for c in mro:
                    if fn.attr in c.methods:
                        selfv = env.get("self") or env.get("cls") or FRESH
                        return self.apply_summary(c.methods[fn.attr], [selfv] + args if c.methods[fn.attr].kind != "staticmethod" else args, kw, n, env)
                return FRESH
            d = self.dotted(fn, env)
            if d is not None:
                # module function of the repository?
                head = d.rsplit(".", 1)
                if len(head) == 2 and head[0] in self.repo.modules:
                    r = self.repo.resolve(self.repo.modules[head[0]], head[1])
                    if isinstance(r, FuncInfo):
                        return self.apply_summary(r, args, kw, n, env)
                    if isinstance(r, ClassInfo):
                        return self.construct(r, args, kw, n, env)
                return self.external(d, None, args, kw, n, env)
            recv = self.ev(fn.value, env)
            name = fn.attr
            ci = recv.typ
            if ci is not None:
                m = self.repo.find_method(ci, name)
                cands = [m] if m is not None else []
                if True:   # overriding methods of subclasses (also for calls through `cls`)
                    for sc in self.repo.subclasses(ci):
                        if name in sc.methods and sc.methods[name] not in cands:
                            cands.append(sc.methods[name])
                if cands:
                    out = None
                    for c in cands:
                        a2 = args if c.kind == "staticmethod" else [recv] + args
                        v = self.apply_summary(c, a2, kw, n, env)
                        out = v if out is None else out.join(v)
                    return out
                nested = getattr(ci, "nested", {}).get(name)
                if nested is not None:
                    return self.construct(nested, args, kw, n, env)
                if recv.kind == "cls" and self.repo.is_enum(ci):
                    return FRESH_IMM
            return self.method_call(recv, name, args, kw, n, env, fn)
        # call of a call result etc.
        self.ev(fn, env)
        self.eff.unresolved_calls += 1
        return FRESH

    def method_call(self, recv: Val, name: str, args, kw, n, env, fn):
        """method on a receiver whose class is unknown: builtin container semantics and / or the repository methods of that name"""
        out = None
        if name in MUTATORS and recv.kind != "imm":
            self.mutate(recv, n, f".{name}() (in place)")
            if name in GROWERS:
                v = Val(E, frozenset().union(*[a.reach for a in args + list(kw.values())]) if (args or kw) else E)
                self.grow(fn.value, v, env)
            out = Val(recv.reach, recv.reach, "?") if name in ("pop", "popitem", "setdefault", "popleft") else FRESH
        cands = [f for f in self.eff.by_name.get(name, []) if f.cls is not None and f.kind not in ("staticmethod",)]
        if recv.kind in ("imm", "cont", "np"):
            cands = []
        if cands and not (name in FLAT_METHODS):
            out = self.apply_fuzzy(cands, recv, args, kw, n, env, out)
            return out
        if out is not None:
            return out
        if name in NP_VIEW_METHODS and recv.kind in ("np", "?"):
            return Val(recv.own, recv.reach, recv.kind)
        if name in FLAT_METHODS or recv.kind == "imm":
            self.eff.resolved_calls += 1
            if name in ELEMENT_METHODS:
                if recv.kind == "flat":
                    return Val(E, E, "flat" if name in ("copy", "__copy__") else "imm")
                return Val(E, recv.reach, "mut" if name in ("copy", "__copy__") else "?")
            return Val(E, E, "imm" if name in ("tobytes", "hex", "to01", "count", "index", "find", "decode", "encode", "bit_length", "to_bytes", "join", "strftime") else "?")
        if cands:
            return self.apply_fuzzy(cands, recv, args, kw, n, env, out)
        self.eff.unresolved_calls += 1
        self.note_call(f"ext:?.{name}", n)
        return Val(E, recv.reach, "?")

    def apply_fuzzy(self, cands, recv, args, kw, n, env, out):
        """the receiver's class is unknown: every repository method of that name is a candidate (effects marked fuzzy if > 1)"""
        prev = self.fuzzy_now
        self.fuzzy_now = prev or len({c.cls.qualname for c in cands}) > 1
        try:
            for c in cands:
                v = self.apply_summary(c, [recv] + args, kw, n, env)
                out = v if out is None else out.join(v)
        finally:
            self.fuzzy_now = prev
        return out

    def external(self, dotted: str, recv, args, kw, n, env):
        self.eff.resolved_calls += 1
        self.note_call(f"ext:{dotted}", n)
        base = dotted
        if base in EXTERNAL_MUTATORS and len(args) > EXTERNAL_MUTATORS[base]:
            self.mutate(args[EXTERNAL_MUTATORS[base]], n, f"{base}() (in place)")
        allreach = frozenset().union(*[a.reach for a in args + list(kw.values())]) if (args or kw) else E
        short = base.split(".")[-1]
        if base in NP_VIEWS or (base.startswith("numpy.") and short in ("asarray", "reshape", "ravel", "transpose")):
            a0 = args[0] if args else FRESH
            return Val(a0.own, a0.reach, "np")
        if base in ("copy.copy", "copy"):
            a0 = args[0] if args else FRESH
            if a0.kind == "imm":
                return FRESH_IMM
            return Val(E, a0.reach, a0.kind, a0.typ, dict(a0.fields) if a0.fields is not None else {}, a0.fdef if a0.fields is not None else Val(a0.reach, a0.reach, "?"))
        if base in SHALLOW_COPIES or short in ("list", "dict", "set", "sorted", "reversed", "tuple", "enumerate", "zip"):
            return Val(E, allreach, "cont")
        if base in FLAT_COPIES or base.startswith(("numpy.", "math.", "struct.", "bitarray.util.", "binascii.", "hashlib.", "re.")):
            k = "np" if base.startswith("numpy.") else ("flat" if short in ("bitarray", "bytearray", "int2ba", "hex2ba", "zeros", "frozenbitarray") else "mut" if short == "array" else "imm")
            return Val(E, E, k)
        if base in ("getattr",) and args:
            return Val(args[0].reach, args[0].reach, "?")
        if base in ("setattr",) and args:
            self.mutate(args[0], n, "setattr()")
            return FRESH_IMM
        if base in ("next",) and args:
            if args[0].kind != "imm":
                self.mutate(args[0], n, "next() (consumes / advances the iterator)")
            return Val(args[0].reach, args[0].reach, "?")
        return Val(E, allreach, "?")

    def construct(self, ci: ClassInfo, args, kw, n, env):
        self.eff.resolved_calls += 1
        if self.repo.is_enum(ci):
            return FRESH_IMM
        init = self.repo.find_method(ci, "__init__")
        reach = frozenset().union(*[a.reach for a in args + list(kw.values())]) if (args or kw) else E
        if init is not None:
            self.note_call(init.qualname, n)
            selfv = Val(E, E, "mut", ci)
            self.apply_summary(init, [selfv] + args, kw, n, env, constructing=True)
        post = self.repo.find_method(ci, "__post_init__")
        if post is not None:
            self.note_call(post.qualname, n)
        fields = None
        if init is not None and "**" not in kw and not any(isinstance(a, ast.Starred) for a in n.args):
            bound = self.bind_args(init, [Val(E, E, "mut", ci)] + args, kw)
            fields = {}
            for c in self.repo.mro(ci):
                ini = c.methods.get("__init__")
                if ini is None:
                    continue
                for attr, srcs in self.eff.summ[ini.qualname].fieldmap.items():
                    r = set()
                    for o in srcs:
                        if isinstance(o, str):
                            if ini is init and o in bound:
                                r |= bound[o].reach
                            elif ini is not init:
                                r |= reach     # a base-class constructor: its parameters come from ours somehow
                        else:
                            r.add(o)
                    prev = fields.get(attr)
                    fields[attr] = Val(r | (prev.own if prev else E), r | (prev.reach if prev else E), "?")
            return Val(E, reach, "mut", ci, fields, Val(E, E, "?"))
        return Val(E, reach, "mut", ci)

    def bind_args(self, callee: FuncInfo, args: List[Val], kw: Dict[str, Val]) -> Dict[str, Val]:
        a = callee.node.args
        names = [p.arg for p in a.posonlyargs + a.args]
        bound = {}
        for nm, v in zip(names, args):
            bound[nm] = v
        if len(args) > len(names) and a.vararg:
            extra = args[len(names):]
            bound[a.vararg.arg] = Val(E, frozenset().union(*[x.reach for x in extra]), "mut")
        for k, v in kw.items():
            if k == "**":
                continue
            if k in names or any(p.arg == k for p in a.kwonlyargs):
                bound[k] = v
            elif a.kwarg:
                cur = bound.get(a.kwarg.arg)
                bound[a.kwarg.arg] = Val(E, (cur.reach if cur else E) | v.reach, "mut")
        return bound

    def const_args(self, callee: FuncInfo, n: ast.Call, nargs: int, flags) -> dict:
        """flag parameters whose value at this call site is a literal True / False / None (explicitly or by default)"""
        if any(isinstance(a, ast.Starred) for a in n.args) or any(k.arg is None for k in n.keywords):
            return {}
        exprs = self.bind_exprs(callee, n, nargs)
        a = callee.node.args
        pos = a.posonlyargs + a.args
        defaults = dict(zip([p.arg for p in pos[len(pos) - len(a.defaults):]], a.defaults))
        defaults.update({p.arg: d for p, d in zip(a.kwonlyargs, a.kw_defaults) if d is not None})
        out = {}
        for p in flags:
            e = exprs.get(p, defaults.get(p))
            if isinstance(e, ast.Constant) and (isinstance(e.value, bool) or e.value is None):
                out[p] = e.value
        return out

    def decide(self, test: ast.AST):
        """truth value of an `if` test under the constant flag parameters of this context (None: unknown)"""
        if not self.consts:
            return None
        if isinstance(test, ast.Name) and test.id in self.consts:
            return bool(self.consts[test.id])
        if isinstance(test, ast.UnaryOp) and isinstance(test.op, ast.Not):
            v = self.decide(test.operand)
            return None if v is None else not v
        if isinstance(test, ast.Compare) and len(test.ops) == 1 and isinstance(test.left, ast.Name) and test.left.id in self.consts \
                and isinstance(test.comparators[0], ast.Constant):
            c, k = self.consts[test.left.id], test.comparators[0].value
            if isinstance(test.ops[0], (ast.Is, ast.Eq)):
                return (c is k) if isinstance(test.ops[0], ast.Is) else (c == k)
            if isinstance(test.ops[0], (ast.IsNot, ast.NotEq)):
                return (c is not k) if isinstance(test.ops[0], ast.IsNot) else (c != k)
        if isinstance(test, ast.BoolOp):
            vals = [self.decide(v) for v in test.values]
            if isinstance(test.op, ast.And):
                if any(v is False for v in vals):
                    return False
                return True if all(v is True for v in vals) else None
            if any(v is True for v in vals):
                return True
            return False if all(v is False for v in vals) else None
        return None

    def bind_exprs(self, callee: FuncInfo, n: ast.Call, nargs: int) -> Dict[str, ast.AST]:
        """parameter name -> argument expression at this call site (receiver included for bound calls)"""
        names = [p.arg for p in callee.node.args.posonlyargs + callee.node.args.args]
        pos = [a for a in n.args if not isinstance(a, ast.Starred)]
        if nargs == len(n.args) + 1 and isinstance(n.func, ast.Attribute):
            pos = [n.func.value] + pos
        out = dict(zip(names, pos))
        for k in n.keywords:
            if k.arg is not None:
                out[k.arg] = k.value
        return out

    def apply_summary(self, callee: FuncInfo, args: List[Val], kw, n, env, constructing=False) -> Val:
        self.eff.resolved_calls += 1
        self.note_call(callee.qualname, n)
        s = self.eff.summ[callee.qualname]
        bound = self.bind_args(callee, args, kw)
        flags = self.eff.flag_params.get(callee.qualname)
        if flags and isinstance(n, ast.Call):
            consts = self.const_args(callee, n, len(args), flags)
            if consts:
                key = (callee.qualname, tuple(sorted(consts.items(), key=repr)))
                if key not in self.eff.ctx_summ:
                    self.eff.ctx_summ[key] = Summary()
                    self.eff.ctx_funcs[key] = callee
                s = self.eff.ctx_summ[key]
        for p, ws in list(s.mut.items()):
            v = bound.get(p)
            if v is None:
                continue
            for (how, via), fz in list(ws.items()):
                if len(via) < 12:
                    self.mutate(v, n, how, (callee.qualname,) + tuple(via), fuzzy=fz)
        for p, targets in list(s.p2f.items()):
            v = bound.get(p)
            if v is None:
                continue
            for o in v.reach:
                if o[0] == "S":
                    for tg in targets:
                        self.eff.field_store.setdefault(tg, set()).add(o)
                        self.eff.field_by_attr.setdefault(tg[1], set()).add(o)
                else:
                    self.summ.p2f.setdefault(o[1], set()).update(targets)
        exprs = self.bind_exprs(callee, n, len(args)) if isinstance(n, ast.Call) else {}
        for p, origins in s.grow.items():
            if p not in bound or p not in exprs:
                continue
            add = set()
            for o in origins:
                if isinstance(o, str):
                    if o in bound:
                        add |= bound[o].reach
                else:
                    add.add(o)
            if add:
                self.grow(exprs[p], Val(E, add), env)
        own, reach = set(), set()
        for o in s.ret_own:
            if isinstance(o, str):
                if o in bound:
                    own |= bound[o].own
                    reach |= bound[o].reach
            else:
                own.add(o)
        for o in s.ret_reach:
            if isinstance(o, str):
                if o in bound:
                    reach |= bound[o].reach
            else:
                reach.add(o)
        # a parameter left to its mutable default: the callee's default object takes its place
        if callee.qualname in self.eff.cached:
            o = ("S", f"cached result of {callee.qualname}")
            own.add(o)
            reach.add(o)
        rt = s.ret_typ if isinstance(s.ret_typ, ClassInfo) else None
        if rt is None and callee.node.returns is not None:
            names = ann_names(callee.node.returns) - IMM_ANN
            if len(names) == 1:
                r = self.repo.resolve(callee.module, next(iter(names)))
                if isinstance(r, ClassInfo) and not self.repo.is_enum(r):
                    rt = r
        return Val(own, reach, s.ret_kind or "?", rt)


OPS = {ast.Add: "+", ast.Sub: "-", ast.BitXor: "^", ast.BitAnd: "&", ast.BitOr: "|", ast.Mult: "*", ast.LShift: "<<", ast.RShift: ">>",
       ast.Mod: "%", ast.FloorDiv: "//", ast.Div: "/", ast.Pow: "**", ast.MatMult: "@"}
