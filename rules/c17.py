"""C17 — HSTRP/RRS datagram handler: all paths of the real handler, effects = datagrams sent."""
from __future__ import annotations

import ast
import re

from sa.bitabs import ABits, AEnum, AExt, AInt, AObj, AOpq, Abort, F, Interp, PartialRaise, PathRaise, explore
from sa.model import AnalysisError, EnumMember

HMOD = "protocols.hytera.hstrp_datagram_protocol"
RMOD = "protocols.hytera.rrs_datagram_protocol"
PDU = "hytera.pdu.hstrp"
TYPE_BITS = ["have_options", "is_reject", "is_close", "is_connect", "is_heartbeat", "is_ack"]


def const_of(I, v):
    """0/1 if the boolean-valued abstract value is fixed on this path, else None"""
    if isinstance(v, bool):
        return int(v)
    if isinstance(v, AInt) and (v.isbool or len(v.bits) == 1):
        b = I.simp(v.bit(0))
        if isinstance(b, F) and b.is_const:
            return b.c
        return None
    if isinstance(v, int):
        return int(bool(v))
    return None


def make_handler(I, repo, cls_mod, cls_name):
    ci = repo.cls(cls_mod, cls_name)
    h = I.construct(ci, [], {"port": 50000})
    h.attrs["transport"] = AExt("transport")
    conn = AInt([I.atom_form(("connected", 0))], isbool=True)
    h.attrs["hstrp_connected"] = conn
    h.attrs["sn"] = AInt([I.atom_form(("own_sn", i)) for i in range(16)])
    havoc_state(I, repo, ci, h)
    return ci, h, conn


MODELLED_STATE = {"transport", "hstrp_connected", "sn", "registry"}


def havoc_state(I, repo, ci, h):
    """the rules are meant for ANY history: every other attribute that a method of the handler (outside __init__) assigns holds, at
    the entry of the analysed step, either its initial value or an arbitrary value of its annotated type (a remembered sequence
    number, a flag ...).  An attribute that no method ever reads cannot influence a decision; one of a type that is not modelled
    makes the analysis impossible (exit 2), never a silent pass"""
    written, read, ann = {}, set(), {}
    for c in repo.mro(ci):
        for m in c.methods.values():
            for n in ast.walk(m.node):
                if isinstance(n, ast.Attribute) and isinstance(n.value, ast.Name) and n.value.id == "self":
                    if isinstance(n.ctx, ast.Store):
                        if m.name != "__init__":
                            written.setdefault(n.attr, m)
                    elif isinstance(n.ctx, ast.Load):
                        read.add(n.attr)
                if isinstance(n, ast.AugAssign) and isinstance(n.target, ast.Attribute) and isinstance(n.target.value, ast.Name) and n.target.value.id == "self":
                    read.add(n.target.attr)
                if isinstance(n, ast.AnnAssign) and isinstance(n.target, ast.Attribute) and isinstance(n.target.value, ast.Name) and n.target.value.id == "self":
                    ann.setdefault(n.target.attr, ast.unparse(n.annotation))
    for name, m in sorted(written.items()):
        if name in MODELLED_STATE or name not in read:
            continue
        a = ann.get(name, "")
        words = set(re.findall(r"[A-Za-z_]+", a)) - {"Optional", "Union", "None"}
        if I.st.choose(f"state:{name}:initial"):
            continue
        if words == {"bool"}:
            h.attrs[name] = AInt([I.atom_form(("state", name, 0))], isbool=True)
        elif words == {"int"}:
            h.attrs[name] = AInt([I.atom_form(("state", name, i)) for i in range(16)])
        else:
            raise AnalysisError(f"handler state {ci.name}.{name} (assigned in {m.qualname}, annotated {a or 'nothing'}) is read by the handler and is of a type the history abstraction does not model")


DECODER_EXCEPTIONS = ("AssertionError", "ValueError", "KeyError", "IndexError")


def install_decoder(I, repo, payload_kinds, rrs=False):
    """HSTRP.from_bytes(data) becomes: raises | None | a well-formed HSTRP with symbolic type bits, S/N and one of
    the payload kinds — all alternatives are explored"""
    hci = repo.cls(PDU, "HSTRP")
    tci = repo.cls(PDU, "HSTRPPacketType")
    fb = repo.find_method(hci, "from_bytes")

    def summary(I_, fi, args, kw, bound_cls):
        st = I_.st
        if not st.choose("decoder:well-formed"):
            # the exception families a byte-level decoder ends in on malformed octets: its own asserts, an undefined enumeration
            # value, a failed table look-up, an index past the end of a truncated datagram
            for exc in DECODER_EXCEPTIONS:
                if st.choose(f"decoder:raises {exc}"):
                    raise PathRaise(exc, "garbage datagram")
            return None
        bits = {b: AInt([I_.atom_form(("type", b))], isbool=True) for b in TYPE_BITS}
        pt = I_.construct(tci, [], dict(bits))
        sn = AInt([I_.atom_form(("sn", i)) for i in range(16)])
        payload = None
        for kname, maker in payload_kinds:
            if st.choose(f"payload:{kname}"):
                payload = maker(I_)
                break
        pdu = I_.construct(hci, [], {"pkt_type": pt, "sn": sn, "payload": payload})
        st.__dict__["request"] = pdu
        st.__dict__["request_bits"] = bits
        st.__dict__["request_sn"] = sn
        return pdu

    I.summaries[fb.qualname] = summary


def sends(st):
    return [e for e in st.effects if e[0] == "transport.sendto"]


def sent_bytes(e):
    d = e[2].get("data", e[1][0] if e[1] else None)
    return d


def run(ctx):
    repo = ctx.repo
    ctx.explanation = (
        "Every path of the real HSTRPDatagramProtocol.datagram_received / RRSDatagramProtocol.datagram_received is "
        "enumerated by abstract interpretation: the decoder is replaced by 'raises | returns None | returns a "
        "well-formed HSTRP whose six type bits, sequence number and connected-flag are symbolic booleans/ints and "
        "whose payload is none / a non-RRS HDAP / an RRS message with each opcode'; the transport is an external stub "
        "whose sendto calls are the recorded effects.  hstrp_send_ack, hstrp_send_heartbeat, rrs_confirm, deepcopy and "
        "HSTRP.as_bytes are interpreted for real, so the bytes of every answer are bit forms over the request's atoms. "
        "Rules are predicates over (which type bits the path fixes, effect sequence, final handler state)."
    )
    ctx.assumptions = ["a datagram is either rejected by HSTRP.from_bytes (exception or None) or yields an HSTRP object with arbitrary type bits / S-N / payload kind",
                       "well-formed = at most one of connect, heartbeat, close, reject set (besides ack/options)"]
    ctx.rule("handler/never-raises", "no path of datagram_received ends in an exception")
    ctx.rule("ack/never-answered", "every path on which a datagram is sent has is_ack fixed to 0 (an acknowledgement is never answered)")
    ctx.rule("ack/exactly-once", "a well-formed non-ack connect, close or data message is answered by exactly one acknowledgement: same S/N bits, ack bit set, reject clear, no payload bytes")
    ctx.rule("heartbeat/only-connected", "a heartbeat is echoed only on paths where the connected flag is fixed to 1, with S/N 0 and never acknowledged")
    ctx.rule("connected/flag", "after the call the connected flag is 1 for a non-ack connect, 0 for a non-ack close, unchanged otherwise")
    ctx.rule("parse/rejected-silently", "a datagram the decoder rejects produces no datagram and returns (False, None)")
    ctx.rule("rrs/registry", "the registry is written only for registration request / going offline, keyed by the payload's radio address, with Online / Offline")
    ctx.rule("rrs/confirm-once", "each registration request is answered by exactly one success answer whose S/N is the incremented own counter reduced modulo 0xFFFF (fits 16 bits); nothing else is confirmed")
    hci = repo.cls(HMOD, "HSTRPDatagramProtocol")
    dr = repo.find_method(hci, "datagram_received")
    for n_ in ("datagram_received", "hstrp_send_ack", "hstrp_send_heartbeat", "hstrp_set_connected", "hstrp_increment_sn"):
        ctx.saw_func(repo.func(HMOD, f"HSTRPDatagramProtocol.{n_}"))
    hdap_ci = repo.cls("hytera.pdu.hdap", "HDAP")

    def hdap_stub(I):
        o = AObj(hdap_ci, {"is_reliable": False})
        o.attrs["__payload_marker__"] = True
        return o

    # ------------------------------------------------------------------ HSTRP layer
    with ctx.guard("HSTRP layer"):
        hstrp_layer(ctx, repo, hci, dr, hdap_ci, hdap_stub)
    with ctx.guard("RRS layer"):
        rrs_layer(ctx, repo, hdap_ci, hdap_stub)
    ctx.require("ack/never-answered", 1)
    ctx.require("rrs/registry", 1)


def hstrp_layer(ctx, repo, hci, dr, hdap_ci, hdap_stub):
    I = Interp(repo)
    I.uninterpreted_arith = True
    install_decoder(I, repo, [("hdap", hdap_stub)])
    # payload.as_bytes of the stub: marker bytes (must never be sent in an ack)
    I.summaries[repo.find_method(hdap_ci, "as_bytes").qualname] = lambda I_, fi, args, kw, bc: ABits([I_.atom_form(("payload-byte", i)) for i in range(16)], "bytes")

    def run_h(st):
        I.st = st
        ci, h, conn = make_handler(I, repo, HMOD, "HSTRPDatagramProtocol")
        r = I.call(dr, [h, ABits([I.atom_form(("raw", i)) for i in range(64)], "bytes"), ("10.0.0.1", 50000)], {})
        return h, conn, r

    res = explore(run_h, max_paths=4000)
    n_paths = 0
    raised, answered, once_bad, hb_bad, flag_bad, rej_bad = [], [], [], [], [], []
    for st, (k, v) in res:
        I.st = st
        n_paths += 1
        taken = [l for l, d in zip(st.labels, st.decisions) if d]
        if k == "abort":
            raise AnalysisError(f"{dr.qualname}: {v} on path {st.labels[-3:]}")
        if k == "raise":
            raised.append(f"{v.exc} at {v.msg} on path {taken[-3:]}")
            continue
        h, conn, r = v
        sd = sends(st)
        req = st.__dict__.get("request")
        if req is None:
            # decoder rejected the datagram
            ok_ret = isinstance(r, tuple) and len(r) == 2 and r[0] is False and r[1] is None
            if sd or not ok_ret:
                rej_bad.append(f"{len(sd)} datagram(s) sent / returns {r!r}")
            continue
        bits = {b: const_of(I, st.__dict__["request_bits"][b]) for b in TYPE_BITS}
        desc = ",".join(f"{b}={bits[b]}" for b in TYPE_BITS if bits[b] is not None)
        # never answered
        if sd and bits["is_ack"] != 0:
            answered.append(f"{len(sd)} datagram(s) sent on a path with is_ack {'=1' if bits['is_ack'] == 1 else 'unconstrained'} [{desc}] from {[e[3] for e in sd]}")
        # classification of well-formed messages
        kinds = [b for b in ("is_connect", "is_heartbeat", "is_close", "is_reject") if bits[b] == 1]
        unknown = [b for b in ("is_connect", "is_heartbeat", "is_close", "is_reject") if bits[b] is None]
        conn0 = const_of(I, conn)
        final = const_of(I, h.attrs.get("hstrp_connected"))
        final_same = _same_form(I, h.attrs.get("hstrp_connected"), conn)
        if bits["is_ack"] == 0 and len(kinds) <= 1:
            if kinds == ["is_heartbeat"]:
                acks = [e for e in sd if _is_ack_datagram(I, e)]
                hbs = [e for e in sd if not _is_ack_datagram(I, e)]
                if acks:
                    hb_bad.append(f"a heartbeat is acknowledged [{desc}]")
                if hbs and conn0 != 1:
                    hb_bad.append(f"heartbeat echoed although connected is {'0' if conn0 == 0 else 'not tested'} [{desc}]")
                if conn0 == 1 and len(hbs) != 1:
                    hb_bad.append(f"{len(hbs)} heartbeats echoed while connected [{desc}]")
                for e in hbs:
                    why = _check_heartbeat(I, e)
                    if why:
                        hb_bad.append(why)
            elif not unknown or kinds:
                # connect / close / reject / plain data
                if bits["is_heartbeat"] == 0 or kinds:
                    if len(sd) != 1:
                        once_bad.append(f"{len(sd)} datagrams for a non-ack {'/'.join(kinds) or 'data'} message [{desc}]")
                    else:
                        why = _check_ack(I, st, sd[0])
                        if why:
                            once_bad.append(f"{why} [{desc}]")
            # connected flag
            if kinds == ["is_connect"] and final != 1:
                flag_bad.append(f"connected flag is not 1 after a connect [{desc}]")
            elif kinds == ["is_close"] and final != 0:
                flag_bad.append(f"connected flag is not 0 after a close [{desc}]")
            elif kinds not in (["is_connect"], ["is_close"]) and not unknown and not final_same:
                flag_bad.append(f"connected flag changed by a {'/'.join(kinds) or 'data'} message [{desc}]")
        if bits["is_ack"] == 1 and not final_same:
            flag_bad.append(f"connected flag changed by an acknowledgement [{desc}]")
    q = dr.qualname
    ctx.extra["paths_hstrp"] = n_paths
    ctx.ob("handler/never-raises", q, not raised, f"{n_paths} paths; " + ("; ".join(raised[:3]) or "none raises"), dr.loc)
    ctx.ob("ack/never-answered", q, not answered, "; ".join(sorted(set(answered))[:3]) or f"{n_paths} paths, sends only with is_ack=0", dr.loc)
    ctx.ob("ack/exactly-once", q, not once_bad, "; ".join(sorted(set(once_bad))[:3]) or "one ack with the request's S/N, ack bit set, no payload", dr.loc)
    ctx.ob("heartbeat/only-connected", q, not hb_bad, "; ".join(sorted(set(hb_bad))[:3]) or "echo only while connected", dr.loc)
    ctx.ob("connected/flag", q, not flag_bad, "; ".join(sorted(set(flag_bad))[:3]) or "flag follows connect/close", dr.loc)
    ctx.ob("parse/rejected-silently", q, not rej_bad, "; ".join(sorted(set(rej_bad))[:3]) or "rejected datagrams are dropped silently", dr.loc)
    ctx.sample({"handler": q, "paths": n_paths, "example_path": [l for l, d in zip(res[0][0].labels, res[0][0].decisions) if d][:6]})
    # connection_lost resets the flag
    cl = repo.find_method(hci, "connection_lost")
    I2 = Interp(repo)
    I2.uninterpreted_arith = True

    def run_cl(st):
        I2.st = st
        ci, h, conn = make_handler(I2, repo, HMOD, "HSTRPDatagramProtocol")
        I2.call(cl, [h, None], {})
        return h

    for st, (k, v) in explore(run_cl):
        I2.st = st
        ctx.ob("connected/flag", cl.qualname, k == "ok" and const_of(I2, v.attrs.get("hstrp_connected")) == 0, "connection_lost clears the flag", cl.loc)



def rrs_layer(ctx, repo, hdap_ci, hdap_stub):
    rci = repo.cls(RMOD, "RRSDatagramProtocol")
    rdr = repo.find_method(rci, "datagram_received")
    ctx.saw_func(rdr)
    ctx.saw_func(repo.find_method(rci, "rrs_confirm"))
    rrs_ci = repo.cls("hytera.pdu.radio_registration_service", "RadioRegistrationService")
    rrs_types = repo.enum_members(repo.cls("hytera.pdu.radio_registration_service", "RRSTypes"))
    states = repo.enum_members(repo.cls("hytera.pdu.radio_registration_service", "RRSRadioState"))
    ip_ci = repo.cls("hytera.pdu.radio_ip", "RadioIP")

    def rrs_maker(opname):
        def mk(I_):
            ip = I_.construct(ip_ci, [], {"subnet": AInt([I_.atom_form(("ip", i)) for i in range(8)]), "radio_id": AInt([I_.atom_form(("rid", i)) for i in range(24)])}) \
                if "subnet" in repo.find_method(ip_ci, "__init__").params else AObj(ip_ci, {})
            o = I_.construct(rrs_ci, [], {"opcode": rrs_types[opname], "radio_ip": ip})
            return o
        return mk

    I3 = Interp(repo)
    I3.uninterpreted_arith = True
    install_decoder(I3, repo, [(f"rrs:{n}", rrs_maker(n)) for n in rrs_types] + [("hdap", hdap_stub)])
    I3.summaries[repo.find_method(ip_ci, "as_ip").qualname] = lambda I_, fi, args, kw, bc: "10.0.0.100"

    def run_r(st):
        I3.st = st
        ci, h, conn = make_handler(I3, repo, RMOD, "RRSDatagramProtocol")
        # the radio's earlier history: never seen / last seen registering / last seen going offline
        if st.choose("history:online"):
            h.attrs["registry"] = {"10.0.0.100": states["Online"]}
        elif st.choose("history:offline"):
            h.attrs["registry"] = {"10.0.0.100": states["Offline"]}
        h.attrs["registry"]["10.0.0.200"] = states["Online"]
        st.__dict__["registry_before"] = dict(h.attrs["registry"])
        r = I3.call(rdr, [h, ABits([I3.atom_form(("raw", i)) for i in range(64)], "bytes"), ("10.0.0.1", 50000)], {})
        st.__dict__["conn_before"] = conn
        return h, r

    reg_bad, conf_bad, raised, flag_bad_r = [], [], [], []
    n_r = 0
    for st, (k, v) in explore(run_r, max_paths=20000):
        I3.st = st
        n_r += 1
        taken = [l for l, d in zip(st.labels, st.decisions) if d]
        if k == "abort":
            raise AnalysisError(f"{rdr.qualname}: {v} on path {taken[-3:]}")
        if k == "raise":
            raised.append(f"{v.exc} at {v.msg} on path {taken[-3:]}")
            continue
        h, r = v
        req = st.__dict__.get("request")
        registry = h.attrs.get("registry", {})
        op = None
        if req is not None and isinstance(req.attrs.get("payload"), AObj) and req.attrs["payload"].cls is rrs_ci:
            op = req.attrs["payload"].attrs.get("opcode")
        bits = {b: const_of(I3, st.__dict__["request_bits"][b]) for b in TYPE_BITS} if req is not None else {}
        # the connected flag follows connect / close in the registration layer as well (whatever the payload is)
        conn = st.__dict__.get("conn_before")
        if req is not None and conn is not None:
            kinds = [b for b in ("is_connect", "is_heartbeat", "is_close", "is_reject") if bits[b] == 1]
            unknown = [b for b in ("is_connect", "is_heartbeat", "is_close", "is_reject") if bits[b] is None]
            final = const_of(I3, h.attrs.get("hstrp_connected"))
            final_same = _same_form(I3, h.attrs.get("hstrp_connected"), conn)
            pk = op.name if op is not None else "no RRS payload"
            if bits["is_ack"] == 0 and len(kinds) <= 1:
                if kinds == ["is_connect"] and final != 1:
                    flag_bad_r.append(f"connected flag is not 1 after a connect [{pk}]")
                elif kinds == ["is_close"] and final != 0:
                    flag_bad_r.append(f"connected flag is not 0 after a close [{pk}]")
                elif kinds not in (["is_connect"], ["is_close"]) and not unknown and not final_same:
                    flag_bad_r.append(f"connected flag changed by a {'/'.join(kinds) or 'data'} message [{pk}]")
            if bits["is_ack"] == 1 and not final_same:
                flag_bad_r.append(f"connected flag changed by an acknowledgement [{pk}]")
        want = None
        if op == rrs_types.get("RadioRegistrationRequest"):
            want = states["Online"]
        elif op == rrs_types.get("RadioGoingOffline"):
            want = states["Offline"]
        confirms = [e for e in sends(st) if e[3].startswith(f"{RMOD}:RRSDatagramProtocol.rrs_confirm")]
        before = st.__dict__.get("registry_before", {})
        if want is None:
            if registry != before:
                reg_bad.append(f"registry changed for payload opcode {op}")
            if confirms:
                conf_bad.append(f"{len(confirms)} confirm(s) for payload opcode {op}")
            continue
        key = "10.0.0.100"
        expect = dict(before)
        expect[key] = want
        if registry != expect:
            reg_bad.append(f"opcode {op.name} with history {before.get(key)}: registry is {registry}, expected {expect}")
        n_want = 1 if want == states["Online"] else 0
        if len(confirms) != n_want:
            conf_bad.append(f"opcode {op.name} with history {before.get(key)}: {len(confirms)} confirm datagram(s), expected {n_want}")
        for e in confirms:
            d = sent_bytes(e)
            if not isinstance(d, ABits) or len(d.items) < 48:
                raise AnalysisError("the registration answer datagram is not an octet string the analysis can read (a serialiser that is not followed)")
            snb = I3.simp_bits(d.items[32:48])
            names = {I3.atoms.names[a][0] if isinstance(I3.atoms.names[a], tuple) else None for b in snb if isinstance(b, F) for a in b.atoms()}
            if getattr(d, "may_overflow", False) or not all(isinstance(b, F) for b in snb) or names - {"fn"}:
                conf_bad.append(f"confirm S/N is not the bounded incremented counter (atoms {names})")
    q = rdr.qualname
    ctx.extra["paths_rrs"] = n_r
    ctx.ob("handler/never-raises", q, not raised, f"{n_r} paths; " + ("; ".join(sorted(set(raised))[:3]) or "none raises"), rdr.loc)
    ctx.ob("connected/flag", q, not flag_bad_r, "; ".join(sorted(set(flag_bad_r))[:3]) or "flag follows connect/close, whatever the payload", rdr.loc)
    ctx.ob("rrs/registry", q, not reg_bad, "; ".join(sorted(set(reg_bad))[:3]) or f"{n_r} paths: registry follows the last registration / offline message", rdr.loc)
    sn_invariant(ctx, repo, rci)
    with ctx.guard("log arguments"):
        log_arguments(ctx, repo)
    ctx.ob("rrs/confirm-once", q, not conf_bad, "; ".join(sorted(set(conf_bad))[:3]) or "one success answer per registration request with a bounded S/N", rdr.loc)


def _same_form(I, a, b):
    if isinstance(a, AInt) and isinstance(b, AInt):
        return I.simp(a.bit(0)) == I.simp(b.bit(0))
    ca, cb = const_of(I, a), const_of(I, b)
    return ca is not None and ca == cb


def _type_byte(I, e):
    d = sent_bytes(e)
    if not isinstance(d, ABits) or d.kind != "bytes" or len(d.items) < 48:
        return None, d
    return I.simp_bits(d.items[24:32]), d


def _is_ack_datagram(I, e):
    tb, d = _type_byte(I, e)
    if tb is None:
        return False
    return isinstance(tb[7], F) and tb[7].is_const and tb[7].c == 1


def _check_heartbeat(I, e):
    tb, d = _type_byte(I, e)
    if tb is None:
        raise AnalysisError("the echoed heartbeat datagram is not an octet string the analysis can read (a serialiser that is not followed)")
    want = [0, 0, 0, 0, 0, 0, 1, 0]
    if [b.c if isinstance(b, F) and b.is_const else None for b in tb] != want:
        return "echoed datagram is not a pure heartbeat"
    sn = I.simp_bits(d.items[32:48])
    if not all(isinstance(b, F) and b.is_const and b.c == 0 for b in sn):
        return "heartbeat S/N is not 0"
    return None


def _check_ack(I, st, e):
    tb, d = _type_byte(I, e)
    if tb is None:
        raise AnalysisError("the acknowledgement datagram is not an octet string the analysis can read (a serialiser that is not followed)")
    if not (isinstance(tb[7], F) and tb[7].is_const and tb[7].c == 1):
        return "answer does not have the ack bit set"
    if not (isinstance(tb[3], F) and tb[3].is_const and tb[3].c == 0):
        return "answer has the reject bit set"
    sn = I.simp_bits(d.items[32:48])
    want = I.simp_bits(st.__dict__["request_sn"].msb_first(16))
    if sn != want:
        return "answer does not carry the request's sequence number"
    for b in d.items:
        b = I.simp(b)
        if isinstance(b, F):
            for a in b.atoms():
                nm = I.atoms.names[a]
                if isinstance(nm, tuple) and nm[0] == "payload-byte":
                    return "answer carries the request's payload"
    if e[2].get("addr", e[1][1] if len(e[1]) > 1 else None) != ("10.0.0.1", 50000):
        return "answer is not addressed to the sender"
    return None


TOTAL_CODECS = {"latin", "latin1", "latin-1", "latin_1", "iso-8859-1", "iso8859-1", "l1", "cp437", "raw_unicode_escape"}   # every octet string decodes


def log_arguments(ctx, repo):
    """'handling never raises' includes what the handlers hand to their log calls: they are evaluated eagerly.  Where a handler logs
    repr(<received PDU>), every __repr__ / __str__ that can be reached from an HSTRP packet (HSTRP itself, its option / type objects,
    every HDAP payload class and the classes of their fields) must be total: no strict decoding of received octets"""
    ctx.rule("handler/log-arguments", "where a handler logs repr() of a received packet, no reachable __repr__ / __str__ decodes received octets with a codec that can fail (no errors= argument, not a total codec, not inside a try that catches it)")
    handlers = [repo.cls(HMOD, "HSTRPDatagramProtocol"), repo.cls(RMOD, "RRSDatagramProtocol")]
    logs_repr = []
    for ci in handlers:
        for m in ci.methods.values():
            for n in ast.walk(m.node):
                if isinstance(n, ast.Call) and isinstance(n.func, ast.Attribute) and n.func.attr.startswith(("log_", "debug", "info", "warning", "error")):
                    for a in list(n.args) + [k.value for k in n.keywords]:
                        for x in ast.walk(a):
                            if isinstance(x, ast.Call) and isinstance(x.func, ast.Name) and x.func.id in ("repr", "str") and x.args and not isinstance(x.args[0], ast.Constant):
                                logs_repr.append(f"{m.qualname}:{n.lineno}")
                            elif isinstance(x, ast.FormattedValue) and isinstance(x.value, ast.Name) and x.value.id in ("pdu", "hstrp", "request", "payload"):
                                logs_repr.append(f"{m.qualname}:{n.lineno}")
    if not logs_repr:
        ctx.ob("handler/log-arguments", "handlers", True, "no handler logs the repr of a received packet", handlers[0].loc)
        return
    hdap = repo.cls("hytera.pdu.hdap", "HDAP")
    reach = [c for c in repo.all_classes() if c.module.short.startswith("hytera.pdu.") and (hdap in repo.mro(c) or c.name.startswith("HSTRP") or c.name in ("RadioIP", "GPSData"))]
    n_repr = 0
    for c in reach:
        for name in ("__repr__", "__str__"):
            m = c.methods.get(name)
            if m is None:
                continue
            n_repr += 1
            guarded = set()
            for t in ast.walk(m.node):
                if isinstance(t, ast.Try) and any(h.type is None or any(isinstance(y, ast.Name) and y.id in ("Exception", "UnicodeDecodeError", "UnicodeError", "ValueError", "BaseException") for y in ast.walk(h.type)) for h in t.handlers):
                    for b in t.body:
                        guarded.update(id(y) for y in ast.walk(b))
            bad = []
            for x in ast.walk(m.node):
                if not (isinstance(x, ast.Call) and isinstance(x.func, ast.Attribute) and x.func.attr == "decode") or id(x) in guarded:
                    continue
                if any(k.arg == "errors" for k in x.keywords) or len(x.args) >= 2:
                    continue
                codec = x.args[0].value if x.args and isinstance(x.args[0], ast.Constant) and isinstance(x.args[0].value, str) else None
                if codec is not None and codec.lower() in TOTAL_CODECS:
                    continue
                bad.append(f"line {x.lineno}: {ast.unparse(x)[:70]}")
            ctx.ob("handler/log-arguments", f"{c.qualname}.{name}", not bad,
                   (f"logged by {logs_repr[0]}; " + "; ".join(bad[:2]) + " — raises UnicodeDecodeError for received octets that are not valid text") if bad else "total", m.loc)
    if n_repr < 5:
        raise AnalysisError(f"only {n_repr} __repr__ methods of HSTRP / HDAP classes found")


def sn_invariant(ctx, repo, pci):
    """the own sequence number stays a 16-bit value: every method of the handler class that assigns self.sn maps the invariant
    self.sn in [0, 0xFFFF] at its entry to the same invariant at each of its exits (interval evaluation along the statements of the
    method, with the branches of comparisons against constants refined) — inductive over any history length, so the 2-octet S/N
    field of an answer can never overflow"""
    import ast as _ast
    from sa.intervals import INF, Iv, expr_interval
    ctx.rule("sn/stays-16-bit", "every method that assigns the handler's own sequence number re-establishes 0..0xFFFF at each of its exits, by interval evaluation from the invariant itself (inductive over any history)")
    n = 0
    SN = "self.sn"

    def key_of(e):
        if isinstance(e, _ast.Name):
            return e.id
        if isinstance(e, _ast.Attribute) and isinstance(e.value, _ast.Name) and e.value.id == "self":
            return f"self.{e.attr}"
        return None

    def targets_of(x):
        ts = x.targets if isinstance(x, _ast.Assign) else [x.target]
        out = []
        for t in ts:
            out += list(t.elts) if isinstance(t, (_ast.Tuple, _ast.List)) else [t]
        return out

    def analyse(fi, ci, env0, depth=0):
        """interval flow through one method from env0: (exits [(line, env)], returned value intervals [Iv | None])"""
        fold = lambda e: repo.fold_expr(e, fi.module, ci)
        exits, rets = [], []

        def callee_of(call):
            """a call of a method of the same class (self.m / cls.m / Class.m) or of a function of the same module"""
            f = call.func
            if isinstance(f, _ast.Attribute) and isinstance(f.value, _ast.Name) and (f.value.id in ("self", "cls") or f.value.id == ci.name):
                m = repo.find_method(ci, f.attr)
                return (m, ci) if m is not None else None
            if isinstance(f, _ast.Name) and f.id in fi.module.functions:
                return fi.module.functions[f.id], None
            return None

        def ev(e, env):
            if isinstance(e, _ast.Call) and not e.keywords and callee_of(e) is not None and depth < 3:
                callee, cci = callee_of(e)
                params = [a.arg for a in callee.node.args.posonlyargs + callee.node.args.args]
                if callee.kind in ("method", "classmethod") and cci is not None:
                    params = params[1:]
                if len(params) != len(e.args) or callee.node.args.vararg or callee.node.args.kwarg:
                    raise AnalysisError(f"{fi.qualname}:{e.lineno}: call of {callee.qualname} with defaults / variadic arguments not analysable over intervals")
                cenv = {p_: ev(a, env) for p_, a in zip(params, e.args)}
                if SN in env:
                    cenv[SN] = env[SN]
                _, crets = analyse(callee, cci if cci is not None else ci, cenv, depth + 1)
                if not crets or any(r is None for r in crets):
                    raise AnalysisError(f"{fi.qualname}:{e.lineno}: the value returned by {callee.qualname} is not analysable over intervals")
                out = crets[0]
                for r in crets[1:]:
                    out = out.join(r)
                return out
            return expr_interval(fi, e, env, fold=fold)

        def refine(test, env, truth):
            """env restricted to the outcome `truth` of a comparison of a tracked value with a constant (else unchanged)"""
            if isinstance(test, _ast.UnaryOp) and isinstance(test.op, _ast.Not):
                return refine(test.operand, env, not truth)
            parts = None
            if isinstance(test, _ast.Compare) and len(test.ops) > 1:     # a <= x < b  ==  (a <= x) and (x < b)
                seq = [test.left] + list(test.comparators)
                parts, conj = [_ast.copy_location(_ast.Compare(left=seq[i], ops=[test.ops[i]], comparators=[seq[i + 1]]), test) for i in range(len(test.ops))], True
            elif isinstance(test, _ast.BoolOp):
                parts, conj = list(test.values), isinstance(test.op, _ast.And)
            if parts is not None:
                if conj == truth:          # all parts have the outcome `truth`
                    for p_ in parts:
                        env = refine(p_, env, truth)
                        if env is None:
                            return None
                    return env
                outs = [refine(p_, env, truth) for p_ in parts]   # at least one part has it
                outs = [o for o in outs if o is not None]
                if not outs:
                    return None
                res = {k: v for k, v in outs[0].items() if all(k in o for o in outs)}
                for o in outs[1:]:
                    res = {k: res[k].join(o[k]) for k in res}
                return res
            if isinstance(test, _ast.Compare) and len(test.ops) == 1:
                l, r, op = test.left, test.comparators[0], test.ops[0]
                k = key_of(l)
                flip = False
                if k is None or k not in env:
                    k, l, r, flip = key_of(r), r, l, True
                if k is not None and k in env:
                    try:
                        c = ev(r, env)
                    except AnalysisError:
                        return env
                    if c.lo != c.hi:
                        return env
                    c = c.lo
                    name = type(op).__name__
                    if flip:
                        name = {"Gt": "Lt", "GtE": "LtE", "Lt": "Gt", "LtE": "GtE"}.get(name, name)
                    if not truth:
                        name = {"Gt": "LtE", "GtE": "Lt", "Lt": "GtE", "LtE": "Gt", "Eq": "NotEq", "NotEq": "Eq"}.get(name, name)
                    cur = env[k]
                    lo, hi = cur.lo, cur.hi
                    if name == "Gt":
                        lo = max(lo, c + 1)
                    elif name == "GtE":
                        lo = max(lo, c)
                    elif name == "Lt":
                        hi = min(hi, c - 1)
                    elif name == "LtE":
                        hi = min(hi, c)
                    elif name == "Eq":
                        lo, hi = max(lo, c), min(hi, c)
                    elif name == "NotEq":
                        if lo == c:
                            lo += 1
                        if hi == c:
                            hi -= 1
                    if lo > hi:
                        return None          # this outcome is impossible here
                    env = dict(env)
                    env[k] = Iv(lo, hi)
            return env


        def store(env, t, compute):
            k = key_of(t)
            if k is None:
                return env
            env = dict(env)
            try:
                env[k] = compute()
            except AnalysisError:
                if k == SN:
                    raise
                env.pop(k, None)
            return env

        def flow(stmts, env):
            """env after the statements (None when every path has left the method)"""
            for st_ in stmts:
                if env is None:
                    return None
                if isinstance(st_, (_ast.Assign, _ast.AnnAssign)) and getattr(st_, "value", None) is not None:
                    for t in (st_.targets if isinstance(st_, _ast.Assign) else [st_.target]):
                        if isinstance(t, (_ast.Tuple, _ast.List)):
                            v = st_.value
                            if isinstance(v, _ast.Call) and isinstance(v.func, _ast.Name) and v.func.id == "divmod" and len(v.args) == 2 and len(t.elts) == 2 and not v.keywords:
                                parts = [_ast.BinOp(left=v.args[0], op=_ast.FloorDiv(), right=v.args[1]), _ast.BinOp(left=v.args[0], op=_ast.Mod(), right=v.args[1])]
                            elif isinstance(v, (_ast.Tuple, _ast.List)) and len(v.elts) == len(t.elts):
                                parts = list(v.elts)
                            else:
                                if any(key_of(x) == SN for x in t.elts):
                                    raise AnalysisError(f"{fi.qualname}:{st_.lineno}: the sequence number is unpacked from a value that is not analysable over intervals")
                                env = dict(env)
                                for x in t.elts:
                                    env.pop(key_of(x), None)
                                continue
                            for p_ in parts:
                                _ast.copy_location(p_, st_)
                                _ast.fix_missing_locations(p_)
                            before = env                       # the right-hand side is evaluated before any target is bound
                            for x, p_ in zip(t.elts, parts):
                                env = store(env, x, lambda p_=p_: ev(p_, before))
                        else:
                            env = store(env, t, lambda: ev(st_.value, env))
                elif isinstance(st_, _ast.AugAssign):
                    k = key_of(st_.target)
                    if k is not None:
                        val = _ast.BinOp(left=_ast.copy_location(_ast.Attribute(value=_ast.Name(id="self", ctx=_ast.Load()), attr=k[5:], ctx=_ast.Load()), st_) if k.startswith("self.") else _ast.Name(id=k, ctx=_ast.Load()),
                                         op=st_.op, right=st_.value)
                        _ast.copy_location(val, st_)
                        _ast.fix_missing_locations(val)
                        env = store(env, st_.target, lambda: ev(val, env))
                elif isinstance(st_, _ast.If):
                    e1 = refine(st_.test, env, True)
                    e2 = refine(st_.test, env, False)
                    o1 = flow(st_.body, e1) if e1 is not None else None
                    o2 = flow(st_.orelse, e2) if e2 is not None else None
                    if o1 is None or o2 is None:
                        env = o1 if o2 is None else o2
                    else:
                        env = {k: o1[k].join(o2[k]) for k in o1 if k in o2}
                elif isinstance(st_, (_ast.For, _ast.While, _ast.AsyncFor)):
                    if any(key_of(t) == SN for x in _ast.walk(st_) if isinstance(x, (_ast.Assign, _ast.AnnAssign, _ast.AugAssign)) for t in targets_of(x)):
                        raise AnalysisError(f"{fi.qualname}: the sequence number is assigned inside a loop (no interval fixpoint implemented)")
                    written = {key_of(t) for x in _ast.walk(st_) if isinstance(x, (_ast.Assign, _ast.AnnAssign, _ast.AugAssign)) for t in targets_of(x)}
                    env = {k: v for k, v in env.items() if k not in written}
                elif isinstance(st_, (_ast.With, _ast.AsyncWith)):
                    env = flow(st_.body, env)
                elif isinstance(st_, _ast.Try):
                    o = flow(st_.body, env)
                    # a handler may start from any state between the entry of the block and its end
                    h_in = env if o is None else {k: env[k].join(o[k]) for k in env if k in o}
                    outs = [flow(st_.orelse, o) if o is not None else None] + [flow(h.body, h_in) for h in st_.handlers]
                    outs = [x for x in outs if x is not None]
                    env = None if not outs else {k: v for k, v in outs[0].items() if all(k in x for x in outs)}
                    if env is not None:
                        for x in outs[1:]:
                            env = {k: env[k].join(x[k]) for k in env}
                        env = flow(st_.finalbody, env)
                elif isinstance(st_, _ast.Return):
                    exits.append((st_.lineno, env))
                    if st_.value is not None:
                        try:
                            rets.append(ev(st_.value, env))
                        except AnalysisError:
                            rets.append(None)
                    else:
                        rets.append(None)
                    return None
                elif isinstance(st_, _ast.Raise):
                    return None
            return env

        end = flow(fi.node.body, dict(env0))
        if end is not None:
            exits.append((fi.node.end_lineno, end))
            rets.append(None)
        return exits, rets

    for ci in [pci] + [c for c in repo.mro(pci)[1:]]:
        for fi in ci.methods.values():
            assigns = [x for x in _ast.walk(fi.node) if isinstance(x, (_ast.Assign, _ast.AnnAssign, _ast.AugAssign)) and any(key_of(t) == SN for t in targets_of(x))]
            if not assigns or fi.name == "__init__":
                continue
            n += 1
            env_in = {SN: Iv(0, 0xFFFF)}
            # parameters: the interval of what the handler classes pass at every call site — a peer's sequence number (`<pdu>.sn`, the
            # two-octet wire field) is 0..0xFFFF, constants are themselves; anything else leaves the parameter untracked (exit 2 if used)
            a_ = fi.node.args
            for p_i, p_ in enumerate([x.arg for x in a_.posonlyargs + a_.args][1:]):
                ivs = []
                for c2 in [pci] + [c for c in repo.mro(pci)[1:]]:
                    for g in c2.methods.values():
                        for call in _ast.walk(g.node):
                            if isinstance(call, _ast.Call) and isinstance(call.func, _ast.Attribute) and call.func.attr == fi.name \
                                    and isinstance(call.func.value, _ast.Name) and call.func.value.id in ("self", "cls"):
                                arg = call.args[p_i] if len(call.args) > p_i else next((k.value for k in call.keywords if k.arg == p_), None)
                                if isinstance(arg, _ast.Attribute) and arg.attr == "sn" and not (isinstance(arg.value, _ast.Name) and arg.value.id == "self"):
                                    ivs.append(Iv(0, 0xFFFF))
                                elif isinstance(arg, _ast.Constant) and isinstance(arg.value, int) and not isinstance(arg.value, bool):
                                    ivs.append(Iv(arg.value, arg.value))
                                else:
                                    ivs.append(None)
                if ivs and all(v is not None for v in ivs):
                    j_ = ivs[0]
                    for v in ivs[1:]:
                        j_ = j_.join(v)
                    env_in[p_] = j_
            exits, _ = analyse(fi, ci, env_in)
            exits = [(ln, env.get(SN)) for ln, env in exits]
            bad = [(ln, iv) for ln, iv in exits if iv is None or iv.lo < 0 or iv.hi > 0xFFFF]
            ok = not bad and bool(exits)
            detail = f"self.sn in [0, 0xffff] at entry  =>  at the exits {[(ln, str(iv)) for ln, iv in exits][:4]}"
            ctx.ob("sn/stays-16-bit", f"{fi.qualname} | {len(assigns)} assignment(s) to self.sn", ok, detail, f"{fi.module.relpath}:{(bad[0][0] if bad else assigns[0].lineno)}")
    ctx.require("sn/stays-16-bit", 1)
