"""C03 — layer-2/3 PDUs and information elements: codec symmetry per branch, widths, enum totality."""
from __future__ import annotations

from sa.bitabs import ABits, AEnum, AInt, AObj, Abort, F, Interp, PathRaise, explore
from sa.model import AnalysisError, ClassRef, EnumMember, Unfoldable
from sa.pdu import CRASHES, analyse_pair, INDICATORS

# (module, class, reader, writer, wire sizes, typed-reader argument enumerations)
PAIRS = [
    ("etsi.layer2.pdu.csbk", "CSBK", "from_bits", "as_bits", [96], None),
    ("etsi.layer2.pdu.data_header", "DataHeader", "from_bits", "as_bits", [96], None),
    ("etsi.layer2.pdu.full_link_control", "FullLinkControl", "from_bits", "as_bits", [96, 77], None),
    ("etsi.layer2.pdu.short_link_control", "ShortLinkControl", "from_bits", "as_bits", [36], None),
    ("etsi.layer2.pdu.pi_header", "PIHeader", "from_bits", "as_bits", [96], None),
    ("etsi.layer2.pdu.slot_type", "SlotType", "from_bits", "as_bits", [20], None),
    ("etsi.layer2.pdu.embedded_signalling", "EmbeddedSignalling", "from_bits", "as_bits", [16], None),
    ("etsi.layer2.pdu.rate12_data", "Rate12Data", "from_bits_typed", "as_bits", [96], ("Rate12DataTypes", ["Unconfirmed", "Confirmed", "UnconfirmedLastBlock", "ConfirmedLastBlock"])),
    ("etsi.layer2.pdu.rate34_data", "Rate34Data", "from_bits_typed", "as_bits", [144], ("Rate34DataTypes", ["Unconfirmed", "Confirmed", "UnconfirmedLastBlock", "ConfirmedLastBlock"])),
    ("etsi.layer2.pdu.rate1_data", "Rate1Data", "from_bits_typed", "as_bits", [192], ("Rate1DataTypes", ["Unconfirmed", "Confirmed", "UnconfirmedLastBlock", "ConfirmedLastBlock"])),
    ("etsi.layer3.pdu.udp_ipv4_compressed_header", "UDPIPv4CompressedHeader", "from_bits", "as_bits", [96], None),
    ("etsi.layer3.elements.service_options", "ServiceOptions", "from_bits", "as_bits", [8], None),
    ("etsi.layer2.elements.fragment_sequence_number", "FragmentSequenceNumber", "from_bits", "as_bits", [4], None),
]

# discriminator-branch counts confirmed by reading (successful reader branches per pair and size)
MIN_BRANCHES = {"CSBK": 9, "DataHeader": 5, "FullLinkControl": 7, "ShortLinkControl": 2, "Rate12Data": 4, "Rate34Data": 4, "Rate1Data": 4}


def branch_name(I, br):
    """stable name of a reader branch: the enum-valued attributes that are constant on the path"""
    if br.obj is None:
        return "no-object"
    parts = []
    for k, v in br.obj.attrs.items():
        if isinstance(v, AEnum) and v.val.ext is None:
            bits = I_simp(I, v.val.bits)
            if bits is not None:
                val = sum(b << i for i, b in enumerate(bits))
                name = None
                for m in I.repo.enum_members(v.cls).values():
                    if m.value == val:
                        name = m.name
                        break
                parts.append(f"{k}={name if name else val}")
        elif isinstance(v, EnumMember) and k in ("packet_type", "data_packet_format", "csbko", "slco", "full_link_control_opcode"):
            parts.append(f"{k}={v.name}")
    return ",".join(parts[:2]) if parts else "single"


def I_simp(I, bits):
    out = []
    for b in bits:
        b = I.simp(b)
        if not (isinstance(b, F) and b.is_const):
            return None
        out.append(b.c)
    return out


def known_eq(I, st, forms, const):
    """does the path KNOW whether the value of these bits (msb first) equals const?  True / False / None (open) — never forks"""
    w = len(forms)
    eqs = [f ^ ((const >> (w - 1 - i)) & 1) for i, f in enumerate(forms)]
    s_ = st.lin.implied(eqs)
    if s_ == "true":
        return True
    if s_ == "false":
        return False
    red = tuple(st.lin.reduce(f) for f in forms)
    for k, c, eq in st.eqs:
        if not eq and c == const and tuple(st.lin.reduce(f) if isinstance(f, F) else f for f in k) == red:
            return False
    return None


# ETSI TS 102 361-3, UDP/IPv4 compressed header: SPID = bits 25..31, DPID = bits 33..39; value 0 of a port identifier means "the
# port number follows in an extended header"; extended header 1 is present iff at least one of them is 0, extended header 2 iff both
UDP_SPID, UDP_DPID = range(25, 32), range(33, 40)


def udp_extended_rule(ctx, I, br, base, N, reader):
    st = br.st
    sp0 = known_eq(I, st, [I.atom_form(("w", i)) for i in UDP_SPID], 0)
    dp0 = known_eq(I, st, [I.atom_form(("w", i)) for i in UDP_DPID], 0)
    e1, e2, ud = (br.obj.attrs.get(k, "absent") for k in ("extended_header_1", "extended_header_2", "user_data"))
    if "absent" in (e1, e2, ud):
        return   # the attributes this pinned-layout rule talks about do not exist under these names
    if sp0 is None and dp0 is None and e1 is None and e2 is None:
        sp0 = dp0 = False   # the reader never asked: it treats both ports as given in place
    if sp0 is None or dp0 is None:
        n_ext = None
    else:
        n_ext = int(sp0) + int(dp0)
    got = (e1 is not None) + (e2 is not None)
    ok = n_ext is not None and got == n_ext and (e2 is None or e1 is not None)
    ud_len = len(ud.items) if isinstance(ud, ABits) else None
    if ok and ud_len is not None:
        ok = ud_len == N - 40 - 16 * n_ext
    ctx.ob("udp/extended-headers", base, ok,
           f"SPID==0: {sp0}, DPID==0: {dp0} on this branch -> {n_ext} extended header(s) expected; decoded: extended_header_1 {'present' if e1 is not None else 'absent'}, "
           f"extended_header_2 {'present' if e2 is not None else 'absent'}, user data {ud_len} bits", reader.loc)


def run(ctx):
    repo = ctx.repo
    ctx.explanation = (
        "Every reader/writer pair of the layer-2/3 PDUs is analysed by abstract interpretation on a symbolic wire "
        "(N bit atoms): each discriminator branch of the reader is a path (equality with an opcode substitutes the "
        "wire bits), the object is built through the real constructor, the writer is run on it, and every output "
        "position is compared with the wire bit it must reproduce (decode-then-encode).  A position written as a "
        "constant although a field stores the received bit is `encoder-ignores-field`; a different wire bit is "
        "`position`; attributes the reader left at a constant default are replaced by fresh symbols and the writer "
        "re-run — a symbol appearing in the output is a field that is transmitted but not decoded on that branch "
        "(`decoder-drops-field`).  Reader or writer paths ending in TypeError/AttributeError/OverflowError-for-some-"
        "inputs are reported as crashes; documented Key/Value/NotImplemented errors are allowed exits.  Element "
        "enumerations are evaluated over their whole bit width (constant evaluation of _missing_) for totality."
    )
    ctx.assumptions = [
        "enum-typed fields hold defined members (the first sentence of the property quantifies over in-range field values); undefined values are covered by enum/total",
        "CRC/FEC check values are uninterpreted functions of the serialised fields (C04/C05/C06 decide them)",
        "GPS Info quantisation (float truncation) is not decided; only scale factors, widths and signedness",
    ]
    ctx.rule("codec-sym/width", "the writer emits exactly the PDU size on every decodable branch")
    ctx.rule("codec-sym/position", "every wire bit that the reader stores in a field is written back at the same position from that field (same bit, same polarity)")
    ctx.rule("codec-sym/encoder-ignores-field", "no position that the reader stores into a field is a constant in the writer")
    ctx.rule("codec-sym/decoder-drops-field", "no position the writer fills from a field is ignored by the reader of the same branch")
    ctx.rule("codec-sym/no-crash", "no reader/writer path ends in TypeError / AttributeError / OverflowError / IndexError (for all or some inputs)")
    ctx.rule("codec-sym/branches", "the number of decodable discriminator branches is at least the hand-confirmed count")
    ctx.rule("udp/extended-headers", "UDP/IPv4 compressed header (pinned layout, TS 102 361-3): on every reader branch extended header 1 is decoded iff SPID or DPID is 0, extended header 2 iff both are, and the user data is what remains")
    ctx.rule("enum/width", "all members serialise to one width and fit it; from_bits(as_bits(m)) is m")
    ctx.rule("enum/total", "over the whole bit width a defined value maps to itself and an undefined one to a member or an explicit error — _missing_ never falls through to nothing")
    total_branches = 0
    for mod, cname, rname, wname, sizes, typed in PAIRS:
        ci = repo.cls(mod, cname)
        reader = repo.find_method(ci, rname)
        if reader is None or repo.find_method(ci, wname) is None:
            raise AnalysisError(f"{ci.qualname}: {rname}/{wname} not found")
        ctx.saw_func(reader)
        ctx.saw_func(repo.find_method(ci, wname))
        variants = [(None, None)]
        if typed:
            tci = repo.cls(mod, typed[0])
            mem = repo.enum_members(tci)
            variants = [(t, mem[t]) for t in typed[1]]
        for N in sizes:
            ok_branches = 0
            for tname, tmem in variants:
                with ctx.guard(f"{ci.qualname}[{N}{',' + tname if tname else ''}]"):
                    holder = {}

                    def hook(I, holder=holder):
                        holder["I"] = I
                    results = analyse_pair(repo, reader, wname, N, "ba", reader_args=(lambda I, tmem=tmem: [tmem]) if tmem is not None else None, interp_hook=hook)
                    I = holder["I"]
                    seen_keys = set()
                    for br in results:
                        bname = (tname or "") + ("/" if tname and br.obj is not None else "") + (br.name if not tname else "")
                        base = f"{ci.qualname}[{N}] | {bname}"
                        if br.kind == "abort":
                            raise AnalysisError(f"{base}: {br.detail}")
                        if br.kind == "raise":
                            if br.detail in CRASHES:
                                k = f"{ci.qualname}[{N}] | reader raises {br.detail}"
                                if k not in seen_keys:
                                    seen_keys.add(k)
                                    ctx.ob("codec-sym/no-crash", k, False, f"{rname} raises {br.detail} at {getattr(br, 'where', '')} on path {br.labels[-3:]}", reader.loc)
                            continue
                        if br.kind in ("partial-raise", "writer-raise", "writer-partial-raise"):
                            exc = br.detail.split(":")[0].replace("raises ", "").split(" ")[0]
                            bad = any(c in br.detail for c in CRASHES)
                            k = f"{base} | {br.kind}"
                            if k not in seen_keys:
                                seen_keys.add(k)
                                ctx.ob("codec-sym/no-crash", k, not bad, f"{br.kind}: {br.detail}", reader.loc)
                            continue
                        if br.kind != "ok":
                            continue
                        if br.sentinel:
                            continue  # the constructor generated the check field (in-band sentinel, see C04): the sibling path carries the comparison
                        ok_branches += 1
                        k = f"{base}"
                        if ("w", k) not in seen_keys:
                            seen_keys.add(("w", k))
                            ctx.ob("codec-sym/width", k, br.width == N, f"writer emits {br.width} bits, PDU size {N}", reader.loc)
                        for mm in br.mismatch:
                            kk = f"{base} | {mm['field'] or 'bit'}@{mm['pos']}"
                            if (mm["rule"], kk) in seen_keys:
                                continue
                            seen_keys.add((mm["rule"], kk))
                            ctx.ob("codec-sym/" + mm["rule"], kk, False,
                                   f"wire position {mm['pos']}: reader stores it in `{mm['field']}`, writer {mm['writer']}" if mm["rule"] == "encoder-ignores-field"
                                   else f"wire position {mm['pos']}: writer {mm['writer']}", reader.loc, facts=mm)
                        for d in br.dropped:
                            kk = f"{base} | {d['field']}@{d['pos']}"
                            if ("drop", kk) in seen_keys:
                                continue
                            seen_keys.add(("drop", kk))
                            ctx.ob("codec-sym/decoder-drops-field", kk, False,
                                   f"the writer transmits field `{d['field']}` at position {d['pos']} but the reader of this branch does not pass the received bit on (the default silently replaces it)", reader.loc, facts=d)
                        # positive obligations (one per branch and rule) so that counts are meaningful
                        for rule in ("position", "encoder-ignores-field", "decoder-drops-field"):
                            if not any(m["rule"] == rule for m in br.mismatch) and not (rule == "decoder-drops-field" and br.dropped):
                                kk = f"{base} | all positions"
                                if (rule, kk) not in seen_keys:
                                    seen_keys.add((rule, kk))
                                    ctx.ob("codec-sym/" + rule, kk, True, f"{N - len(br.reserved) - len(br.opaque)} positions carried by fields, {len(br.reserved)} reserved, {len(br.opaque)} opaque", reader.loc)
                        if cname == "UDPIPv4CompressedHeader":
                            udp_extended_rule(ctx, I, br, base, N, reader)
                        for p in br.opaque:
                            ctx.skip_opaque(f"{base}@{p}")
                        if len(ctx.samples) < 6 and br.reserved:
                            ctx.sample({"pair": base, "width": br.width, "reserved_positions": br.reserved[:12], "path": br.labels[-2:]})
            total_branches += ok_branches
            need = MIN_BRANCHES.get(cname)
            if need is not None:
                ctx.coverage("codec-sym/branches", f"{ci.qualname}[{N}]", ok_branches, need, f"{ok_branches} decodable branches analysed, {need} confirmed by hand", reader.loc)
    ctx.extra["decodable_branches"] = total_branches
    enum_rules(ctx)
    ctx.require("codec-sym/width", 40)
    ctx.require("codec-sym/position", 40)
    ctx.require("enum/total", 25)
    ctx.require("enum/width", 15)
    ctx.require("udp/extended-headers", 3)


def element_enums(repo):
    out = []
    for m in repo.modules.values():
        if m.short.startswith("etsi.layer2.elements.") or m.short.startswith("etsi.layer3.elements."):
            for c in m.classes.values():
                if repo.is_enum(c):
                    out.append(c)
    return sorted(out, key=lambda c: c.qualname)


NOT_WIRE_ENUMS = {"CrcMasks", "BurstTypes", "SyncPatterns", "VoiceBursts", "DataTypes?"}


def enum_rules(ctx):
    repo = ctx.repo
    for ci in element_enums(repo):
        q = ci.qualname
        members = repo.enum_members(ci)
        ints = {n: m for n, m in members.items() if isinstance(m.value, int) and not isinstance(m.value, bool)}
        if not ints or ci.name in NOT_WIRE_ENUMS:
            continue
        ctx.saw(file=ci.module.relpath, table=q)
        as_bits = repo.find_method(ci, "as_bits")
        from_bits = repo.find_method(ci, "from_bits")
        missing = repo.find_method(ci, "_missing_")
        width = None
        with ctx.guard(q):
            I = Interp(repo)
            if as_bits is not None and as_bits.cls is not None and repo.is_enum(as_bits.cls):
                ctx.saw_func(as_bits)
                widths = {}
                bad = []
                for n, m in ints.items():
                    try:
                        r = I.call(as_bits, [m], {}, ci)
                        widths[n] = len(r.items) if isinstance(r, ABits) else None
                        if isinstance(r, ABits):
                            got = int("".join(str(I.simp(b).c) for b in r.items) or "0", 2)
                            if got != m.value:
                                bad.append(f"{n} serialises to {got}")
                            if from_bits is not None:
                                back = I.call(from_bits, [r], {}, ci)
                                if back != m:
                                    bad.append(f"from_bits(as_bits({n})) = {back}")
                    except PathRaise as e:
                        bad.append(f"{n}: as_bits raises {e.exc}")
                # a member whose value is not an integer (a stray trailing comma makes it a tuple) among integer members
                for n, m in members.items():
                    if n in ints or isinstance(m.value, bool):
                        continue
                    try:
                        r = I.call(as_bits, [m], {}, ci)
                        if not isinstance(r, ABits):
                            bad.append(f"{n} (value {m.value!r}): as_bits returns {r!r}")
                    except PathRaise as e:
                        bad.append(f"{n} has the non-integer value {m.value!r}: as_bits raises {e.exc}, and the wire value it was meant for is no longer defined")
                ws = set(widths.values())
                if len(ws) == 1 and None not in ws:
                    width = ws.pop()
                ctx.ob("enum/width", q, not bad and width is not None, f"width {width}; " + ("; ".join(bad[:4]) or f"{len(ints)} members fit and read back"), ci.loc)
            if width is None:
                width = max(max(m.value for m in ints.values()).bit_length(), 1)
            if width > 10:
                continue
            defined = {m.value: m for m in ints.values()}
            nothing, explicit, folded, wrong = [], [], {}, []
            for v in range(1 << width):
                I = Interp(repo)
                try:
                    r = I.enum_lookup(ci, v)
                except PathRaise as e:
                    if v in defined:
                        wrong.append(f"{v} (defined) raises {e.exc}")
                    elif missing is not None and "is not a valid" in e.msg:
                        nothing.append(v)
                    else:
                        explicit.append(v)
                    continue
                except Abort as e:
                    raise AnalysisError(f"{q}: _missing_ not analysable for value {v}: {e}")
                if v in defined:
                    if r != defined[v]:
                        wrong.append(f"{v} maps to {r}")
                elif isinstance(r, EnumMember) and r.cls == ci.name:
                    folded[v] = r.name
                else:
                    wrong.append(f"{v} maps to {r!r}")
            ok = not nothing and not wrong
            ctx.ob("enum/total", q, ok,
                   f"width {width}: {len(defined)} defined, {len(folded)} folded to a member, {len(explicit)} explicit errors"
                   + (f"; _missing_ falls through (returns nothing) for {nothing[:8]}" if nothing else "") + (f"; wrong: {wrong[:4]}" if wrong else ""), ci.loc,
                   facts={"folded": folded, "explicit_error": explicit, "nothing": nothing})
