"""C08 — transmission tracking: inductive (any tracker state) x (any next burst kind) analysis of the real
Transmission / Timeslot / WithObservers methods with observers as effect-recording stubs."""
from __future__ import annotations

from sa.bitabs import ABits, AEnum, AExt, AInt, AObj, AOpq, Abort, F, Interp, PartialRaise, PathRaise, explore
from sa.model import AnalysisError

TMOD = "transmission.transmission"
SMOD = "transmission.timeslot"
OMOD = "transmission.transmission_observer_interface"

BURST_KINDS = ["VoiceLCHeader", "TerminatorWithLC", "DataHeader", "CSBK", "Rate12Data", "Rate34Data", "Rate1Data", "PIHeader", "voice-sync", "voice-emb"]


def install_stubs(I, repo, ctxd):
    """decoders and FEC become stubs that hand out marked PDU objects with symbolic decision fields"""
    dh_ci = repo.cls("etsi.layer2.pdu.data_header", "DataHeader")
    flc_ci = repo.cls("etsi.layer2.pdu.full_link_control", "FullLinkControl")
    csbk_ci = repo.cls("etsi.layer2.pdu.csbk", "CSBK")
    csbko = repo.enum_members(repo.cls("etsi.layer2.elements.csbk_opcodes", "CsbkOpcodes"))
    flcos = repo.enum_members(repo.cls("etsi.layer2.elements.flcos", "FLCOs"))
    I.summaries["etsi.fec.bptc_196_96:BPTC19696.deinterleave_data_bits"] = lambda I_, fi, a, kw, bc: ABits([I_.atom_form(("info", i)) for i in range(96)], "ba")

    def mk_flc(I_, fi, a, kw, bc):
        o = flc_header(I_, flc_ci, flcos)
        ctxd["made"].append(o)
        return o

    I.summaries[repo.find_method(flc_ci, "from_bits").qualname] = mk_flc
    install_rest(I, repo, ctxd, dh_ci, csbk_ci, csbko)


def flc_header(I_, flc_ci, flcos):
        o = AObj(flc_ci, {"full_link_control_opcode": flcos["GroupVoiceChannelUser"], "source_address": 1, "group_address": 2, "target_address": 3, "__pdu__": "FLC"})
        if "TalkerAliasHeader" in flcos and I_.st.choose("flc:talker alias header"):
            # a full LC of another kind: the talker alias header with arbitrary alias octets (whatever the tracker does with the
            # header it keeps — logging its rendering included — must not fail on them)
            o.attrs["full_link_control_opcode"] = flcos["TalkerAliasHeader"]
            o.attrs["talker_alias_data"] = ABits([I_.atom_form(("alias", i)) for i in range(48)], "bytes")
            o.attrs["talker_alias_data_length"] = 6
            o.attrs["talker_alias_data_format"] = AOpq("alias format", notnone=True)
        for k_ in ("protect_flag", "feature_set_id", "service_options", "crc"):
            o.attrs.setdefault(k_, AOpq(k_, notnone=True))     # fields of every full LC that the stub does not decide
        return o


def install_rest(I, repo, ctxd, dh_ci, csbk_ci, csbko):
    def mk_dh(I_, fi, a, kw, bc):
        o = AObj(dh_ci, {"is_response_requested": AInt([I_.atom_form(("dh.resp", 0))], isbool=True), "__pdu__": "DH", "sap_identifier": sap_choice(I_, repo)})
        ctxd["made"].append(o)
        return o

    def dh_btf(I_, fi, a, kw, bc):
        o = a[0]
        if "__btf__" not in o.attrs:
            o.attrs["__btf__"] = AInt([], ext="dh.blocks_to_follow", interp=I_) if I_.st.choose("header:announces-blocks") else None
        return o.attrs["__btf__"]

    def mk_csbk(I_, fi, a, kw, bc):
        op = csbko["PreambleCSBK"] if I_.st.choose("csbk:preamble") else csbko["BSOutboundActivation"]
        o = AObj(csbk_ci, {"csbko": op, "blocks_to_follow": AInt([], ext="csbk.blocks_to_follow", interp=I_), "__pdu__": "CSBK"})
        ctxd["made"].append(o)
        return o

    I.summaries[repo.find_method(dh_ci, "from_bits").qualname] = mk_dh
    I.summaries[repo.find_method(dh_ci, "get_blocks_to_follow").qualname] = dh_btf
    I.summaries[repo.find_method(dh_ci, "__repr__").qualname] = lambda *a: "DH"
    I.summaries[repo.find_method(csbk_ci, "from_bits").qualname] = mk_csbk
    for mod, cls in (("etsi.layer2.pdu.rate12_data", "Rate12Data"), ("etsi.layer2.pdu.rate34_data", "Rate34Data"), ("etsi.layer2.pdu.rate1_data", "Rate1Data")):
        ci = repo.cls(mod, cls)

        def mk_rate(I_, fi, a, kw, bc, ci=ci):
            o = AObj(ci, {"data": payload_octets(I_, "rx"), "__pdu__": "DATA", "__last__": I_.st.choose("block:is-last")})
            ctxd["made"].append(o)
            return o

        I.summaries[repo.find_method(ci, "from_bits_typed").qualname] = mk_rate
        tci_ = repo.cls(mod, cls.replace("Data", "DataTypes"))
        I.summaries[repo.find_method(tci_, "resolve").qualname] = lambda I_, fi, a, kw, bc: AOpq("resolved block type", notnone=True)
        I.summaries[repo.find_method(ci, "is_last_block").qualname] = lambda I_, fi, a, kw, bc: a[0].attrs["__last__"]
    # the compressed UDP/IPv4 header decoder that end_data_transmission runs over the collected user data is NOT a stub: the real
    # from_bits is interpreted on symbolic octets (it is part of "processing never fails"); only its __repr__ is
    udp = repo.cls("etsi.layer3.pdu.udp_ipv4_compressed_header", "UDPIPv4CompressedHeader")
    if repo.find_method(udp, "__repr__") is not None:
        I.summaries[repo.find_method(udp, "__repr__").qualname] = lambda *a: "UDP"


def sap_choice(I_, repo):
    """the service access point of a data header: UDP/IP header compression (the tracker then decodes the user data) or another one"""
    saps = repo.enum_members(repo.cls("etsi.layer2.elements.sap_identifier", "SAPIdentifier"))
    return saps["UDP_IP_compression"] if I_.st.choose("header:sap=udp/ip compression") else saps["ShortData"]


def payload_octets(I_, tag):
    """user data of one block: 8 octets (an unconfirmed rate 1/2 last block) of symbolic content"""
    return ABits([I_.atom_form(("payload", tag, i)) for i in range(64)], "bytes")


def preamble_count(ctx, repo, tci, types):
    """the first preamble CSBK of a data transmission starts the count-down: for EVERY announced number of blocks to follow
    (the 8-bit field, as 8 bit atoms) the tracker afterwards expects exactly that many more bursts"""
    from sa.bitabs import fin_conc
    ctx.rule("track/preamble-count", "after the first preamble CSBK (idle tracker) blocks_expected - blocks_received equals the announced blocks-to-follow, for all 256 values of the field")
    pc = repo.find_method(tci, "process_csbk")
    ctx.saw_func(pc)
    csbk_ci = repo.cls("etsi.layer2.pdu.csbk", "CSBK")
    csbko = repo.enum_members(repo.cls("etsi.layer2.elements.csbk_opcodes", "CsbkOpcodes"))
    I = Interp(repo)

    def run_c(st):
        I.st = st
        t = I.construct(tci, [], {})
        t.attrs["observers"] = [AExt("obs1")]
        btf = AInt([I.atom_form(("btf", i)) for i in range(8)])
        c = AObj(csbk_ci, {"csbko": csbko["PreambleCSBK"], "blocks_to_follow": btf, "__pdu__": "CSBK"})
        I.call(pc, [t, c], {})
        return t
    atoms = None
    bad = []
    n = 0
    for st, (k, v) in explore(run_c, max_paths=600):
        I.st = st
        n += 1
        if k == "abort":
            raise AnalysisError(f"{pc.qualname}: {v}")
        if k == "raise":
            bad.append(f"raises {v.exc} at {v.msg}")
            continue
        atoms = [I.atoms.get(("btf", i)) for i in range(8)]
        exp, rec = v.attrs.get("blocks_expected"), v.attrs.get("blocks_received")
        for x in range(256):
            asg = {a: (x >> i) & 1 for i, a in enumerate(atoms)}
            # only the values this path admits
            if any(I.simp(F(1 << a, 0)).is_const and I.simp(F(1 << a, 0)).c != asg[a] for a in atoms if isinstance(I.simp(F(1 << a, 0)), F) and I.simp(F(1 << a, 0)).is_const):
                continue
            try:
                e_, r_ = fin_conc(exp, asg), fin_conc(rec, asg)
            except Exception as ex:
                raise AnalysisError(f"{pc.qualname}: counters are not functions of the announced count ({ex})")
            if e_ - r_ != x:
                bad.append(f"announced {x}: {e_ - r_} more burst(s) expected")
    ctx.ob("track/preamble-count", pc.qualname, not bad and n > 0, "; ".join(bad[:3]) or f"{n} path(s); the count-down equals the announced number for all 256 values", pc.loc)


def make_burst(I, repo, kind):
    bci = repo.cls("etsi.layer2.burst", "Burst")
    dts = repo.enum_members(repo.cls("etsi.layer2.elements.data_types", "DataTypes"))
    vb = repo.enum_members(repo.cls("etsi.layer2.elements.voice_bursts", "VoiceBursts"))
    b = AObj(bci, {})
    b.attrs["full_bits"] = ABits([I.atom_form(("air", i)) for i in range(264)], "ba")
    b.attrs["info_bits_deinterleaved"] = ABits([I.atom_form(("info", i)) for i in range(96)], "ba")
    voice = kind in ("voice-sync", "voice-emb")
    b.attrs["has_slot_type"] = not voice
    b.attrs["slot_type"] = None if voice else AObj(repo.cls("etsi.layer2.pdu.slot_type", "SlotType"), {"data_type": dts[kind], "colour_code": 1})
    b.attrs["is_voice_superframe_start"] = kind == "voice-sync"
    b.attrs["is_vocoder"] = voice
    b.attrs["voice_burst"] = vb["VoiceBurstA"] if kind == "voice-sync" else vb["Unknown"]
    b.attrs["sequence_no"] = 0
    b.attrs["stream_no"] = b"\0\0\0\0"
    return b


def events(st):
    out = []
    for e in st.effects:
        name = e[0]
        if name.startswith("obs") and "." in name:
            out.append((name.split(".")[0], name.split(".")[1], e[1], e[2]))
    return out


def run(ctx):
    repo = ctx.repo
    tci = repo.cls(TMOD, "Transmission")
    ctx.explanation = (
        "Histories are covered inductively: for every tracker state satisfying the state invariant (type x header "
        "kind, symbolic block counters, a marked blocks list) and every next burst kind (10 kinds, with the decoded "
        "PDU's decision fields symbolic) the real Transmission.process_packet is analysed by abstract interpretation "
        "with the observers as effect-recording stubs.  Checked on every path: never raises; events replay against "
        "the open-transmission automaton (ended(K) only while K is open; started(K) only from none/after an end); an "
        "ended event hands over the header and the very blocks list collected since that start; afterwards the tracker "
        "is idle with a fresh list, no header and a fresh stream id; the invariant holds again (so the argument "
        "extends to any history).  The A-F labelling table, the receive sequence counter of Timeslot.process_burst and "
        "observer isolation (a raising observer never hides an event from another observer) are analysed the same way."
    )
    ctx.assumptions = ["PDU decoders and BPTC de-interleaving are stubs handing out marked PDUs with symbolic decision fields (C02/C03 decide them)",
                       "state invariant: Idle => no header; Voice => header None or a full LC; Data => header None or a data header (shown inductive by this very check)"]
    ctx.rule("track/never-raises", "processing a burst never raises, whatever the tracker state")
    ctx.rule("track/event-automaton", "ended(K) is delivered only while a K transmission is open (started and not yet ended); a non-idle tracker's type equals the kind the events leave open")
    ctx.rule("track/handover", "an ended event carries the current header (the one in the state or the one received in this call) and the very blocks list collected since the start")
    ctx.rule("track/idle-after-end", "after an end the tracker is Idle with a fresh empty blocks list, no header, a fresh stream id and reset block counters")
    ctx.rule("track/invariant", "the state invariant holds after the call")
    ctx.rule("voice/labels", "within a voice transmission a voice-SYNC burst is labelled A, a following voice burst the successor of the previous label (F wraps to A), others keep their label")
    ctx.rule("timeslot/rx-sequence", "the burst gets (previous sequence + 1) & 255; the counter restarts at 0 exactly when an end was delivered during the call")
    ctx.rule("observers/isolation", "every observer receives every event even if other observers raise, and nothing propagates")
    ctx.rule("observers/override-calls-super", "Timeslot's *_ended overrides fan the event out to their own observers and set the restart flag")
    types = repo.enum_members(repo.cls("transmission.transmission_types", "TransmissionTypes"))
    pp = repo.find_method(tci, "process_packet")
    for n_ in ("process_packet", "new_transmission", "ensure_transmission", "process_voice_header", "process_data_header", "process_csbk", "process_data",
               "end_voice_transmission", "end_data_transmission", "end_transmissions", "fix_voice_burst_type", "is_last_block"):
        ctx.saw_func(repo.func(TMOD, f"Transmission.{n_}"))
    vb = repo.enum_members(repo.cls("etsi.layer2.elements.voice_bursts", "VoiceBursts"))
    flc_ci = repo.cls("etsi.layer2.pdu.full_link_control", "FullLinkControl")
    dh_ci = repo.cls("etsi.layer2.pdu.data_header", "DataHeader")
    flcos = repo.enum_members(repo.cls("etsi.layer2.elements.flcos", "FLCOs"))
    pre_states = [("Idle", None), ("VoiceTransmission", None), ("VoiceTransmission", "FLC"), ("DataTransmission", None), ("DataTransmission", "DH")]
    n_paths = 0
    for tname, hkind in pre_states:
        for kind in BURST_KINDS:
            key = f"{pp.qualname} | state={tname}/{hkind or 'no header'},burst={kind}"
            with ctx.guard(key):
                ctxd = {"made": []}
                I = Interp(repo)
                I.explore_undefined_enums = True   # an element enumeration that refuses a received value is a (raising) path of its own
                I.strict_decode_may_raise = True   # received octets decoded with a codec that can fail: the failure is a path
                I.interpret_repr = True            # repr(<header>) in a log call runs the header's own __repr__
                install_stubs(I, repo, ctxd)

                def run_t(st, tname=tname, hkind=hkind, kind=kind):
                    I.st = st
                    del ctxd["made"][:]
                    t = I.construct(tci, [], {})
                    t.attrs["observers"] = [AExt("obs1")]
                    t.attrs["type"] = types[tname]
                    hdr = None
                    if hkind == "FLC":
                        hdr = flc_header(I, flc_ci, flcos)
                    elif hkind == "DH":
                        hdr = AObj(dh_ci, {"is_response_requested": False, "__pdu__": "DH", "sap_identifier": sap_choice(I, repo)})
                    t.attrs["header"] = hdr
                    pre_blocks = ["<earlier block>"] if tname != "Idle" else []
                    t.attrs["blocks"] = pre_blocks
                    t.attrs["blocks_expected"] = AInt([], ext="blocks_expected", interp=I) if tname != "Idle" else 0
                    t.attrs["blocks_received"] = AInt([], ext="blocks_received", interp=I) if tname != "Idle" else 0
                    t.attrs["last_voice_burst"] = vb["VoiceBurstB"] if tname == "VoiceTransmission" else vb["Unknown"]
                    pre_stream = t.attrs["stream_no"]
                    del st.effects[:]
                    I.call(pp, [t, make_burst(I, repo, kind)], {})
                    return t, hdr, pre_blocks, pre_stream, list(ctxd["made"])

                auto_bad, hand_bad, idle_bad, inv_bad, raised = [], [], [], [], []
                for st, (k, v) in explore(run_t, max_paths=400):
                    I.st = st
                    n_paths += 1
                    taken = [l for l, d in zip(st.labels, st.decisions) if d]
                    if k == "abort":
                        raise AnalysisError(f"{key}: {v} on path {taken[-3:]}")
                    if k == "raise":
                        raised.append(f"{v.exc} at {v.msg} [{','.join(taken[-2:])}]")
                        continue
                    t, hdr, pre_blocks, pre_stream, made = v
                    evs = events(st)
                    open_kind = None if tname == "Idle" else tname
                    cur_blocks = pre_blocks
                    ended_any = False
                    for obs, name, args, kw in evs:
                        if name == "transmission_started":
                            tt = kw.get("transmission_type", args[0] if args else None)
                            # an open transmission may be abandoned (truncated) by a new start: the property constrains 'ended' events only
                            open_kind = tt.name
                            cur_blocks = None
                        elif name in ("data_transmission_ended", "voice_transmission_ended"):
                            kk = "DataTransmission" if name.startswith("data") else "VoiceTransmission"
                            if open_kind != kk:
                                auto_bad.append(f"{name} delivered while {open_kind or 'nothing'} is open")
                            h_arg = kw.get("transmission_header", kw.get("voice_header", args[0] if args else None))
                            b_arg = kw.get("blocks", args[1] if len(args) > 1 else None)
                            if not (h_arg is hdr or h_arg in made):
                                hand_bad.append(f"{name} hands over a header that is neither the state's nor received in this call")
                            if cur_blocks is not None and b_arg is not cur_blocks:
                                hand_bad.append(f"{name} does not hand over the blocks list collected since the start")
                            if cur_blocks is None and (b_arg is pre_blocks or not isinstance(b_arg, list)):
                                hand_bad.append(f"{name} hands over the previous transmission's blocks list")
                            want_cls = "DH" if kk == "DataTransmission" else "FLC"
                            if isinstance(h_arg, AObj) and h_arg.attrs.get("__pdu__") != want_cls:
                                hand_bad.append(f"{name} hands over a {h_arg.cls.name}")
                            open_kind = None
                            ended_any = True
                            cur_blocks = None
                    post_type = t.attrs.get("type")
                    if post_type.name != "Idle" and open_kind != post_type.name:
                        auto_bad.append(f"events leave {open_kind or 'nothing'} open but the tracker is {post_type.name}")
                    if ended_any and post_type == types["Idle"]:
                        if t.attrs.get("blocks_expected") != 0 or t.attrs.get("blocks_received") != 0 or t.attrs.get("confirmed") is not False:
                            idle_bad.append("after an end the block counters / confirmed flag are not reset (the next transmission inherits them)")
                        if t.attrs.get("blocks") is pre_blocks or t.attrs.get("blocks") != [] or t.attrs.get("header") is not None or t.attrs.get("stream_no") is pre_stream:
                            idle_bad.append(f"after an end: blocks fresh+empty={t.attrs.get('blocks') is not pre_blocks and t.attrs.get('blocks') == []}, header None={t.attrs.get('header') is None}, stream id fresh={t.attrs.get('stream_no') is not pre_stream}")
                    h = t.attrs.get("header")
                    hk = h.attrs.get("__pdu__") if isinstance(h, AObj) else None
                    ok_inv = (post_type == types["Idle"] and h is None) or (post_type == types["VoiceTransmission"] and hk in (None, "FLC")) \
                        or (post_type == types["DataTransmission"] and hk in (None, "DH"))
                    if not ok_inv:
                        inv_bad.append(f"tracker is {post_type.name} with a {hk} header")
                ctx.ob("track/never-raises", key, not raised, "; ".join(sorted(set(raised))[:2]) or "no path raises", pp.loc)
                ctx.ob("track/event-automaton", key, not auto_bad, "; ".join(sorted(set(auto_bad))[:2]) or "events replay correctly", pp.loc)
                ctx.ob("track/handover", key, not hand_bad, "; ".join(sorted(set(hand_bad))[:2]) or "header and blocks list handed over", pp.loc)
                ctx.ob("track/idle-after-end", key, not idle_bad, "; ".join(sorted(set(idle_bad))[:2]) or "idle, fresh list, no header, fresh stream id", pp.loc)
                ctx.ob("track/invariant", key, not inv_bad, "; ".join(sorted(set(inv_bad))[:2]) or "invariant preserved", pp.loc)
    ctx.extra["paths_process_packet"] = n_paths
    with ctx.guard("preamble count-down"):
        preamble_count(ctx, repo, tci, types)
    with ctx.guard("voice labels"):
        voice_labels(ctx, repo, tci, types, vb)
    with ctx.guard("timeslot"):
        timeslot_rules(ctx, repo, types)
    with ctx.guard("observers"):
        observer_rules(ctx, repo)
    ctx.require("track/event-automaton", 50)
    ctx.require("voice/labels", 14)
    ctx.require("observers/isolation", 3)


def voice_labels(ctx, repo, tci, types, vb):
    fx = repo.find_method(tci, "fix_voice_burst_type")
    order = ["VoiceBurstA", "VoiceBurstB", "VoiceBurstC", "VoiceBurstD", "VoiceBurstE", "VoiceBurstF"]
    for last in ["Unknown"] + order:
        for kind in ("voice-sync", "voice-emb", "CSBK"):
            key = f"{fx.qualname} | last={last},burst={kind}"
            I = Interp(repo)

            def run_v(st, last=last, kind=kind):
                I.st = st
                t = I.construct(tci, [], {})
                t.attrs["type"] = types["VoiceTransmission"]
                t.attrs["last_voice_burst"] = vb[last]
                b = make_burst(I, repo, kind)
                I.call(fx, [t, b], {})
                return t, b

            for st, (k, v) in explore(run_v):
                I.st = st
                if k != "ok":
                    ctx.ob("voice/labels", key, False, f"{k}: {v}", fx.loc)
                    continue
                t, b = v
                got = b.attrs.get("voice_burst")
                if kind == "voice-sync":
                    want = vb["VoiceBurstA"]
                elif kind == "voice-emb":
                    want = vb[order[(order.index(last) + 1) % 6]] if last in order else vb["Unknown"]
                else:
                    want = vb["Unknown"]
                ok = got == want and t.attrs.get("last_voice_burst") == got
                ctx.ob("voice/labels", key, ok, f"labelled {got}, expected {want}; tracker remembers {t.attrs.get('last_voice_burst')}", fx.loc)


def timeslot_rules(ctx, repo, types):
    sci = repo.cls(SMOD, "Timeslot")
    tci = repo.cls(TMOD, "Transmission")
    pb = repo.find_method(sci, "process_burst")
    ctx.saw_func(pb)
    ctx.saw_func(repo.find_method(sci, "get_rx_sequence"))
    for ends in (False, True):
        key = f"{pb.qualname} | {'an end is delivered' if ends else 'no end'}"
        I = Interp(repo)

        def pp_stub(I_, fi, a, kw, bc, ends=ends):
            t = a[0]
            if ends:
                # the tracker reports an end to its observer (the timeslot)
                for o in t.attrs.get("observers", []):
                    m = I_.repo.find_method(o.cls, "voice_transmission_ended")
                    I_.call(m, [o, None, []], {}, o.cls)
                # ... and is idle afterwards (the transmission ran out) or already inside the next transmission (the end was forced by
                # a new start: a voice header interrupting a data transmission) — the count restarts in either case
                tt_ = I_.repo.enum_members(I_.repo.cls("transmission.transmission_types", "TransmissionTypes"))
                t.attrs["type"] = tt_["Idle"] if I_.st.choose("after the end: idle") else (tt_["VoiceTransmission"] if I_.st.choose("after the end: voice started") else tt_["DataTransmission"])
            return a[1]

        I.summaries[repo.find_method(tci, "process_packet").qualname] = pp_stub

        def run_s(st):
            I.st = st
            ts = I.construct(sci, [], {"timeslot": 1, "observers": []})
            ts.attrs["observers"] = [AExt("obs1")]
            pre = AInt([I.atom_form(("seq", i)) for i in range(8)])
            ts.attrs["rx_sequence"] = pre
            b = make_burst(I, repo, "CSBK")
            b.attrs["sync_or_embedded_signalling"] = None
            b.attrs["emb"] = None
            b.attrs["has_emb"] = False
            # the burst arrives with a sequence number of its own (e.g. the one an IP site connect frame carried): the
            # timeslot's count must replace it for every value, 0 included
            b.attrs["sequence_no"] = 0xA5
            out = I.call(pb, [ts, b], {})
            return ts, pre, out

        for st, (k, v) in explore(run_s):
            I.st = st
            if k != "ok":
                ctx.ob("timeslot/rx-sequence", key, False, f"{k}: {v}", pb.loc)
                continue
            ts, pre, out = v
            got = out.attrs.get("sequence_no")
            nxt = ts.attrs.get("rx_sequence")
            from sa.bitabs import AFin, fin_conc
            if isinstance(got, AFin):
                seq_atoms = [I.atoms.get(("seq", i)) for i in range(8)]
                exact = set(got.atoms) <= set(seq_atoms)
                if exact:
                    for x in range(256):
                        assign = {a: (x >> i) & 1 for i, a in enumerate(seq_atoms)}
                        if got.value(assign) != (x + 1) & 255:
                            exact = False
                            break
                ok = exact and ((nxt == 0 and ts.attrs.get("reset_rx_sequence") is False) if ends else (nxt is got or nxt == got))
                ctx.ob("timeslot/rx-sequence", key, ok, f"burst sequence is exactly (previous + 1) & 255 for all 256 values: {exact}; counter afterwards {'0' if nxt == 0 else 'the incremented value' if (nxt is got or nxt == got) else repr(nxt)}", pb.loc)
                continue
            # (pre + 1) & 255 as the interpreter names it
            fr_ok = isinstance(got, AInt) and len(got.bits) <= 8 and got is not pre
            names = set()
            if isinstance(got, AInt):
                for b_ in got.bits:
                    b_ = I.simp(b_)
                    if isinstance(b_, F):
                        for a_ in b_.atoms():
                            nm = I.atoms.names[a_]
                            names.add(nm[1][0] if isinstance(nm, tuple) and nm[0] == "fn" else nm[0])
            inc_ok = fr_ok and names <= {"add", "arith:Add", "seq"}
            if ends:
                ok = inc_ok and nxt == 0 and ts.attrs.get("reset_rx_sequence") is False
            else:
                ok = inc_ok and nxt is got
            ctx.ob("timeslot/rx-sequence", key, ok, f"burst sequence built from {sorted(map(str, names))} (8 bits: {isinstance(got, AInt) and len(got.bits) <= 8}); counter afterwards {'0' if nxt == 0 else 'the incremented value' if nxt is got else nxt!r}", pb.loc)
    # overrides call super and set the flag
    for name in ("voice_transmission_ended", "data_transmission_ended"):
        m = sci.methods.get(name)
        if m is None:
            raise AnalysisError(f"Timeslot.{name} override vanished")
        I = Interp(repo)

        def run_o(st, m=m):
            I.st = st
            ts = I.construct(sci, [], {"timeslot": 1, "observers": []})
            ts.attrs["observers"] = [AExt("obs1"), AExt("obs2")]
            del st.effects[:]
            I.call(m, [ts, "HDR", ["B"]], {})
            return ts

        for st, (k, v) in explore(run_o):
            I.st = st
            evs = events(st)
            ok = k == "ok" and [e[0] for e in evs if e[1] == name] == ["obs1", "obs2"] and v.attrs.get("reset_rx_sequence") is True
            ctx.ob("observers/override-calls-super", m.qualname, ok, f"events {[(e[0], e[1]) for e in evs]}; restart flag {v.attrs.get('reset_rx_sequence') if k == 'ok' else k}", m.loc)


def observer_rules(ctx, repo):
    wci = repo.cls(OMOD, "WithObservers")
    for name, args in (("transmission_started", ["T"]), ("data_transmission_ended", ["H", ["B"]]), ("voice_transmission_ended", ["H", ["B"]])):
        m = wci.methods.get(name)
        if m is None:
            raise AnalysisError(f"WithObservers.{name} vanished")
        ctx.saw_func(m)
        for raising, exc_kind in (("first", "RuntimeError"), ("second", "RuntimeError"), ("all", "RuntimeError"), ("first", "CancelledError")):
            I = Interp(repo)

            def raiser(a, kw, exc_kind=exc_kind):
                # CancelledError stands for the exceptions that derive from BaseException only (asyncio cancellation, SystemExit):
                # "an observer that raises" includes them, and `except Exception` does not stop them
                raise PathRaise(exc_kind, "observer raises")

            def run_w(st, m=m, args=args, raising=raising):
                I.st = st
                w = AObj(wci, {})
                obs = [AExt("obs1"), AExt("obs2"), AExt("obs3")]
                for i, o in enumerate(obs):
                    if raising == "all" or (raising == "first" and i == 0) or (raising == "second" and i == 1):
                        o.results = {name: raiser}
                w.attrs["observers"] = obs
                del st.effects[:]
                I.call(m, [w] + list(args), {})
                return True

            for st, (k, v) in explore(run_w):
                I.st = st
                got = [e[0] for e in events(st) if e[1] == name]
                ok = k == "ok" and got == ["obs1", "obs2", "obs3"]
                ctx.ob("observers/isolation", f"{m.qualname} | {raising} observer(s) raise" + ("" if exc_kind == "RuntimeError" else f" {exc_kind} (a BaseException)"), ok,
                       f"{'no exception escapes' if k == 'ok' else 'exception escapes: ' + str(v)}; observers notified: {got}", m.loc)
