"""C18 — P2P / RDAC handshake handlers: registered-gate, per-peer step table, completion once."""
from __future__ import annotations

import ast

from sa.bitabs import ABits, ACond, AExt, AInt, AObj, AOpq, Abort, F, Interp, PartialRaise, PathRaise, explore
from sa.model import AnalysisError, Unfoldable

PMOD = "protocols.hytera.p2p_datagram_protocol"
RMOD = "protocols.hytera.rdac_datagram_protocol"
A = ("10.1.1.1", 40001)   # requesting peer
B = ("10.2.2.2", 40002)   # another peer


def no_snmp(I, repo):
    fi = repo.func("storage.repeater", "Repeater.read_snmp_values")
    I.summaries[fi.qualname] = lambda I_, fi_, args, kw, bc: {}


def sends(st):
    return [e for e in st.effects if e[0] == "transport.sendto"]


def dest(e):
    return e[2].get("addr", e[1][1] if len(e[1]) > 1 else None)


def payload(e):
    return e[2].get("data", e[1][0] if e[1] else None)


def is_reject(I, e):
    d = payload(e)
    if isinstance(d, (bytes, bytearray)):
        return bytes(d) == b"\x00"
    if isinstance(d, ABits) and d.kind == "bytes" and len(d.items) == 8:
        return all(isinstance(I.simp(b), F) and I.simp(b).is_const and I.simp(b).c == 0 for b in d.items)
    return False


def sym_bytes(I, name, n, fixed=None):
    items = [I.atom_form((name, i)) for i in range(8 * n)]
    for pos, val in (fixed or {}).items():
        for k in range(8):
            items[pos * 8 + k] = F(0, (val >> (7 - k)) & 1)
    return ABits(items, "bytes")


def run(ctx):
    repo = ctx.repo
    ctx.explanation = (
        "P2P: the real handler, the real RepeaterStorage and Repeater are analysed by abstract interpretation for each "
        "request kind (registration, RDAC start-up, DMR start-up, ping, unknown command, idle) crossed with each "
        "authorisation state of the sender (unknown address, known but never registered, registered); the datagram body "
        "is symbolic, the transport an external stub whose sendto calls are the effects.  RDAC: for every stored step "
        "value and each datagram shape (one-byte reset, multi-byte with symbolic content — prefix comparisons fork) the "
        "effects, the step dictionary of the sender AND of another peer, and the completion callback are inspected. "
        "A repository-wide scan confirms the single writer of the registered attribute."
    )
    ctx.assumptions = ["Repeater.read_snmp_values (network I/O) is replaced by a no-op, as the property's hook note says",
                       "datagram bodies are arbitrary bytes of the analysed lengths (P2P: 32 and the lengths around every constant the handlers compare len(data) with; RDAC: 240)"]
    ctx.rule("gate/reject-unregistered", "a start-up request or ping from an address without a registered repeater is answered by exactly one single-byte 0x00 datagram to the requester and nothing else")
    ctx.rule("gate/serve-registered", "a registered repeater's request is answered only to its stored outbound address, the requester, or (requester ip, p2p port); never with the reject")
    ctx.rule("gate/registration", "a registration request creates/marks exactly the sender's repeater as registered and answers its outbound address")
    ctx.rule("gate/silent-otherwise", "unknown command types and idle packets produce no datagram and change no registration")
    ctx.rule("registered/single-writer", "the registered attribute is written at exactly one call site and by no patch dictionary")
    ctx.rule("rdac/own-key", "a datagram changes only the sender's entry of the step dictionary")
    ctx.rule("rdac/guarded-advance", "the step advances, and datagrams are sent, only on a path where the datagram matched a response constant; a non-matching datagram changes nothing")
    ctx.rule("rdac/expected-response", "a stored step advances only on the one response expected for it (leading octets and next step pinned by value), never on the response of another step")
    ctx.rule("rdac/reset", "a one-byte datagram in any step but 14 restarts the sender at step 1 with exactly the step-0 request; in step 14 the step never changes")
    ctx.rule("rdac/handlers-exist", "every step value that can be stored has a handler")
    ctx.rule("rdac/completion-once", "the completion callback runs exactly on the 13 -> 14 transition, with the sender's repeater id, and on no other path")
    with ctx.guard("P2P"):
        p2p(ctx)
    with ctx.guard("RDAC"):
        rdac(ctx)
    single_writer(ctx)
    ctx.require("gate/reject-unregistered", 6)
    ctx.require("gate/serve-registered", 3)
    ctx.require("rdac/guarded-advance", 13)
    ctx.require("rdac/expected-response", 12)


def p2p(ctx):
    repo = ctx.repo
    pci = repo.cls(PMOD, "P2PDatagramProtocol")
    sci = repo.cls("storage.repeater_storage", "RepeaterStorage")
    dr = repo.find_method(pci, "datagram_received")
    for n_ in ("datagram_received", "handle_registration", "handle_rdac_request", "handle_dmr_request", "handle_ping", "get_redirect_packet"):
        ctx.saw_func(repo.func(PMOD, f"P2PDatagramProtocol.{n_}"))
    for n_ in ("match_incoming", "save", "match_attr", "create_repeater"):
        ctx.saw_func(repo.func("storage.repeater_storage", f"RepeaterStorage.{n_}"))
    attr_name = repo.class_const(pci, "STORAGE_ATTR_IS_REGISTERED")
    types = {"registration": repo.class_const(pci, "PACKET_TYPE_REQUEST_REGISTRATION"), "rdac": repo.class_const(pci, "PACKET_TYPE_REQUEST_RDAC_STARTUP"),
             "dmr": repo.class_const(pci, "PACKET_TYPE_REQUEST_DMR_STARTUP")}
    cmd = repo.class_const(pci, "COMMAND_PREFIX")
    ping = repo.class_const(pci, "PING_PREFIX")
    kinds = {}
    for k, t in types.items():
        kinds[k] = {0: cmd[0], 1: cmd[1], 2: cmd[2], 20: t}
    kinds["unknown-command"] = {0: cmd[0], 1: cmd[1], 2: cmd[2], 20: 0x77}
    kinds["ping"] = {0: 0x00, **{4 + i: ping[i] for i in range(len(ping))}}
    kinds["idle"] = {0: 0x00, 4: 0x00}
    # datagram lengths: the default 32 and every length around a constant the handlers compare len(data) with
    lens = {32}
    for fi in pci.methods.values():
        for n in ast.walk(fi.node):
            if isinstance(n, ast.Compare) and any(isinstance(x, ast.Call) and isinstance(x.func, ast.Name) and x.func.id == "len" for x in [n.left] + list(n.comparators)):
                for x in [n.left] + list(n.comparators):
                    for y in ast.walk(x):
                        try:
                            c = repo.fold_expr(y, fi.module, pci) if isinstance(y, (ast.Constant, ast.Attribute, ast.BinOp, ast.Name)) and not (isinstance(y, ast.Name) and y.id in fi.params) else None
                        except Exception:
                            c = None
                        if isinstance(c, int) and not isinstance(c, bool) and 0 < c < 200:
                            lens.update({c, c + 1, c + 2})
    ctx.extra["p2p_datagram_lengths"] = sorted(lens)
    # a command cut off before its type octet (offset 20): the prefix says "command", there is no type — nothing may be served
    # and nobody may become registered by it
    TYPE_POS = 20
    kinds["truncated-command"] = {0: cmd[0], 1: cmd[1], 2: cmd[2]}
    trunc = {TYPE_POS - 4, TYPE_POS - 1, TYPE_POS}
    for kind, fixed, L in [(k, f, L) for k, f in kinds.items() for L in sorted(lens | (trunc if k == "truncated-command" else set()))
                           if max(f) < L and (k != "truncated-command" or L <= TYPE_POS)]:
        for state in ("unknown", "known-unregistered", "registered"):
            key = f"{dr.qualname} | {kind},{state}" + ("" if L == 32 else f",{L} octets")
            I = Interp(repo)
            no_snmp(I, repo)

            def run_p(st, fixed=fixed, state=state, L=L):
                I.st = st
                storage = I.construct(sci, [], {})
                other = I.call(repo.find_method(sci, "match_incoming"), [storage], {"address": B, "auto_create": True})
                I.call(repo.find_method(other.cls, "attr"), [other, attr_name, True], {})
                other.attrs["address_out"] = ("10.2.2.2", 50000)
                rpt = None
                if state != "unknown":
                    rpt = I.call(repo.find_method(sci, "match_incoming"), [storage], {"address": A, "auto_create": True})
                    rpt.attrs["address_out"] = ("10.1.1.1", 50000)
                    if state == "registered":
                        I.call(repo.find_method(rpt.cls, "attr"), [rpt, attr_name, True], {})
                h = I.construct(pci, [], {"storage": storage})
                h.attrs["transport"] = AExt("transport")
                del st.effects[:]
                I.call(dr, [h, sym_bytes(I, "d", L, fixed), A], {})
                return storage, rpt, other, h

            try:
                paths_p = explore(run_p, max_paths=200)
            except AnalysisError as e_:
                ctx.analysis_errors.append(f"{key}: {e_}")
                continue
            if any(k_ == "abort" for _, (k_, _v) in paths_p):
                # this scenario cannot be followed; the others are still decided (the run ends in exit 2 unless one of them finds a violation)
                ctx.analysis_errors.append(f"{key}: {next(v_ for _, (k_, v_) in paths_p if k_ == 'abort')}")
                continue
            for st, (k, v) in paths_p:
                I.st = st
                if k == "abort":
                    raise AnalysisError(f"{key}: {v}")
                if k == "raise":
                    ctx.ob("gate/silent-otherwise" if kind in ("unknown-command", "idle", "truncated-command") else "gate/serve-registered", key, False, f"handler raises {v.exc} at {v.msg}", dr.loc)
                    continue
                storage, rpt, other, h = v
                sd = sends(st)
                reps = storage.attrs.get("__repeaters", {})
                reg = {str(r.attrs.get("address_in")): (r.attrs.get("__attrs", {}).get(attr_name)) for r in reps.values()}
                allowed = {("10.1.1.1", 50000), A, (A[0], 50000)}
                if kind in ("rdac", "dmr", "ping"):
                    if state != "registered":
                        ok = len(sd) == 1 and is_reject(I, sd[0]) and dest(sd[0]) == A and len(reps) == (1 if state == "unknown" else 2) \
                            and reg.get(str(A)) in (None,)
                        ctx.ob("gate/reject-unregistered", key, ok,
                               f"{len(sd)} datagram(s) to {[dest(e) for e in sd]}, reject={[is_reject(I, e) for e in sd]}, storage has {len(reps)} record(s)", dr.loc)
                    else:
                        ok = len(sd) >= 1 and all(dest(e) in allowed and not is_reject(I, e) for e in sd)
                        ctx.ob("gate/serve-registered", key, ok, f"{len(sd)} datagram(s) to {[dest(e) for e in sd]}", dr.loc)
                elif kind == "registration":
                    ok = len(sd) == 1 and dest(sd[0]) in (("10.1.1.1", 50000), ("", 0), rpt.attrs.get("address_out") if rpt else None) or (state == "unknown" and len(sd) == 1)
                    mine = [r for r in reps.values() if r.attrs.get("address_in") == A]
                    ok = ok and len(mine) == 1 and mine[0].attrs.get("__attrs", {}).get(attr_name) is True and len(reps) == 2 \
                        and other.attrs.get("__attrs", {}).get(attr_name) is True
                    ctx.ob("gate/registration", key, ok, f"{len(sd)} datagram(s) to {[dest(e) for e in sd]}; records {reg}", dr.loc)
                else:
                    ok = not sd and len(reps) == (1 if state == "unknown" else 2) and reg.get(str(A)) == (True if state == "registered" else None)
                    ctx.ob("gate/silent-otherwise", key, ok, f"{len(sd)} datagram(s); records {reg}", dr.loc)
                if kind == "rdac" and state == "registered":
                    ctx.sample({"scenario": key, "sends_to": [str(dest(e)) for e in sd]})


# step -> (next step, leading octets of the one response that advances it), as on today's tree
RDAC_EXPECTED = {1: (2, "7e0400fd"), 2: (3, "7e040010"), 3: (4, "7e040000"), 4: (5, "7e040000"), 5: (6, "7e040010"), 6: (7, "7e040000"), 7: (8, "7e040010"),
                 8: (10, "7e040010"), 10: (11, "7e040000"), 11: (12, "7e040010"), 12: (13, "7e040000"), 13: (14, "7e0400fa")}


def rdac(ctx):
    repo = ctx.repo
    rci = repo.cls(RMOD, "RDACDatagramProtocol")
    sci = repo.cls("storage.repeater_storage", "RepeaterStorage")
    dr = repo.find_method(rci, "datagram_received")
    ctx.saw_func(dr)
    steps = sorted(int(n[4:]) for n in rci.methods if n.startswith("step") and n[4:].isdigit())
    for n_ in steps:
        ctx.saw_func(rci.methods[f"step{n_}"])
    stored = set()
    # constants ever stored into self.step[...] anywhere in the class (syntactic)
    for fi in rci.methods.values():
        for n in ast.walk(fi.node):
            if isinstance(n, ast.Assign) and isinstance(n.targets[0], ast.Subscript) and ast.unparse(n.targets[0].value) == "self.step":
                try:
                    stored.add(repo.fold_expr(n.value, fi.module, rci))
                except Unfoldable:
                    # the value is a parameter of a helper (`advance(address, next_step)`): the constants its call sites pass
                    names = {x.id for x in ast.walk(n.value) if isinstance(x, ast.Name)} & set(fi.params)
                    if len(names) != 1:
                        stored.add(None)
                        continue
                    pidx = fi.params.index(next(iter(names)))
                    for g in rci.methods.values():
                        for c in ast.walk(g.node):
                            if isinstance(c, ast.Call) and isinstance(c.func, ast.Attribute) and c.func.attr == fi.name:
                                arg = c.args[pidx - 1] if len(c.args) >= pidx else next((k.value for k in c.keywords if k.arg == fi.params[pidx]), None)
                                try:
                                    stored.add(repo.fold_expr(arg, g.module, rci) if arg is not None else None)
                                except Unfoldable:
                                    stored.add(None)
    if None in stored:
        ctx.info(f"{rci.qualname}: some stored step values are not constants of the source; the handler-existence cross-check is skipped (every step handler is analysed below)")
    else:
        ctx.ob("rdac/handlers-exist", rci.qualname, stored <= set(steps), f"stored step values {sorted(stored)}, handlers {steps}", rci.loc)
    step0_req = repo.class_const(rci, "STEP0_REQUEST")
    for s in [None] + steps:
        for shape in ("reset", "data"):
            key = f"{dr.qualname} | step={s},{shape}"
            I = Interp(repo)
            no_snmp(I, repo)

            def run_r(st, s=s, shape=shape):
                I.st = st
                storage = I.construct(sci, [], {})
                h = I.construct(rci, [], {"storage": storage, "callback": AExt("callback")})
                h.attrs["transport"] = AExt("transport")
                h.attrs["step"] = {B[0]: 5}
                if s is not None:
                    h.attrs["step"][A[0]] = s
                data = sym_bytes(I, "d", 1) if shape == "reset" else sym_bytes(I, "d", 240)
                st.__dict__["rdac_data"] = data
                del st.effects[:]
                I.call(dr, [h, data, A], {})
                return h, storage

            n_adv = 0
            for st, (k, v) in explore(run_r, max_paths=400):
                I.st = st
                if k == "abort":
                    raise AnalysisError(f"{key}: {v}")
                taken = [l for l, d in zip(st.labels, st.decisions) if d]
                if k == "raise":
                    ctx.ob("rdac/guarded-advance", key + " | raises", False, f"handler raises {v.exc} at {v.msg}", dr.loc)
                    continue
                h, storage = v
                sd = sends(st)
                cbs = [e for e in st.effects if e[0] == "callback()"]
                stepd = h.attrs["step"]
                s0 = s if s else 0
                s1 = stepd.get(A[0])
                ok_own = stepd.get(B[0]) == 5 and set(stepd) <= {A[0], B[0]}
                if not ok_own:
                    ctx.ob("rdac/own-key", key, False, f"step dictionary after the call: {stepd}", dr.loc)
                matched = any(":eqseq" in l for l in taken) or constrains_data(I, st)
                if shape == "reset":
                    if s0 != 14:
                        ok = s1 == 1 and len(sd) == 1 and dest(sd[0]) == A and payload(sd[0]) == step0_req and not cbs
                        ctx.ob("rdac/reset", key, ok, f"step {s0} -> {s1}, {len(sd)} datagram(s)", dr.loc)
                    else:
                        ctx.ob("rdac/reset", key + (" | zero" if sd else " | other"), s1 == 14 and not cbs and all(dest(e) == A for e in sd), f"step 14 -> {s1}, {len(sd)} datagram(s)", dr.loc)
                    continue
                # multi-byte data
                changed = s1 != s0
                if s0 == 14:
                    ctx.ob("rdac/guarded-advance", key, not changed and not sd and not cbs, f"in step 14: step -> {s1}, {len(sd)} datagram(s), {len(cbs)} callback(s)", dr.loc)
                    continue
                if s0 == 0:
                    # step0 is the start action, entered from the first-datagram path
                    ctx.ob("rdac/guarded-advance", key, s1 == 1 and len(sd) == 1 and dest(sd[0]) == A and not cbs, f"start: step -> {s1}, {len(sd)} datagram(s)", dr.loc)
                    continue
                if not matched:
                    ok = not changed and not sd and not cbs
                    ctx.ob("rdac/guarded-advance", key + " | no match", ok, f"datagram matched no response constant but step {s0} -> {s1}, {len(sd)} datagram(s), {len(cbs)} callback(s)", dr.loc)
                else:
                    n_adv += 1
                    # the response EXPECTED for the stored step (pinned by value from today's tree, each confirmed by reading the
                    # handler): a step that also advances on another step's response (a 'lost datagram' shortcut) skips a stage
                    pre = fixed_prefix(I, data_of(st)).hex()
                    exp = RDAC_EXPECTED.get(s0)
                    if exp is None:
                        raise AnalysisError(f"{key}: step {s0} advances on a datagram, but the pinned table of expected responses has no entry for it")
                    ctx.ob("rdac/expected-response", key + f" | {pre or 'no fixed prefix'} -> {s1}", (s1, pre) == exp,
                           f"step {s0} advances to {s1} on a datagram starting {pre or '?'}; the response expected in step {s0} starts {exp[1]} and leads to step {exp[0]}", dr.loc)
                    ok = changed and s1 in steps and s1 > s0 and all(dest(e) == A for e in sd)
                    ctx.ob("rdac/guarded-advance", key + " | match", ok, f"matching datagram: step {s0} -> {s1}, {len(sd)} datagram(s) to {sorted(set(map(str, map(dest, sd))))}", dr.loc)
                    want_cb = 1 if (s0 == 13 and s1 == 14) else 0
                    cb_ok = len(cbs) == want_cb
                    if want_cb and cb_ok:
                        reps = storage.attrs.get("__repeaters", {})
                        mine = [r for r in reps.values() if r.attrs.get("address_in") == A]
                        cb_ok = len(mine) == 1 and cbs[0][1] and cbs[0][1][0] is mine[0].attrs.get("id")
                    ctx.ob("rdac/completion-once", key, cb_ok, f"{len(cbs)} callback(s) on {s0} -> {s1} (expected {want_cb})", dr.loc)
                if ok_own and shape == "data" and matched:
                    ctx.ob("rdac/own-key", key, True, "other peer's step untouched", dr.loc)


def data_of(st):
    return st.__dict__["rdac_data"]


def fixed_prefix(I, data) -> bytes:
    """the leading octets of the datagram that the path's conditions fix to constants"""
    out = bytearray()
    bits = I.simp_bits(data.items)
    for i in range(0, len(bits), 8):
        o = bits[i:i + 8]
        if not all(isinstance(b, F) and b.is_const for b in o):
            break
        out.append(int("".join(str(b.c) for b in o), 2))
    return bytes(out)


def constrains_data(I, st, name="d") -> bool:
    """does the path carry a POSITIVE condition on the datagram's octets (an equality with a constant, in whatever way the handler
    spells the comparison)?  Linear equalities fix atoms of the datagram in the path's system; sequence equalities assumed true
    mention them.  Disequalities (comparisons that failed) do not count."""
    names = I.atoms.names
    for pivot in st.lin.rows:
        nm = names[pivot]
        if isinstance(nm, tuple) and nm[0] == name:
            return True
    def has_d(x, depth=0):
        if isinstance(x, F):
            return any(isinstance(names[a], tuple) and names[a][0] == name for a in x.atoms())
        if isinstance(x, ABits):
            return any(has_d(y, depth + 1) for y in x.items)
        if isinstance(x, AInt):
            return any(has_d(y, depth + 1) for y in x.bits)
        if isinstance(x, (tuple, list)) and depth < 6:
            return any(has_d(y, depth + 1) for y in x)
        return False
    def parts_of(x):
        return x.parts if isinstance(x, ACond) else x

    def positive(kind, parts, value, depth=0):
        """is `kind(parts) == value` a positive condition on the datagram?"""
        if depth > 4:
            return False
        if kind == "not":
            inner = [p for p in (parts if isinstance(parts, (tuple, list)) else [parts]) if isinstance(p, ACond)]
            return any(positive(i.kind, i.parts, not value, depth + 1) for i in inner)
        if kind.startswith("eq") and value is True:
            return has_d(_thaw(parts))
        return False

    def _thaw(parts, depth=0):
        # frozen keys hold ("ABits", kind, (forms...)) / ("AInt", (forms...), ext) tuples: has_d walks tuples anyway
        return parts
    for k, v in st.conds.items():
        if isinstance(k, tuple) and k and isinstance(k[0], str) and positive(k[0], k[1] if len(k) > 1 else (), v):
            return True
    return False


def single_writer(ctx):
    repo = ctx.repo
    pci = repo.cls(PMOD, "P2PDatagramProtocol")
    attr_name = repo.class_const(pci, "STORAGE_ATTR_IS_REGISTERED")
    writers, readers, patch_keys = [], [], []
    for fi in repo.all_functions():
        for n in ast.walk(fi.node):
            if isinstance(n, ast.Call) and isinstance(n.func, ast.Attribute) and n.func.attr == "attr" and n.args:
                try:
                    k = repo.fold_expr(n.args[0], fi.module, fi.cls, {"self": None} if False else None)
                except Unfoldable:
                    k = None
                    a0 = n.args[0]
                    if isinstance(a0, ast.Attribute) and isinstance(a0.value, ast.Name) and a0.value.id in ("self", "cls") and fi.cls is not None:
                        try:
                            k = repo.class_const(fi.cls, a0.attr)
                        except Unfoldable:
                            k = None
                if k == attr_name:
                    (writers if len(n.args) + len(n.keywords) >= 2 else readers).append(fi.qualname)
            if isinstance(n, ast.Dict):
                for kx in n.keys:
                    if kx is None:
                        continue
                    try:
                        kv = repo.fold_expr(kx, fi.module, fi.cls)
                    except Unfoldable:
                        kv = None
                        if isinstance(kx, ast.Attribute) and isinstance(kx.value, ast.Name) and kx.value.id in ("self", "cls") and fi.cls is not None:
                            try:
                                kv = repo.class_const(fi.cls, kx.attr)
                            except Unfoldable:
                                kv = None
                    if kv == attr_name:
                        patch_keys.append(fi.qualname)
    # exactly one call site writes the attribute, no patch dictionary names it, and it is read somewhere (how many gates read it, and
    # what the writing function is called, is the implementation's business — the gate scenarios above decide the behaviour)
    ok = len(writers) == 1 and not patch_keys and len(readers) >= 1
    ctx.ob("registered/single-writer", f"{PMOD}:P2PDatagramProtocol.STORAGE_ATTR_IS_REGISTERED", ok,
           f"writers {writers}, readers {len(readers)}, dictionaries naming the attribute {patch_keys}", pci.loc)
