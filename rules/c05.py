"""C05 — CRC engines (= polynomial remainder for all messages of the analysed lengths, table == bitwise,
history independence) and front ends (inversion, masks, byte/bit order, parts assembly)."""
from __future__ import annotations

import json
import pathlib

from sa.bitabs import ABits, ACond, AInt, F, Interp, OB, explore
from sa.model import AnalysisError, EnumMember, Rec, Unfoldable
from sa.wiring import Misbehaves, single_path
from sa.bitabs import PartialRaise

SPEC = pathlib.Path(__file__).resolve().parent.parent / "spec" / "crc.json"
QUICK_LENGTHS = [1, 2, 3, 5, 7, 8, 9, 10, 13, 15, 16, 17, 23, 24, 25, 31, 32, 33, 40, 47, 48, 49, 64, 80, 87, 96]


def remainder_forms(I, bits, w, poly):
    """forms (msb first) of  message(x) * x^w  mod  (x^w + poly)  for message bits given as forms"""
    L = len(bits)
    full = poly | (1 << w)
    out = [F(0, 0)] * w
    for i, b in enumerate(bits):
        v = 1 << (L - 1 - i + w)
        for sh in range(L - 1 + w, w - 1, -1):
            if v >> sh & 1:
                v ^= full << (sh - w)
        for j in range(w):
            if v >> (w - 1 - j) & 1:
                out[j] = out[j] ^ b
    return out


def int_forms_msb(v, w):
    if isinstance(v, int):
        return [F(0, (v >> (w - 1 - j)) & 1) for j in range(w)]
    if isinstance(v, AInt):
        return v.msb_first(w)
    raise AnalysisError(f"expected an integer result, got {v!r}")


def calc_obj(I, repo, cfg_member, table_based=True):
    calc = repo.cls("etsi.crc.crc", "BitCrcCalculator")
    return I.construct(calc, [], {"configuration": cfg_member, "table_based": table_based})


def install_real_calcs(I, repo, st):
    """class-level CALC singletons as real (abstractly constructed) calculator objects, one per path"""
    cs = st.__dict__.setdefault("class_state", {})
    for mod, cls in (("etsi.crc.crc8", "CRC8"), ("etsi.crc.crc9", "CRC9"), ("etsi.crc.crc16", "CRC16"), ("etsi.crc.crc32", "CRC32")):
        ci = repo.cls(mod, cls)
        rec = repo.class_const(ci, "CALC")
        if not isinstance(rec, Rec):
            raise AnalysisError(f"{ci.qualname}.CALC is not a folded BitCrcCalculator(...) call")
        cs[(ci.qualname, "CALC")] = calc_obj(I, repo, rec.fields["configuration"], rec.fields.get("table_based", False))


def same_bits(I, a, b) -> bool:
    """are the two bit vectors equal on the current path (compared modulo what the path knows)?"""
    if len(a) != len(b):
        return False
    for x, y in zip(a, b):
        d = x ^ y
        if isinstance(d, OB):
            raise AnalysisError("a bit the analysis could not follow reached a comparison of the CRC rules")
        d = I.simp(d)
        if not (isinstance(d, F) and d.is_const and d.c == 0):
            return False
    return True


def run(ctx):
    repo = ctx.repo
    spec = json.loads(SPEC.read_text())
    m = repo.module("etsi.crc.crc")
    ctx.explanation = (
        "CRC parameters and B.3.12 masks are folded from the source and compared with pinned ETSI values.  The real "
        "register classes are analysed by abstract interpretation over GF(2)-affine forms (data-dependent branches of "
        "the shift/xor loop are if-converted exactly because both sides differ by constants; the lookup table is built "
        "by constant evaluation of bits_create_lookup_table and, being GF(2)-linear, indexed exactly): for every "
        "configuration, both modes and every analysed message length the checksum forms equal message(x)*x^w mod g(x) "
        "for ALL messages of that length; several lengths are computed on ONE calculator object in sequence (history "
        "independence).  Front ends are analysed on top of the real engine: inversion, mask, byte swap / bit order, "
        "parts assembly, and check(...) == (calculate(...) == given)."
    )
    ctx.assumptions = ["bitarray semantics (endianness of frombytes/ba2int/int2ba, shifts, lexicographic compare with 10..0) as modelled in sa/bitabs.py",
                       "message lengths analysed: see coverage.lengths (all messages of each listed length)"]
    ctx.rule("crc/parameters", "Crc7/8/9/16/32.ETSI_DMR = pinned (width, polynomial, init 0, xor-out 0, no reflection)")
    ctx.rule("crc/masks", "the 11 CrcMasks members equal the pinned B.3.12 values")
    ctx.rule("crc/feed-width", "derived feed widths are {7:7, 8:8, 9:9, 16:8, 32:8}")
    ctx.rule("crc/engine-remainder", "calculate_checksum(message) = message(x)*x^w mod g(x) for all messages of each analysed length, in bitwise and table mode, also when one calculator is reused")
    ctx.rule("crc/front-end", "front end result = documented recipe on top of the remainder (inversion, mask, byte order, parts)")
    ctx.rule("crc/check", "check(..., given) is exactly calculate(...) == given")
    lengths = QUICK_LENGTHS if ctx.tier == "quick" else sorted(set(QUICK_LENGTHS) | set(range(1, 130)) | {144, 192})
    ctx.extra["lengths"] = lengths
    cfgs = {}
    for name, sp in spec["configs"].items():
        ci = m.classes.get(name)
        if ci is None:
            raise AnalysisError(f"{name} not found in crc.py")
        ctx.saw(file=m.relpath, table=f"{ci.qualname}.ETSI_DMR")
        try:
            mem = repo.class_const(ci, "ETSI_DMR")
        except Unfoldable as e:
            raise AnalysisError(f"{ci.qualname}.ETSI_DMR not foldable: {e}")
        rec = mem.value
        f = rec.fields
        got = {k: f[k] for k in ("width_bits", "polynomial", "init_value", "final_xor_value", "reverse_input_bytes", "reverse_output_bytes")}
        ctx.ob("crc/parameters", ci.qualname, got == sp["params"], f"folded {got}, pinned {sp['params']}", ci.loc)
        ctx.ob("crc/feed-width", ci.qualname, f.get("feed_width_bits") == sp["feed"], f"feed width {f.get('feed_width_bits')}, expected {sp['feed']}", ci.loc)
        cfgs[name] = (mem, f["width_bits"], f["polynomial"])
    mk = repo.cls("etsi.layer2.elements.crc_masks", "CrcMasks")
    ctx.saw(file=mk.module.relpath, table=f"{mk.qualname}")
    masks = {k: v.value for k, v in repo.enum_members(mk).items()}
    ctx.ob("crc/masks", mk.qualname, masks == spec["masks"], f"differences: { {k: (masks.get(k), spec['masks'].get(k)) for k in set(masks) | set(spec['masks']) if masks.get(k) != spec['masks'].get(k)} }", mk.loc)

    calc_cls = repo.cls("etsi.crc.crc", "BitCrcCalculator")
    cc = repo.find_method(calc_cls, "calculate_checksum")
    for n_ in ("BitCrcRegisterBase.init", "BitCrcRegisterBase.update", "BitCrcRegisterBase.digest", "BitCrcRegister._process_bits", "TableBasedBitCrcRegister._process_bits"):
        ctx.saw_func(repo.func("etsi.crc.crc", n_))
    ctx.saw_func(cc)
    ctx.saw_func(m.functions["bits_create_lookup_table"])
    # ---- engines
    for name, (mem, w, poly) in cfgs.items():
        for tb in (False, True):
            key = f"etsi.crc.crc:{name}[{'table' if tb else 'bitwise'}]"
            with ctx.guard(key):
                I = Interp(repo)
                del I.summaries["etsi.crc.crc:BitCrcCalculator.calculate_checksum"]

                def run_e(st, mem=mem, tb=tb):
                    I.st = st
                    c = calc_obj(I, repo, mem, tb)
                    outs = []
                    for L in lengths:
                        msg = I.wire(f"d{L}", L)
                        outs.append((L, msg, I.call(cc, [c, msg], {})))
                    return outs

                try:
                    st, outs = single_path(I, run_e, key)
                except Misbehaves as e:
                    ctx.ob("crc/engine-remainder", key, False, str(e), cc.loc)
                    continue
                bad = []
                for L, msg, r in outs:
                    if not isinstance(r, ABits) or len(r.items) != w or not same_bits(I, r.items, remainder_forms(I, msg.items, w, poly)):
                        bad.append(L)
                ctx.ob("crc/engine-remainder", key, not bad,
                       f"{len(outs)} lengths on one calculator; lengths whose checksum is not the polynomial remainder: {bad[:10]}", cc.loc)
                if not tb:
                    ctx.sample({"config": name, "length": outs[3][0], "crc_bit0": repr(outs[3][2].items[0])})

    # ---- front ends on the real engine
    def fe(key, fi_mod, fi_name, build, expect, loc_fi=None):
        fi = repo.func(fi_mod, fi_name)
        ctx.saw_func(fi)
        with ctx.guard(key):
            I = Interp(repo)
            del I.summaries["etsi.crc.crc:BitCrcCalculator.calculate_checksum"]

            def run_f(st):
                I.st = st
                install_real_calcs(I, repo, st)
                args, kw = build(I)
                return args, kw, I.call(fi, args, kw)

            res = explore(run_f)
            bad = []
            n_ok = 0
            for st, (kind, v) in res:
                I.st = st
                if kind == "abort":
                    raise AnalysisError(f"{key}: {v}")
                if kind == "raise":
                    bad.append(f"raises {v} on path {st.labels}")
                    continue
                args, kw, r = v
                why = expect(I, st, args, kw, r)
                n_ok += 1
                if why:
                    bad.append(why)
            ctx.ob("crc/front-end" if not fi_name.endswith("check") else "crc/check", key, not bad and n_ok > 0, f"{n_ok} path(s); " + ("; ".join(bad[:3]) if bad else "matches the recipe"), fi.loc)

    def bytes_wire(I, name, n):
        return ABits([I.atom_form((name, i)) for i in range(8 * n)], "bytes")

    mask_members = repo.enum_members(mk)
    # CRC16.calculate for every 16-bit mask, 10 octets (PDU size) and 3 octets
    for mname in ("PiHeader", "CSBK", "MBCHeader", "DataHeader", "UnifiedSingleBlockData"):
        for n in (10, 3):
            def build(I, n=n, mname=mname):
                return [bytes_wire(I, "d", n), mask_members[mname]], {}

            def expect(I, st, args, kw, r, n=n, mname=mname):
                rem = remainder_forms(I, args[0].items, 16, 0x1021)
                want = [b ^ 1 ^ ((spec["masks"][mname] >> (15 - j)) & 1) for j, b in enumerate(rem)]
                return None if same_bits(I, int_forms_msb(r, 16), want) else f"CRC16.calculate != ~remainder ^ mask({mname})"
            fe(f"etsi.crc.crc16:CRC16.calculate[{mname},{n} octets]", "etsi.crc.crc16", "CRC16.calculate", build, expect)
    # CRC8
    for n in (28, 36):
        def build(I, n=n):
            return [I.wire("d", n)], {}

        def expect(I, st, args, kw, r):
            rem = remainder_forms(I, args[0].items, 8, 0x07)
            return None if same_bits(I, int_forms_msb(r, 8), rem) else "CRC8.calculate != remainder"
        fe(f"etsi.crc.crc8:CRC8.calculate[{n} bits]", "etsi.crc.crc8", "CRC8.calculate", build, expect)
    # CRC9.calculate and calculate_from_parts
    for mname in ("Rate12DataContinuation", "Rate34DataContinuation", "Rate1DataContinuation"):
        def build(I, mname=mname):
            return [I.wire("d", 87), mask_members[mname]], {}

        def expect(I, st, args, kw, r, mname=mname):
            rem = remainder_forms(I, args[0].items, 9, 0x059)
            want = [b ^ 1 ^ ((spec["masks"][mname] >> (8 - j)) & 1) for j, b in enumerate(rem)]
            return None if same_bits(I, int_forms_msb(r, 9), want) else f"CRC9.calculate != ~remainder ^ mask({mname})"
        fe(f"etsi.crc.crc9:CRC9.calculate[{mname}]", "etsi.crc.crc9", "CRC9.calculate", build, expect)
        for variant in ("none", "bytes", "int"):
            for nd in (10, 6):
                def build(I, mname=mname, variant=variant, nd=nd):
                    kw = {"data": bytes_wire(I, "d", nd), "serial_number": AInt([I.atom_form(("s", i)) for i in range(7)]), "mask": mask_members[mname]}
                    if variant == "bytes":
                        kw["crc32"] = bytes_wire(I, "c", 4)
                    elif variant == "int":
                        kw["crc32"] = AInt([I.atom_form(("c", 31 - i)) for i in range(32)])
                    return [], kw

                def expect(I, st, args, kw, r, mname=mname, variant=variant):
                    data = list(kw["data"].items)
                    sn = kw["serial_number"].msb_first(7)
                    c32 = []
                    if variant == "bytes":
                        c32 = list(kw["crc32"].items)
                    elif variant == "int":
                        c32 = [I.atom_form(("c", i)) for i in range(32)]
                        # documented quirk: an integer CRC-32 equal to 0 means "no CRC-32" (in-band); on that path it is omitted
                        if all(I.simp(b) == F(0, 0) for b in c32):
                            c32 = []
                    rem = remainder_forms(I, I.simp_bits(data + c32 + sn), 9, 0x059)
                    want = [b ^ 1 ^ ((spec["masks"][mname] >> (8 - j)) & 1) for j, b in enumerate(rem)]
                    return None if same_bits(I, int_forms_msb(r, 9), want) else f"calculate_from_parts[{variant}] != CRC9(data || crc32 || dbsn)"
                fe(f"etsi.crc.crc9:CRC9.calculate_from_parts[{mname},{variant},{nd} octets]", "etsi.crc.crc9", "CRC9.calculate_from_parts", build, expect)
    # CRC32: 16-bit word swap, then every octet most-significant bit first
    for n in (8, 13, 22):
        def build(I, n=n):
            return [bytes_wire(I, "d", n)], {}

        def expect(I, st, args, kw, r, n=n):
            by = [args[0].items[i * 8:i * 8 + 8] for i in range(n)]
            sw = list(by)
            for i in range(0, n - 1, 2):
                sw[i], sw[i + 1] = by[i + 1], by[i]
            seq = [b for o in sw for b in o]
            rem = remainder_forms(I, seq, 32, 0x04C11DB7)
            return None if same_bits(I, int_forms_msb(r, 32), rem) else "CRC32.calculate != remainder over the word-swapped octets"
        fe(f"etsi.crc.crc32:CRC32.calculate[{n} octets]", "etsi.crc.crc32", "CRC32.calculate", build, expect)

    # ---- check == (calculate == given)
    def chk(key, mod, name, build, calc_name):
        calc_fi = repo.func(mod, calc_name)

        def expect(I, st, args, kw, r):
            kw2 = {k: v for k, v in kw.items() if k not in ("crc16", "crc32_", "crc9", "crc8")}
            given = kw.get("given")
            return None
        fi = repo.func(mod, name)
        ctx.saw_func(fi)
        with ctx.guard(key):
            I = Interp(repo)
            del I.summaries["etsi.crc.crc:BitCrcCalculator.calculate_checksum"]

            def run_c(st):
                I.st = st
                install_real_calcs(I, repo, st)
                cargs, ckw, kargs, kkw, given = build(I)
                want = I.call(calc_fi, cargs, ckw)
                got = I.call(fi, kargs, kkw)
                return want, got, given

            res = explore(run_c)
            bad = []
            for st, (kind, v) in res:
                I.st = st
                if kind == "abort":
                    if isinstance(v, PartialRaise):
                        # exact: some values of the (full-width) received check value make check() raise instead of answering
                        bad.append(f"{v} — a received value of the field's own width is refused instead of compared")
                        continue
                    raise AnalysisError(f"{key}: {v}")
                if kind == "raise":
                    bad.append(f"raises {v.exc} at {v.msg} on path {st.labels[-2:]} — a received value of the field's own width is refused instead of compared")
                    continue
                want, got, given = v
                w = max(len(given.bits), 1)
                d = [I.simp(a ^ b) for a, b in zip(int_forms_msb(want, w), given.msb_first(w))]
                if isinstance(got, ACond) and got.kind == "eq":
                    a, b = got.parts
                    ww = max(len(a.bits), len(b.bits))
                    d2 = [I.simp(x ^ y) for x, y in zip(a.msb_first(ww), b.msb_first(ww))]
                    if sorted(map(repr, d2[-w:])) != sorted(map(repr, d)) or any(repr(x) != "0" for x in d2[:-w]):
                        bad.append("compares something other than calculate(...) with the given value")
                elif isinstance(got, bool):
                    if got != all(isinstance(x, F) and x.is_const and x.c == 0 for x in d):
                        bad.append(f"constant verdict {got}")
                else:
                    bad.append(f"result {got!r}")
            ctx.ob("crc/check", key, not bad, "; ".join(bad[:3]) or "check(...) == (calculate(...) == given)", fi.loc)

    def sym(I, name, w):
        return AInt([I.atom_form((name, i)) for i in range(w)])

    chk("etsi.crc.crc16:CRC16.check", "etsi.crc.crc16", "CRC16.check",
        lambda I: ([bytes_wire(I, "d", 10), mask_members["CSBK"]], {}, [bytes_wire(I, "d", 10), sym(I, "g", 16), mask_members["CSBK"]], {}, sym(I, "g", 16)), "CRC16.calculate")
    chk("etsi.crc.crc8:CRC8.check", "etsi.crc.crc8", "CRC8.check",
        lambda I: ([I.wire("d", 28)], {}, [I.wire("d", 28), sym(I, "g", 8)], {}, sym(I, "g", 8)), "CRC8.calculate")
    chk("etsi.crc.crc32:CRC32.check", "etsi.crc.crc32", "CRC32.check",
        lambda I: ([bytes_wire(I, "d", 8)], {}, [bytes_wire(I, "d", 8), sym(I, "g", 32)], {}, sym(I, "g", 32)), "CRC32.calculate")
    chk("etsi.crc.crc9:CRC9.check", "etsi.crc.crc9", "CRC9.check",
        lambda I: ([], {"data": bytes_wire(I, "d", 10), "serial_number": sym(I, "s", 7), "mask": mask_members["Rate12DataContinuation"], "crc32": bytes_wire(I, "c", 4)},
                   [], {"data": bytes_wire(I, "d", 10), "serial_number": sym(I, "s", 7), "crc9": sym(I, "g", 9), "mask": mask_members["Rate12DataContinuation"], "crc32": bytes_wire(I, "c", 4)}, sym(I, "g", 9)),
        "CRC9.calculate_from_parts")
    ctx.require("crc/engine-remainder", 10)
    ctx.require("crc/front-end", 20)
    ctx.require("crc/check", 4)
    ctx.require("crc/parameters", 5)
