"""C01 — burst assemble/parse: SYNC table, frame partition, payload round trip through FEC, voice bursts."""
from __future__ import annotations

import json
import pathlib

from sa.bitabs import ABits, AEnum, AInt, AObj, Abort, F, Interp, OB, PartialRaise, PathRaise, explore
from sa.model import AnalysisError, EnumMember, Unfoldable
from sa.summaries import install_trellis_inverse_pair

SPEC = json.loads((pathlib.Path(__file__).resolve().parent.parent / "spec" / "sync.json").read_text())
BMOD = "etsi.layer2.burst"

# payload kind -> (module, class, PDU bits, DataTypes member)
PAYLOADS = [
    ("CSBK", "etsi.layer2.pdu.csbk", "CSBK", 96, "CSBK"),
    ("DataHeader", "etsi.layer2.pdu.data_header", "DataHeader", 96, "DataHeader"),
    ("VoiceLCHeader", "etsi.layer2.pdu.full_link_control", "FullLinkControl", 96, "VoiceLCHeader"),
    ("TerminatorWithLC", "etsi.layer2.pdu.full_link_control", "FullLinkControl", 96, "TerminatorWithLC"),
    ("PIHeader", "etsi.layer2.pdu.pi_header", "PIHeader", 96, "PIHeader"),
    ("Rate12Data", "etsi.layer2.pdu.rate12_data", "Rate12Data", 96, "Rate12Data"),
    ("Rate34Data", "etsi.layer2.pdu.rate34_data", "Rate34Data", 144, "Rate34Data"),
    ("Rate1Data", "etsi.layer2.pdu.rate1_data", "Rate1Data", 192, "Rate1Data"),
]


def install_payload_stubs(I, repo, record):
    """the burst layer is parametric in the payload bits: PDU.as_bits / from_bits become 'opaque box with
    N symbolic bits' (C03 decides the PDUs themselves)"""
    seen = set()
    for kind, mod, cls, n, dt in PAYLOADS:
        ci = repo.cls(mod, cls)
        if ci.qualname in seen:
            continue
        seen.add(ci.qualname)
        wfi = repo.find_method(ci, "as_bits")
        rfi = repo.find_method(ci, "from_bits")

        def w(I_, fi, args, kw, bound_cls):
            obj = args[0]
            if isinstance(obj, AObj) and "__bits__" in obj.attrs:
                return ABits(list(obj.attrs["__bits__"].items), "ba")
            return NotImplemented

        def r(I_, fi, args, kw, bound_cls, ci=ci):
            bits = args[0] if args else kw.get("bits")
            if not isinstance(bits, ABits):
                return NotImplemented
            o = AObj(ci, {"__bits__": ABits(list(bits.items), "ba")})
            record.append((ci.name, o))
            return o

        I.summaries[wfi.qualname] = w
        I.summaries[rfi.qualname] = r


def run(ctx):
    repo = ctx.repo
    bci = repo.cls(BMOD, "Burst")
    q = bci.qualname
    ctx.explanation = (
        "SYNC table folded and checked (10 distinct patterns, nibbles in {5,7,D,F}, data = voice XOR AAAAAAAAAAAA, "
        "pinned to ETSI table 9.2).  Burst assembly and parsing are analysed by abstract interpretation of the real "
        "Burst.__init__/as_bits/interleave/deinterleave/extract_data with the payload PDU replaced by a box of N "
        "symbolic bits (the burst layer is parametric in them; C03 decides the PDUs): for each of the 8 supported "
        "payload kinds, each data SYNC pattern and a symbolic colour code, the assembled 264 bits are parsed by a "
        "fresh Burst and the bits handed to the PDU parser are exactly the payload atoms, data type and colour code "
        "are the ones assembled, and re-serialisation gives identical forms.  BPTC(196,96) is interpreted for real "
        "(repair sees provably zero syndromes), rate 3/4 uses the C10 inverse-pair summary.  Voice bursts: any 216 "
        "vocoder bits around each voice SYNC, and around a valid EMB word (QR parity as linear forms of CC/PI/LCSS) "
        "with 32 symbolic embedded bits, parse and re-serialise to identical forms on every feasible path."
    )
    ctx.assumptions = ["C02/C06/C10 hold (component codes)", "C03 holds (PDU codecs); payloads are boxes of symbolic bits here",
                       "voice bursts are parsed with burst_type=Vocoder (the data-burst-with-EMB shape is outside the property's quantifier)"]
    ctx.rule("sync/table", "ten pairwise distinct 48-bit patterns over nibbles {5,7,D,F}; each data pattern is the voice pattern XOR AAAAAAAAAAAA; equal to pinned ETSI table 9.2")
    ctx.rule("burst/width", "an assembled burst has 264 non-opaque bits")
    ctx.rule("burst/payload-roundtrip", "the bits the parser hands to the PDU decoder are exactly the assembled payload bits (all payload values, all colour codes)")
    ctx.rule("burst/type-and-colour", "the parsed burst reports the assembled data type, PDU class and colour code")
    ctx.rule("burst/reassemble", "serialising the parsed burst yields identical bits")
    ctx.rule("burst/voice-sync", "216 vocoder bits around a voice SYNC survive parse-then-serialise bit for bit")
    ctx.rule("burst/voice-emb", "216 vocoder bits around a valid EMB word with any 32 embedded bits survive parse-then-serialise on every feasible path")
    ctx.rule("burst/override-pairs", "a subclass overriding interleave/deinterleave overrides both directions or serialises its own bits")
    # ---- SYNC table
    sci = repo.cls("etsi.layer2.elements.sync_patterns", "SyncPatterns")
    ctx.saw(file=sci.module.relpath, table=sci.qualname)
    mem = repo.enum_members(sci)
    pats = {n: m.value for n, m in mem.items() if isinstance(m.value, int) and m.value >= 0}
    okn = all(all(((v >> (4 * i)) & 0xF) in (5, 7, 0xD, 0xF) for i in range(12)) and v < (1 << 48) for v in pats.values())
    okp = all(a in pats and b in pats and pats[a] ^ pats[b] == 0xAAAAAAAAAAAA for a, b in SPEC["pairs"])
    pinned = {n: int(v, 16) for n, v in SPEC["patterns"].items()}
    ctx.ob("sync/table", sci.qualname, len(set(pats.values())) == len(pats) == 10 and okn and okp and pats == pinned,
           f"{len(pats)} patterns; nibble alphabet {'ok' if okn else 'violated'}; voice/data complement {'ok' if okp else 'violated'}; "
           f"differs from table 9.2 for {[n for n in pinned if pats.get(n) != pinned[n]]}", sci.loc)
    data_syncs = [b for a, b in SPEC["pairs"][:4]]
    voice_syncs = [a for a, b in SPEC["pairs"][:4]]
    dt_ci = repo.cls("etsi.layer2.elements.data_types", "DataTypes")
    dts = repo.enum_members(dt_ci)
    bt = repo.enum_members(repo.cls("etsi.layer2.elements.burst_types", "BurstTypes"))
    st_ci = repo.cls("etsi.layer2.pdu.slot_type", "SlotType")
    for n_ in ("__init__", "as_bits", "interleave", "deinterleave", "extract_data"):
        ctx.saw_func(repo.func(BMOD, f"Burst.{n_}"))
    as_bits = repo.find_method(bci, "as_bits")

    # ---- data bursts
    syncs_quick = data_syncs if ctx.tier == "thorough" else data_syncs
    for kind, mod, cls, n, dtname in PAYLOADS:
        pci = repo.cls(mod, cls)
        for sname in syncs_quick:
            key = f"{q} | {kind},{sname}"
            with ctx.guard(key):
                record = []
                I = Interp(repo)
                install_payload_stubs(I, repo, record)
                install_trellis_inverse_pair(I)

                def run_d(st, pci=pci, n=n, dtname=dtname, sname=sname):
                    I.st = st
                    del record[:]
                    cc = AInt([I.atom_form(("cc", i)) for i in range(4)])
                    payload = ABits([I.atom_form(("p", i)) for i in range(n)], "ba")
                    slot = I.construct(st_ci, [], {"colour_code": cc, "data_type": dts[dtname]})
                    b = I.construct(bci, [], {"burst_type": bt["DataAndControl"]})
                    b.attrs["has_emb"] = False
                    b.attrs["sync_or_embedded_signalling"] = mem[sname]
                    b.attrs["slot_type"] = slot
                    b.attrs["data"] = AObj(pci, {"__bits__": payload})
                    out = I.call(as_bits, [b], {})
                    del record[:]
                    parsed = I.construct(bci, [], {"full_bits": ABits(list(out.items), "ba"), "burst_type": bt["DataAndControl"]})
                    handed = list(record)
                    out2 = I.call(repo.find_method(parsed.cls, "as_bits"), [parsed], {})
                    pdt = I.call(repo.find_method(bci, "data_type"), [parsed], {})
                    pcc = I.call(repo.find_method(bci, "colour_code"), [parsed], {})
                    return cc, payload, out, parsed, handed, out2, pdt, pcc

                res = explore(run_d)
                bad_w, bad_rt, bad_tc, bad_re = [], [], [], []
                n_ok = 0
                for st, (k, v) in res:
                    I.st = st
                    if k == "abort":
                        if isinstance(v, PartialRaise):
                            bad_rt.append(f"assemble/parse {v}")
                            continue
                        raise AnalysisError(f"{key}: {v}")
                    if k == "raise":
                        bad_rt.append(f"assemble/parse raises {v} on path {st.labels[-2:]}")
                        continue
                    n_ok += 1
                    cc, payload, out, parsed, handed, out2, pdt, pcc = v
                    if not (isinstance(out, ABits) and len(out.items) == 264 and not any(isinstance(b_, OB) for b_ in out.items)):
                        bad_w.append(repr(out))
                        continue
                    got = [h for h in handed if h[0] == cls]
                    if len(got) != 1:
                        bad_rt.append(f"parser handed the payload to {[h[0] for h in handed]} instead of {cls}")
                    else:
                        hb = I.simp_bits(got[0][1].attrs["__bits__"].items)
                        if hb != I.simp_bits(payload.items):
                            diff = [i for i, (a, b_) in enumerate(zip(hb, I.simp_bits(payload.items))) if a != b_]
                            bad_rt.append(f"{len(diff)} payload bit(s) not restored (first positions {diff[:6]}, handed {len(hb)} bits)")
                    if pdt != dts[dtname]:
                        bad_tc.append(f"data type {pdt}")
                    cbits = I.simp_bits(I_to_bits(pcc, 4))
                    if cbits != I.simp_bits(cc.msb_first(4)):
                        bad_tc.append("colour code differs")
                    if not (isinstance(out2, ABits) and I.simp_bits(out2.items) == I.simp_bits(out.items)):
                        d = [i for i, (a, b_) in enumerate(zip(I.simp_bits(out2.items), I.simp_bits(out.items))) if a != b_] if isinstance(out2, ABits) else []
                        bad_re.append(f"re-serialised burst differs at {d[:8]}")
                ctx.ob("burst/width", key, not bad_w and n_ok > 0, f"{n_ok} path(s); " + "; ".join(bad_w[:2]), as_bits.loc)
                ctx.ob("burst/payload-roundtrip", key, not bad_rt and n_ok > 0, f"{n_ok} path(s), {n} payload bits, 4 colour-code bits symbolic; " + ("; ".join(bad_rt[:2]) or "payload atoms restored exactly"), as_bits.loc)
                ctx.ob("burst/type-and-colour", key, not bad_tc and n_ok > 0, "; ".join(bad_tc[:2]) or f"data type {dtname}, colour code forms equal", as_bits.loc)
                ctx.ob("burst/reassemble", key, not bad_re and n_ok > 0, "; ".join(bad_re[:2]) or "identical forms", as_bits.loc)
                if kind == "CSBK" and sname == data_syncs[0] and res and res[0][1][0] == "ok":
                    out = res[0][1][1][2]
                    ctx.sample({"burst": key, "bit0": repr(out.items[0]), "bit98(slot type)": repr(out.items[98]), "bit263": repr(out.items[263])})

    # ---- voice bursts around a voice SYNC
    # the library recognises a voice SYNC by itself (the burst type need not be given): both ways of parsing are analysed
    for sname in voice_syncs:
      for given in ("Vocoder", None):
        key = f"{q} | voice,{sname}" + ("" if given else ",burst type not given")
        with ctx.guard(key):
            I = Interp(repo)

            def run_v(st, sname=sname, given=given):
                I.st = st
                v = [I.atom_form(("v", i)) for i in range(216)]
                center = [F(0, (pats[sname] >> (47 - i)) & 1) for i in range(48)]
                full = ABits(v[:108] + center + v[108:], "ba")
                b = I.construct(bci, [], {"full_bits": full, "burst_type": bt[given]} if given else {"full_bits": full})
                return full, I.call(as_bits, [b], {}), b

            bad = []
            n_ok = 0
            for st, (k, v) in explore(run_v):
                I.st = st
                if k == "abort":
                    raise AnalysisError(f"{key}: {v}")
                if k != "ok":
                    bad.append(f"{k}: {v}")
                    continue
                n_ok += 1
                full, out, b = v
                if not (isinstance(out, ABits) and I.simp_bits(out.items) == I.simp_bits(full.items)):
                    bad.append("bits differ")
                # what the parse must have recognised: a vocoder burst that starts a superframe, not a data / control burst
                for attr, want in (("is_vocoder", True), ("is_data_or_control", False), ("is_voice_superframe_start", True)):
                    got = b.attrs.get(attr)
                    if isinstance(got, AInt):
                        got = I.st and (lambda c: bool(c) if c is not None else got)(I_const(I, got))
                    if got is not want and attr in b.attrs:
                        bad.append(f"{attr} is {got!r} after parsing a burst around the {sname} pattern")
            ctx.ob("burst/voice-sync", key, not bad and n_ok > 0, "; ".join(bad[:2]) or f"{n_ok} path(s), identical forms, recognised as the start of a voice superframe", as_bits.loc)

    # ---- voice bursts around valid embedded signalling
    key = f"{q} | voice,EMB"
    with ctx.guard(key):
        I = Interp(repo)
        emb_ci = repo.cls("etsi.layer2.pdu.embedded_signalling", "EmbeddedSignalling")

        def run_e(st):
            I.st = st
            I.steps = 0   # the step budget guards a single path
            v = [I.atom_form(("v", i)) for i in range(216)]
            e32 = [I.atom_form(("e", i)) for i in range(32)]
            cc = AInt([I.atom_form(("cc", i)) for i in range(4)])
            pi = AInt([I.atom_form(("pi", 0))])
            lcss = AInt([I.atom_form(("lcss", i)) for i in range(2)])
            emb = I.construct(emb_ci, [], {"colour_code": cc, "preemption_and_power_control_indicator": pi, "link_control_start_stop": lcss})
            eb = I.call(repo.find_method(emb_ci, "as_bits"), [emb], {})
            full = ABits(v[:108] + list(eb.items[:8]) + e32 + list(eb.items[8:]) + v[108:], "ba")
            b = I.construct(bci, [], {"full_bits": full, "burst_type": bt["Vocoder"]})
            return full, I.call(repo.find_method(b.cls, "as_bits"), [b], {}), b

        bad = []
        unconfirmed = []
        n_ok = 0
        labels = []
        for st, (k, v) in explore(run_e, max_paths=3000):
            I.st = st
            assumed_count = any(isinstance(c, tuple) and c and c[0] == "popcnt" for c in st.conds)
            if k == "abort":
                if isinstance(v, PartialRaise):
                    (unconfirmed if assumed_count else bad).append(f"{v} on path {[l for l, d in zip(st.labels, st.decisions) if d][-2:]}")
                    continue
                if assumed_count:
                    unconfirmed.append(f"not analysable beyond the assumed bit-count threshold: {v}")
                    continue
                raise AnalysisError(f"{key}: {v}")
            if k == "raise":
                (unconfirmed if assumed_count else bad).append(f"raises {v} on path {[l for l, d in zip(st.labels, st.decisions) if d][-2:]}")
                continue
            n_ok += 1
            full, out, b = v
            if not (isinstance(out, ABits) and I.simp_bits(out.items) == I.simp_bits(full.items)):
                taken = [l for l, d in zip(st.labels, st.decisions) if d]
                wit = None
                if isinstance(out, ABits) and len(out.items) == len(full.items):
                    from sa.bitabs_models import popcount_witness
                    wit = popcount_witness(I, st, [x ^ y for x, y in zip(I.simp_bits(out.items), I.simp_bits(full.items))])
                if wit is not None and not wit[0]:
                    unconfirmed.append(f"path {taken[-2:]}: {wit[1]}")   # possibly an infeasible path: never reported as a violation
                    continue
                bad.append(f"bits differ on path {taken[-2:]} (sync resolved to {b.attrs.get('sync_or_embedded_signalling')})" + (f"; {wit[1]}" if wit else ""))
        if unconfirmed and not bad:
            raise AnalysisError(f"{key}: differences on {len(unconfirmed)} path(s) that assumed a bit-count threshold could not be confirmed by a witness, e.g. {unconfirmed[0]}")
        ctx.ob("burst/voice-emb", key, not bad and n_ok > 0, f"{n_ok} feasible path(s); " + ("; ".join(bad[:3]) or "identical forms on all of them"), as_bits.loc)

    # ---- subclasses overriding one direction only
    for sub in repo.subclasses(bci):
        own = set(sub.methods)
        ok = ("interleave" in own) == ("deinterleave" in own) or "as_bits" in own
        ctx.ob("burst/override-pairs", sub.qualname, ok, f"overrides {sorted(own & {'interleave', 'deinterleave', 'as_bits'})}", sub.loc)
    # the rate-3/4 payload goes through the Trellis inverse pair that C10 establishes; its table part is re-evaluated here
    import importlib
    from sa.report import Ctx as _Ctx
    ctx.rule("assume/trellis-tables", "the trellis tables the rate 3/4 bursts depend on pass C10's table rules (unique inversion, bijections, pinned ETSI values)")
    sub = _Ctx("C10", ctx.tier, ctx.seed, repo, quiet=True)
    importlib.import_module("rules.c10").run(sub, tables_only=True)
    for o in sub.obligations:
        ctx.ob("assume/trellis-tables", o["rule"] + " | " + o["key"].split("|", 1)[1].strip(), o["ok"], o["detail"], o["loc"])
    ctx.require("assume/trellis-tables", 5)
    ctx.require("burst/payload-roundtrip", 32)
    ctx.require("burst/voice-sync", 8)
    ctx.require("burst/voice-emb", 1)


def I_const(I, v):
    bits = I.simp_bits(v.bits)
    if v.ext is None and all(isinstance(b, F) and b.is_const for b in bits):
        return sum(b.c << i for i, b in enumerate(bits))
    return None


def I_to_bits(v, w):
    if isinstance(v, AInt):
        return v.msb_first(w)
    if isinstance(v, int):
        return [F(0, (v >> (w - 1 - i)) & 1) for i in range(w)]
    raise AnalysisError(f"colour code is {v!r}")
