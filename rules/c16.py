"""C16 — Motorola TMS / ARS: length prefix and field symmetry, shape-seeded (see sa/shapes.py)."""
from __future__ import annotations

import ast

from sa.bitabs import ABits, ACond, AEnum, AInt, AObj, AOpq, Abort, F, Interp, PartialRaise, PathRaise, explore
from sa.model import AnalysisError, EnumMember
from sa.shapes import Symboliser, bits_of, compare_fields, explore_or_blame, hex_seeds, shape_of, wire_probe

MMOD = "motorola"
KEEP = {"pdu_type", "has_more_headers", "is_control_message", "is_reserved"}
WIDTHS = {"sequence_number": 7, "refresh_time": 7}
MIN_FOLLOWED = {"TextMessagingService": 4, "AutomaticRegistrationService": 7}   # captured packets followed through reader and writer today
NON_ASCII = ["žluť", "p€ss", "ID-ø1"]


def run(ctx):
    repo = ctx.repo
    tms = repo.cls(f"{MMOD}.text_messaging_service", "TextMessagingService")
    ars = repo.cls(f"{MMOD}.automatic_registration_service", "AutomaticRegistrationService")
    ctx.explanation = (
        "Shapes are taken from the captured TMS/ARS packets in the repository's tests (hex constants read as data, "
        "decoded by constant evaluation).  For each shape every scalar / byte-string field is replaced by symbols — the "
        "7-bit TMS sequence number as 7 bit atoms, so the one- or two-octet optional header is analysed for all 128 "
        "values by finite-function case analysis — and the real as_bytes -> from_bytes -> as_bytes chain is "
        "interpreted abstractly: every transmitted field bit is decoded back, re-encoding is identical, the leading "
        "length equals the number of octets that follow, len(pdu) agrees.  ARS identifiers are strings: the captured "
        "values plus non-ASCII variants (multi-byte UTF-8) are analysed concretely for the len-value framing."
    )
    ctx.assumptions = ["shapes = captured packets of okdmr/tests/dmrlib/motorola (+ non-ASCII identifier variants); other shapes are not decided",
                       "text content is opaque bytes (UCS-2 handling not decided)"]
    ctx.rule("shape/roundtrip-fields", "decode(encode(pdu)) restores every transmitted field bit, for all field values of the shape (all 128 sequence numbers)")
    ctx.rule("shape/reencode", "encode(decode(encode(pdu))) == encode(pdu)")
    ctx.rule("shape/no-crash", "writer and reader do not raise on the shape")
    ctx.rule("frame/length-prefix", "the leading 2-octet length equals the number of octets that follow (CSBK trailer counted as the code does today) and len(pdu) = octets produced")
    ctx.rule("wire/decode-then-encode", "with one octet of the captured packet symbolic at a time: every wire bit that a decoded field depends on is re-encoded at the same position (parse then serialise gives the same bytes)")
    ctx.rule("shape/coverage", "at least the hand-confirmed number of shapes per protocol")
    ctx.rule("enum/member-roundtrip", "every defined member of an enumeration field that the writer of a captured shape transmits comes back as that member (build -> serialise -> parse), e.g. every ARS failure reason")
    ctx.rule("ars/non-ascii", "device / user identifiers and passwords with multi-byte UTF-8 characters keep their length-value framing over a round trip")
    fam = {}
    for ci, tfile in ((tms, "motorola/test_tms.py"), (ars, "motorola/test_ars.py")):
        fb = repo.find_method(ci, "from_bytes")
        ctx.saw_func(fb)
        ctx.saw_func(repo.find_method(ci, "as_bytes"))
        sd = hex_seeds(repo, tfile, 6)
        I0 = Interp(repo)
        shapes = {}
        followed = set()
        for fname, raw in sd:
            def run_c(st, raw=raw):
                I0.st = st
                o = I0.call(fb, [raw], {})
                if not isinstance(o, AObj):
                    raise PathRaise("ValueError", "no object")
                return o, I0.call(repo.find_method(o.cls, "as_bytes"), [o], {})
            try:
                res = explore(run_c, max_paths=8)
            except AnalysisError:
                continue
            if any(k_ == "abort" for _, (k_, _v) in res):
                # the captured packet cannot be followed through the reader / writer any more: the shape would silently drop out
                raise AnalysisError(f"captured packet {raw[:8].hex()}… ({fname}): {next(v_ for _, (k_, v_) in res if k_ == 'abort')}")
            if len(res) == 1 and res[0][1][0] == "raise" and res[0][1][1].exc in ("TypeError", "AttributeError", "NameError", "UnboundLocalError"):
                # the tests decode this very packet: a type confusion here is the analysis not following the code, not the code
                raise AnalysisError(f"captured packet {raw[:8].hex()}… ({fname}): the reader is not followed ({res[0][1][1].exc} at {res[0][1][1].msg})")
            if len(res) != 1 or res[0][1][0] != "ok":
                continue
            o, back = res[0][1][1]
            if bits_of(I0, back) != bits_of(I0, raw):
                continue
            shapes.setdefault(shape_of(o), raw)
            followed.add(raw)
        ctx.extra[f"captures_followed_{ci.name}"] = len(followed)
        if len(followed) < MIN_FOLLOWED[ci.name]:
            raise AnalysisError(f"only {len(followed)} captured {ci.name} packets are followed through reader and writer ({MIN_FOLLOWED[ci.name]} on the reference tree) — shapes would be missing")
        for shp, raw in sorted(shapes.items(), key=lambda kv: repr(kv[0])):
            analyse(ctx, repo, ci, fb, raw, fam)
            with ctx.guard(f"enum members of shape {raw[:6].hex()}"):
                enum_members(ctx, repo, ci, fb, raw)
            # the same shape with its variable-length byte fields at the boundaries of their one-octet / two-octet length
            # fields (the property quantifies over addresses of 0..255 octets and texts of 0..200 UCS-2 characters)
            if ci is tms:
                for attr, lengths in (("address", (127, 128, 255)), ("message", (254, 256, 400))):
                    for L in lengths:
                        analyse(ctx, repo, ci, fb, raw, {}, variant=(attr, L))
    for name, need in (("TextMessagingService", 3), ("AutomaticRegistrationService", 4)):
        ctx.coverage("shape/coverage", name, fam.get(name, 0), need, f"{fam.get(name, 0)} shapes analysed, {need} confirmed by hand", "")
    non_ascii(ctx, repo, ars)
    ctx.require("shape/roundtrip-fields", 7)
    ctx.require("frame/length-prefix", 7)


def enum_paths(o, path="", depth=0):
    out = []
    if isinstance(o, AObj) and depth < 4:
        for k, v in o.attrs.items():
            if k.startswith("_") or k in KEEP:
                continue
            sub = f"{path}.{k}" if path else k
            if isinstance(v, EnumMember):
                out.append(sub)
            elif isinstance(v, AObj):
                out += enum_paths(v, sub, depth + 1)
    return out


def set_path(o, path, val):
    parts = path.split(".")
    for p_ in parts[:-1]:
        o = o.attrs[p_]
    o.attrs[parts[-1]] = val


def enum_members(ctx, repo, ci, fb, raw):
    """constant evaluation: the captured object with one enumeration field set to each of its defined members in turn; where the
    writer transmits the field (the octets differ from those of another member), the reader must hand that member back"""
    from sa.shapes import lookup
    I = Interp(repo)
    wb = repo.find_method(ci, "as_bytes")

    def conc(v):
        b = bits_of(I, v)
        return tuple(x.c for x in b) if b is not None and all(isinstance(x, F) and x.is_const for x in b) else None

    r0 = explore(lambda st: (setattr(I, "st", st), I.call(fb, [raw], {}))[1], max_paths=4)
    if len(r0) != 1 or r0[0][1][0] != "ok" or not isinstance(r0[0][1][1], AObj):
        return
    o0 = r0[0][1][1]
    for path in enum_paths(o0):
        cur = lookup(o0, path)
        eci = next((c_ for c_ in repo.all_classes() if c_.name == cur.cls and repo.is_enum(c_)), None)
        if eci is None:
            continue
        # the captured shape, and the same shape with one boolean flag inverted at a time (the ARS failure reason is only
        # transmitted in a negative acknowledgement; no capture is one)
        for toggle in [None] + bool_paths(o0):
            def build(st, val, toggle=toggle):
                I.st = st
                ob = I.call(fb, [raw], {})
                if toggle is not None:
                    set_path(ob, toggle, not lookup(ob, toggle))
                set_path(ob, path, val)
                return ob
            wires = {}
            back = {}
            for m in repo.enum_members(eci).values():
                def run_m(st, m=m):
                    w = I.call(wb, [build(st, m)], {})
                    ob2 = I.call(fb, [w], {})
                    return w, ob2
                try:
                    rv = explore(run_m, max_paths=4)
                except AnalysisError:
                    continue
                if len(rv) != 1 or rv[0][1][0] != "ok":
                    continue     # the writer / reader refuses this member in this shape (a documented error exit) or it selects another shape
                w, ob2 = rv[0][1][1]
                cw = conc(w)
                if cw is None or not isinstance(ob2, AObj):
                    continue
                wires[m.name] = cw
                back[m.name] = (m, lookup(ob2, path))
            ctx.info(f"enum members {ci.name} {raw[:6].hex()} {path}{' with ' + toggle + ' inverted' if toggle else ''}: {len(wires)} member(s) written and read, {len(set(wires.values()))} distinct encodings")
            if len(set(wires.values())) < 2:
                continue         # the writer does not transmit this field in this shape
            for name, (m, got) in sorted(back.items()):
                if sum(1 for w_ in wires.values() if w_ == wires[name]) > 1:
                    continue     # several members share these octets in this shape: the wire cannot tell them apart
                ok = got == m
                if not ok and (got is None or isinstance(got, EnumMember)):
                    # the reader may hand back another representative of the same wire value (TMS encoding UNDEFINED is read as None):
                    # fine exactly when that representative serialises to the same octets
                    try:
                        rg = explore(lambda st, got=got: I.call(wb, [build(st, got)], {}), max_paths=4)
                        ok = len(rg) == 1 and rg[0][1][0] == "ok" and conc(rg[0][1][1]) == wires[name]
                    except AnalysisError:
                        ok = False
                ctx.ob("enum/member-roundtrip", f"{ci.name} | capture {raw[:6].hex()}…{' with ' + toggle + ' inverted' if toggle else ''} | {path}={name}", ok,
                       f"built with {path} = {eci.name}.{name}, serialised and parsed: comes back as {getattr(got, 'name', got)!r}"
                       + ("" if ok else ", which serialises to other octets"), fb.loc)
            if toggle is None:
                break            # transmitted in the captured shape itself: no need for the flag variants


def bool_paths(o, path="", depth=0):
    out = []
    if isinstance(o, AObj) and depth < 4:
        for k, v in o.attrs.items():
            if k.startswith("_"):
                continue
            sub = f"{path}.{k}" if path else k
            if isinstance(v, bool):
                out.append(sub)
            elif isinstance(v, AObj):
                out += bool_paths(v, sub, depth + 1)
    return out


def ctor_flags(repo, ci):
    """names of the boolean constructor parameters (annotated bool, with a default) that are stored under their own name"""
    init = repo.find_method(ci, "__init__")
    if init is None:
        return []
    a = init.node.args
    params = a.posonlyargs + a.args
    defaults = [None] * (len(params) - len(a.defaults)) + list(a.defaults)
    out = []
    for p_, d_ in zip(params, defaults):
        if d_ is not None and p_.annotation is not None and ast.unparse(p_.annotation) == "bool":
            out.append(p_.arg)
    return out


def analyse(ctx, repo, ci, fb, raw, fam, concrete=(), variant=None):
    I = Interp(repo)
    I.exact_enum_folding = True   # FailureReason folds undefined values: decided exactly over the 7 value bits
    if variant is not None:
        # only shapes that carry a non-empty value of that field have the variant
        probe = explore(lambda st: (setattr(I, "st", st), I.call(fb, [raw], {}))[1], max_paths=4)
        o_ = probe[0][1][1] if len(probe) == 1 and probe[0][1][0] == "ok" else None
        cur = o_.attrs.get(variant[0]) if isinstance(o_, AObj) else None
        if not isinstance(cur, (bytes, bytearray, ABits)) or not len(cur if not isinstance(cur, ABits) else cur.items):
            return

    def run_s(st):
        I.st = st
        o = I.call(fb, [raw], {})
        if variant is not None:
            o.attrs[variant[0]] = bytes(variant[1])
        sy = Symboliser(I)
        # TMS derives the first header's has_more_headers flag while serialising (whatever the object held before must not
        # matter): there the flag is an ordinary symbolic field; ARS serialises according to the flag, so it selects the shape
        sy.keep = KEEP - {"has_more_headers"} if ci.name == "TextMessagingService" else KEEP
        sy.widths = WIDTHS
        sy.concrete = set(concrete)
        sy.enums = True   # small enumerations that the owner class only serialises are varied over their defined members
        sy.sym("", o)
        wire = I.call(repo.find_method(ci, "as_bytes"), [o], {})
        if isinstance(wire, (bytes, bytearray)):
            wire = ABits([F(0, (x >> (7 - k)) & 1) for x in wire for k in range(8)], "bytes")
        ln = I.call(repo.find_method(ci, "__len__"), [o], {}) if repo.find_method(ci, "__len__") is not None else None
        o2 = I.call(fb, [ABits(list(wire.items), "bytes")], {})
        wire2 = I.call(repo.find_method(ci, "as_bytes"), [o2], {}) if isinstance(o2, AObj) else None
        if isinstance(wire2, (bytes, bytearray)):
            wire2 = ABits([F(0, (x >> (7 - k)) & 1) for x in wire2 for k in range(8)], "bytes")
        return o, sy, wire, ln, o2, wire2

    res, blame = explore_or_blame(run_s, 600)
    if res is None:
        if blame in concrete or len(concrete) > 4:
            raise AnalysisError(f"shape {ci.name} {raw[:12].hex()}: path explosion on field {blame}")
        ctx.info(f"shape {ci.name} {raw[:8].hex()}: field {blame} kept concrete (the reader branches on its content)")
        return analyse(ctx, repo, ci, fb, raw, fam, tuple(concrete) + (blame,), variant=variant)
    fam[ci.name] = fam.get(ci.name, 0) + 1
    hdr = None
    bad_f, bad_r, bad_l, crashes = [], [], [], []
    n_paths = 0
    n_fields = 0
    for st, (k, v) in res:
        I.st = st
        taken = [l for l, d in zip(st.labels, st.decisions)]
        if k == "abort":
            if isinstance(v, PartialRaise):
                crashes.append(str(v))
                continue
            raise AnalysisError(f"shape {ci.name} {raw[:12].hex()}: {v}")
        if k == "raise":
            from sa.pdu import CRASHES
            if v.exc in CRASHES:
                crashes.append(f"{v.exc} at {v.msg}")
            else:
                ctx.info(f"{ci.name} {raw[:6].hex()}: value rejected with {v.exc} at {v.msg} (documented error exit)")
            continue
        n_paths += 1
        o, sy, wire, ln, o2, wire2 = v
        hdr = o.attrs.get("header")
        if not isinstance(o2, AObj):
            crashes.append(f"reader returns {o2!r}")
            continue
        nf, bad = compare_fields(I, sy, o2, wire)
        n_fields = max(n_fields, nf)
        bad_f += bad
        # a boolean the message is BUILT from (a constructor parameter) must survive the round trip for both of its values: a
        # flag that the writer does not transmit in this shape parses back as one constant whatever it was
        wire_atoms = set()
        for b_ in I.simp_bits(wire.items):
            if isinstance(b_, F):
                wire_atoms.update(b_.atoms())
        for pname in ctor_flags(repo, ci):
            s_ = sy.fields.get(pname)
            if not (isinstance(s_, AInt) and s_.isbool and len(s_.bits) == 1):
                continue
            sb_ = I.simp(s_.bits[0])
            if not isinstance(sb_, F) or sb_.is_const or set(sb_.atoms()) & wire_atoms:
                continue
            got_ = o2.attrs.get(pname)
            if isinstance(got_, AInt) and got_.ext is None:
                gb_ = I.simp_bits(got_.bits)
                if all(isinstance(x, F) and x.is_const for x in gb_):
                    got_ = any(x.c for x in gb_)
            if got_ is True or got_ is False:
                bad_f.append(f"{pname}: the constructor flag is not transmitted in this shape — both of its values parse back as {got_}")
        if not (isinstance(wire2, ABits) and I.simp_bits(wire2.items) == I.simp_bits(wire.items)):
            d = sorted({i // 8 for i, (a, b) in enumerate(zip(I.simp_bits(wire2.items), I.simp_bits(wire.items))) if a != b}) if isinstance(wire2, ABits) else []
            bad_r.append(f"octets {d[:8]} differ (lengths {len(wire2.items) // 8 if isinstance(wire2, ABits) else '?'}/{len(wire.items) // 8})")
        nbytes = len(wire.items) // 8
        pref = I.simp_bits(wire.items[:16])
        pv = int("".join(str(b.c) for b in pref), 2) if all(isinstance(b, F) and b.is_const for b in pref) else None
        trailer = 2 if (isinstance(o.attrs.get("is_csbk_ars"), bool) and o.attrs.get("is_csbk_ars")) else 0
        if pv is None or pv not in (nbytes - 2, nbytes - 2 - trailer) or (trailer == 0 and pv != nbytes - 2):
            bad_l.append(f"length prefix {pv}, {nbytes - 2} octets follow")
        if isinstance(ln, int) and ln != nbytes:
            bad_l.append(f"len(pdu) = {ln}, {nbytes} octets produced")
    pt = hdr.attrs.get("pdu_type") if isinstance(hdr, AObj) else None
    key = f"{ci.name}[{getattr(pt, 'name', pt)}] | capture {raw[:6].hex()}… {len(raw)} octets" + (f" | {variant[0]} of {variant[1]} octets" if variant else "")
    ctx.ob("shape/no-crash", key, not crashes, "; ".join(sorted(set(crashes))[:2]) or f"{n_paths} path(s)", fb.loc)
    ctx.ob("shape/roundtrip-fields", key, not bad_f and n_paths > 0, f"{n_paths} path(s), {n_fields} symbolic fields; " + ("; ".join(sorted(set(bad_f))[:3]) or "all restored"), fb.loc)
    ctx.ob("shape/reencode", key, not bad_r and n_paths > 0, "; ".join(sorted(set(bad_r))[:2]) or "identical", fb.loc)
    def mk():
        J = Interp(repo)
        J.exact_enum_folding = True
        return J
    probed, wbad = wire_probe(mk, fb, "as_bytes", raw)
    ctx.ob("wire/decode-then-encode", key, not wbad,
           f"{probed} of {len(raw)} octets probed symbolically; " + (f"received bits stored in fields but re-encoded differently at (octet, bit): {[(p, k) for p, k, _ in wbad][:6]}" if wbad else "every field-carrying wire bit is re-encoded in place"), fb.loc)
    ctx.ob("frame/length-prefix", key, not bad_l and n_paths > 0, "; ".join(sorted(set(bad_l))[:2]) or "prefix = octets that follow", fb.loc)
    if len(ctx.samples) < 4:
        ctx.sample({"shape": key, "paths": n_paths, "symbolic_fields": n_fields})


def non_ascii(ctx, repo, ars):
    """constant evaluation of registration requests whose identifiers contain multi-byte UTF-8 characters"""
    fb = repo.find_method(ars, "from_bytes")
    wb = repo.find_method(ars, "as_bytes")
    sd = hex_seeds(repo, "motorola/test_ars.py", 6)
    I = Interp(repo)
    done = 0
    for fname, raw in sd:
        def run_c(st, raw=raw):
            I.st = st
            return I.call(fb, [raw], {})
        try:
            res = explore(run_c, max_paths=4)
        except AnalysisError:
            continue
        if len(res) != 1 or res[0][1][0] != "ok" or not isinstance(res[0][1][1], AObj):
            continue
        o = res[0][1][1]
        if not isinstance(o.attrs.get("device_identifier"), str):
            continue
        for fld in ("device_identifier", "user_identifier", "password"):
            for text in NON_ASCII:
                def run_v(st, raw=raw, fld=fld, text=text):
                    I.st = st
                    ob = I.call(fb, [raw], {})
                    ob.attrs[fld] = text
                    w = I.call(wb, [ob], {})
                    ob2 = I.call(fb, [w], {})
                    w2 = I.call(wb, [ob2], {})
                    return ob2, w, w2
                rv = explore(run_v, max_paths=4)
                key = f"{ars.qualname} | {fld}={text!r}"
                if len(rv) != 1 or rv[0][1][0] != "ok":
                    ctx.ob("ars/non-ascii", key, False, f"{rv[0][1][0]}: {rv[0][1][1]}", wb.loc)
                    continue
                ob2, w, w2 = rv[0][1][1]
                bw, bw2 = bits_of(I, w), bits_of(I, w2)
                wraw = bytes(int("".join(str(b.c) for b in bw[i:i + 8]), 2) for i in range(0, len(bw), 8)) if bw and all(isinstance(b, F) and b.is_const for b in bw) else None
                ok = ob2.attrs.get(fld) == text and bw == bw2 and wraw is not None and int.from_bytes(wraw[:2], "big") in (len(wraw) - 2, len(wraw) - 4)
                ctx.ob("ars/non-ascii", key, ok, f"decoded {ob2.attrs.get(fld)!r}; re-encoded {'identical' if bw == bw2 else 'differently'}; length prefix {int.from_bytes(wraw[:2], 'big') if wraw else '?'} of {len(wraw) - 2 if wraw else '?'}", wb.loc)
        done += 1
        break
    if not done:
        raise AnalysisError("no captured ARS registration request found to derive the non-ASCII variants from")
