"""C15 — LRRP / MBXML documents: parse <-> serialise symmetry, token lookup API, announced lengths.

Decided statically (abstract interpretation of the real reader / writer, no repository code is executed):
  * the token tables against the reader's and the writer's type dispatch (sibling agreement, exhaustiveness);
  * for every document SHAPE (captured documents of the tests, read as data; derived shapes with inline constant
    tables; documents assembled through the lookup API for every implemented token, each attribute choice, long
    bodies) the chain writer -> reader -> writer with all fixed-width / opaque CONTENT octets symbolic, i.e. for all
    values of request ids, coordinates, info-time, uint8 values and constant tables at once;
  * several documents per buffer: the concatenation parses into the same documents (announced lengths are
    consumed exactly);
  * the lookup API does not change the class-level token tables and keeps returning the table's entry (no state
    leaking between calls, in one analysed process history);
Variable-length integers and floats are evaluated at boundary CONSTANTS only (that is C14's domain, which no
static argument in reach decides for all 2^32 values)."""
from __future__ import annotations

import ast

from sa.bitabs import ABits, AEnum, AInt, AObj, AOpq, Abort, F, Interp, PartialRaise, PathRaise, explore
from sa.model import AnalysisError, ClassRef, EnumMember, Rec
from sa.shapes import bits_of, hex_seeds

MOD = "motorola.mbxml"
LMOD = "motorola.lrrp"
TABLES = ("COMMON_ELEMENT_TOKENS", "QUERY_REQUEST_MESSAGES_ELEMENT_TOKENS", "ANSWER_AND_REPORT_MESSAGES_ELEMENT_TOKENS")
UINTVARS = [0, 1, 60, 127, 128, 129, 300, 16383, 16384, 2097152]
UFLOATS = [0.0, 0.5, 1.25, 127.5, 128.5, 300.0078125]
SFLOATS = [0.0, 0.5, -0.5, 2.5, -3.25, 63.5, 64.5, -100.5, 8192.5]


# ----------------------------------------------------------------------------------------------- helpers
def to_abits(v):
    if isinstance(v, (bytes, bytearray)):
        return ABits([F(0, (x >> (7 - k)) & 1) for x in v for k in range(8)], "bytes")
    return v


def tok_type(part):
    t = part.attrs.get("token_type")
    return t.name if isinstance(t, EnumMember) else repr(t)


def same_value(I, a, b):
    if isinstance(a, (tuple, list)) and isinstance(b, (tuple, list)):
        return len(a) == len(b) and all(same_value(I, x, y) for x, y in zip(a, b))
    if isinstance(a, (ABits, bytes, bytearray)) or isinstance(b, (ABits, bytes, bytearray)):
        if not isinstance(a, (ABits, bytes, bytearray)) or not isinstance(b, (ABits, bytes, bytearray)):
            return False
        return bits_of(I, a) == bits_of(I, b)
    if isinstance(a, AInt) or isinstance(b, AInt):
        ba, bb = bits_of(I, a, 8), bits_of(I, b, 8)
        return ba is not None and ba == bb
    if isinstance(a, AObj) and isinstance(b, AObj):
        return same_token(I, a, b) is None
    if isinstance(a, float) or isinstance(b, float):
        return isinstance(a, (int, float)) and isinstance(b, (int, float)) and float(a) == float(b)
    return type(a) is type(b) and a == b


def same_token(I, a, b):
    """None if the two token objects carry the same id / type / value / transmitted attributes, else what differs"""
    for f in ("token_id", "token_type"):
        if a.attrs.get(f) != b.attrs.get(f):
            return f"{f}: {a.attrs.get(f)!r} vs {b.attrs.get(f)!r}"
    if not same_value(I, a.attrs.get("value"), b.attrs.get("value")):
        return f"value of token {a.attrs.get('token_id'):#x}"
    aa = [x for x in a.attrs.get("attributes", []) if isinstance(x, AObj)]
    bb = [x for x in b.attrs.get("attributes", []) if isinstance(x, AObj)]
    if len(aa) != len(bb):
        return f"token {a.attrs.get('token_id'):#x}: {len(aa)} attribute value(s) written, {len(bb)} read back"
    for x, y in zip(aa, bb):
        # the attribute id is implied by the element token and not transmitted: attributes are compared by name and value
        if x.attrs.get("name") != y.attrs.get("name") or not same_value(I, x.attrs.get("value"), y.attrs.get("value")):
            return f"token {a.attrs.get('token_id'):#x}: attribute {x.attrs.get('name')!r}"
    return None


class Sym:
    """replaces the content octets of token values by symbols (lengths stay as captured)"""

    def __init__(self, I):
        self.I = I
        self.n = 0
        self.octets = 0

    def bytes_(self, v):
        n = len(v.items) // 8 if isinstance(v, ABits) else len(v)
        if n == 0:
            return v
        self.n += 1
        self.octets += n
        return self.I.wire(f"v{self.n}", 8 * n, "bytes")

    def value(self, part):
        v = part.attrs.get("value")
        tt = tok_type(part)
        if isinstance(v, (ABits, bytes, bytearray)):
            part.attrs["value"] = self.bytes_(v)
        elif isinstance(v, tuple):
            part.attrs["value"] = tuple(self.bytes_(x) if isinstance(x, (ABits, bytes, bytearray)) else x for x in v)
        elif tt == "UINT8" and isinstance(v, int) and not isinstance(v, bool):
            self.n += 1
            self.octets += 1
            w = self.I.wire(f"v{self.n}", 8, "bytes")
            part.attrs["value"] = AInt(list(reversed(w.items)))

    def doc(self, d):
        for p in d.attrs["parts"]:
            self.value(p)
        ct = d.attrs.get("constants_table")
        if d.attrs.get("is_constant_table_default") is False and isinstance(ct, (ABits, bytes, bytearray)):
            d.attrs["constants_table"] = self.bytes_(ct)


def classify(ctx, res, what):
    """split explored paths into ok results / crash descriptions; anything the interpreter cannot follow fails closed"""
    oks, crashes = [], []
    for st, (k, v) in res:
        if k == "ok":
            oks.append((st, v))
        elif k == "raise":
            crashes.append(f"{v.exc}: {v.msg}")
        elif isinstance(v, PartialRaise):
            crashes.append(str(v))
        else:
            raise AnalysisError(f"{what}: {v}")
    return oks, crashes


# ----------------------------------------------------------------------------------------------- table rules
def dispatch_types(repo, fi, _seen=None):
    """GlobalToken members a function dispatches on: every `GlobalToken.<MEMBER>` it mentions (comparisons, membership tuples,
    dictionary keys of a handler table ...), followed into the helpers of the same class it calls and the class / module level
    tables it reads.  How the dispatch is spelled is the implementation's business."""
    _seen = _seen if _seen is not None else set()
    if fi.qualname in _seen:
        return set()
    _seen.add(fi.qualname)
    out = set()
    names = set()
    for n in ast.walk(fi.node):
        if isinstance(n, ast.Attribute) and isinstance(n.value, ast.Name) and n.value.id == "GlobalToken":
            out.add(n.attr)
        if isinstance(n, ast.Call) and isinstance(n.func, ast.Attribute) and isinstance(n.func.value, ast.Name) and n.func.value.id in ("cls", "self", fi.cls.name if fi.cls else ""):
            m = repo.find_method(fi.cls, n.func.attr) if fi.cls else None
            if m is not None:
                out |= dispatch_types(repo, m, _seen)
        if isinstance(n, ast.Name):
            names.add(n.id)
        if isinstance(n, ast.Attribute):
            names.add(n.attr)
    pool = dict(fi.module.assigns)
    if fi.cls is not None:
        pool.update(fi.cls.assigns)
    for nm in names:
        e = pool.get(nm)
        if e is not None:
            for x in ast.walk(e):
                if isinstance(x, ast.Attribute) and isinstance(x.value, ast.Name) and x.value.id == "GlobalToken":
                    out.add(x.attr)
    return out


def table_rules(ctx, repo, lrrp, mb):
    rd, wr = repo.find_method(mb, "read_document"), repo.find_method(mb, "write_part")
    ctx.saw_func(rd)
    ctx.saw_func(wr)
    r_types, w_types = dispatch_types(repo, rd), dispatch_types(repo, wr)
    if len(r_types) < 5 or len(w_types) < 5:
        raise AnalysisError(f"type dispatch of read_document / write_part not recognised ({sorted(r_types)} / {sorted(w_types)})")
    attrs = repo.class_const(lrrp, "ATTRIBUTE_TOKENS")
    implemented = {}
    one_sided = {}
    for tn in TABLES:
        tbl = repo.class_const(lrrp, tn)
        if not isinstance(tbl, dict) or not tbl:
            raise AnalysisError(f"LRRP.{tn} is not a constant table")
        ctx.saw(table=f"LRRP.{tn}")
        for tid, rec in sorted(tbl.items()):
            ty = rec.fields["_type"].name
            key = f"LRRP.{tn}[{tid:#04x}] {rec.fields['name']} ({ty})"
            ctx.ob("table/single-octet-id", key, isinstance(tid, int) and 0 < tid < 128,
                   "element ids are written as one octet (bytes([id])) and read as a uintvar: they agree only below 128", lrrp.loc)
            if (ty in r_types) == (ty in w_types):
                ctx.ob("table/reader-writer-agree", key, True, f"both {'handle' if ty in r_types else 'reject'} {ty}", rd.loc)
            else:
                # mentioned by one side only: decided by interpretation (api_rules: the writer must reject it, or the round trip must work)
                one_sided[(tn, tid)] = rec
            missing = [a for a in (rec.fields.get("attributes") or []) if a not in attrs]
            ctx.ob("table/attribute-defined", key, not missing, f"attribute ids {missing} are not in ATTRIBUTE_TOKENS" if missing else "", lrrp.loc)
            if ty in r_types and ty in w_types:
                implemented[(tn, tid)] = rec
    ctx.extra["implemented_tokens"] = len(implemented)
    ctx.extra["_one_sided"] = one_sided
    ctx.extra["not_implemented"] = sorted({r.fields["_type"].name for tn in TABLES for r in repo.class_const(lrrp, tn).values()} - (r_types & w_types))
    return implemented, attrs


# ----------------------------------------------------------------------------------------------- loop progress
def progress_rules(ctx, repo, mb):
    """every reader loop advances the index on each iteration through a call of read_uintvar (idx += 1 at least) before
    anything else can `continue`; read_uintvar / read_sintvar advance unconditionally and index the buffer (IndexError at
    its end): the loops terminate."""
    for name in ("read_uintvar", "read_sintvar"):
        fi = repo.find_method(mb, name)
        ctx.saw_func(fi)
        loops = [n for n in ast.walk(fi.node) if isinstance(n, ast.While)]
        ok = bool(loops)
        for lp in loops:
            top = [s for s in lp.body if isinstance(s, ast.AugAssign) and isinstance(s.target, ast.Name) and s.target.id == "idx"
                   and isinstance(s.op, ast.Add) and isinstance(s.value, ast.Constant) and isinstance(s.value.value, int) and s.value.value > 0]
            sub = [n for s in lp.body for n in ast.walk(s) if isinstance(n, ast.Subscript) and isinstance(n.value, ast.Name) and n.value.id == "data"
                   and isinstance(n.slice, ast.Name) and n.slice.id == "idx"]
            first_break = next((i for i, s in enumerate(lp.body) if any(isinstance(n, (ast.Break, ast.Continue, ast.Return)) for n in ast.walk(s))), len(lp.body))
            inc_at = next((i for i, s in enumerate(lp.body) if s in top), None)
            ok &= bool(top) and bool(sub) and inc_at is not None and inc_at < first_break
        ctx.ob("progress/septet-loop", f"MBXML.{name}", ok, "each iteration reads data[idx] (IndexError at the end of the buffer) and then advances idx by a positive constant before it can leave", fi.loc)
    for name in ("read_document", "from_bytes"):
        fi = repo.find_method(mb, name)
        loops = [n for n in ast.walk(fi.node) if isinstance(n, ast.While)]
        ok = bool(loops)
        detail = ""
        for lp in loops:
            adv = None
            for i, s in enumerate(lp.body):
                if any(isinstance(n, (ast.Break, ast.Continue)) for n in ast.walk(s)):
                    break
                if isinstance(s, ast.Assign) and isinstance(s.targets[0], ast.Tuple) and any(isinstance(e, ast.Name) and e.id == "idx" for e in s.targets[0].elts) \
                        and isinstance(s.value, ast.Call) and isinstance(s.value.func, ast.Attribute) and s.value.func.attr == "read_uintvar":
                    adv = i
                    break
            if adv is None:
                ok = False
                detail = f"loop at line {lp.lineno} has no unconditional `(.., idx) = cls.read_uintvar(data, idx)` before its first break/continue"
            # idx never moves backwards: every other store to idx is a tuple-assign from a read_* helper or `idx += <name>` of a uintvar
            for n in ast.walk(lp):
                if isinstance(n, ast.AugAssign) and isinstance(n.target, ast.Name) and n.target.id == "idx" and not isinstance(n.op, ast.Add):
                    ok, detail = False, f"idx modified with {type(n.op).__name__} at line {n.lineno}"
                if isinstance(n, ast.Assign) and any(isinstance(t, ast.Name) and t.id == "idx" for t in n.targets):
                    ok, detail = False, f"idx re-assigned at line {n.lineno}"
        ctx.ob("progress/token-loop", f"MBXML.{name}", ok, detail or "each iteration starts by reading a uintvar (advances by one octet at least); idx only grows", fi.loc)


# ----------------------------------------------------------------------------------------------- shape analysis
def mk_interp(repo):
    I = Interp(repo)
    I.materialise_records = True
    return I


def roundtrip_docs(ctx, repo, mb, build, key, rule, loc, expect_docs=None, max_paths=64):
    """build(I) -> list of document objects (already symbolised).  Checks: writer does not crash; the concatenated
    buffer parses into the same number of documents with the same ids, token ids, values and attribute values;
    re-serialising each parsed document gives its own bytes again."""
    I = mk_interp(repo)
    fb, ab = repo.find_method(mb, "from_bytes"), repo.find_method(mb, "as_bytes")
    C = ClassRef(mb)

    def run(st):
        I.st = st
        docs, sy = build(I)
        wires = [to_abits(I.call(ab, [C, d], {})) for d in docs]
        for w in wires:
            if not isinstance(w, ABits):
                raise Abort(f"as_bytes returns {w!r}")
        buf = ABits([b for w in wires for b in w.items], "bytes")
        docs2 = I.call(fb, [C, buf], {})
        wires2 = [to_abits(I.call(ab, [C, d], {})) for d in docs2] if isinstance(docs2, list) else None
        return docs, sy, wires, docs2, wires2

    try:
        res = explore(run, max_paths=max_paths)
    except AnalysisError as e:
        if "more than" not in str(e):
            raise
        # on the intact tree the reader never branches on a content octet (0 forks); a reader that takes more than
        # max_paths different routes depending on opaque content is parsing content as structure
        ctx.ob(rule, key, False, f"the reader branches on the symbolic CONTENT octets ({e}): content is being parsed as structure (length / token id)", loc)
        return False
    oks, crashes = classify(ctx, res, key)
    bad = []
    sy_oct = 0
    nbytes = 0
    for st, (docs, sy, wires, docs2, wires2) in oks:
        I.st = st
        sy_oct = max(sy_oct, sy.octets if sy else 0)
        nbytes = sum(len(w.items) // 8 for w in wires)
        if not isinstance(docs2, list) or len(docs2) != len(docs):
            bad.append(f"{len(docs)} document(s) written, {len(docs2) if isinstance(docs2, list) else docs2!r} parsed")
            continue
        for i, (d, d2, w, w2) in enumerate(zip(docs, docs2, wires, wires2)):
            if d.attrs.get("id") != d2.attrs.get("id"):
                bad.append(f"document {i}: id {d.attrs.get('id')!r} read back as {d2.attrs.get('id')!r}")
            p, p2 = d.attrs["parts"], d2.attrs["parts"]
            if len(p) != len(p2):
                bad.append(f"document {i}: {len(p)} tokens written, {len(p2)} parsed")
                continue
            for a, b in zip(p, p2):
                diff = same_token(I, a, b)
                if diff:
                    bad.append(f"document {i}: {diff}")
            ct, ct2 = d.attrs.get("constants_table"), d2.attrs.get("constants_table")
            if d.attrs.get("is_constant_table_default") is False and not same_value(I, ct, ct2):
                bad.append(f"document {i}: inline constant table not read back")
            if bits_of(I, w) != bits_of(I, w2):
                bad.append(f"document {i}: re-serialised bytes differ ({len(w.items) // 8} vs {len(w2.items) // 8} octets)")
    ok = not crashes and not bad and bool(oks)
    detail = "; ".join(sorted(set(crashes + bad))[:3]) or f"{len(oks)} path(s), {nbytes} octets, {sy_oct} content octets symbolic"
    ctx.ob(rule, key, ok, detail, loc, facts={"paths": len(res), "octets": nbytes, "symbolic_octets": sy_oct})
    return ok


_DEFAULT_TABLES = {}


def default_table(repo, mb, doc_id):
    """the default constant table of a document kind as octets (the real build_constants_table, constant-evaluated), or None"""
    if doc_id in _DEFAULT_TABLES:
        return _DEFAULT_TABLES[doc_id]
    out = None
    try:
        eci = repo.cls("motorola.mbxml", "MBXMLDocumentIdentifier")
        mem = next((m for m in repo.enum_members(eci).values() if isinstance(m.value, tuple) and m.value and m.value[0] == doc_id), None)
        bct = repo.find_method(mb, "build_constants_table")
        if mem is not None and bct is not None:
            I = mk_interp(repo)
            res = explore(lambda st: (setattr(I, "st", st), I.call(bct, [ClassRef(mb), mem], {}))[1], max_paths=4)
            if len(res) == 1 and res[0][1][0] == "ok":
                v = res[0][1][1]
                if isinstance(v, (bytes, bytearray)):
                    out = bytes(v)
                elif isinstance(v, ABits) and v.kind == "bytes":
                    bs = I.simp_bits(v.items)
                    if all(isinstance(b, F) and b.is_const for b in bs):
                        out = bytes(int("".join(str(b.c) for b in bs[i:i + 8]), 2) for i in range(0, len(bs), 8))
    except AnalysisError:
        out = None
    _DEFAULT_TABLES[doc_id] = out
    return out


def parse_concrete(I, repo, mb, raw):
    return I.call(repo.find_method(mb, "from_bytes"), [ClassRef(mb), raw], {})


def capture_shapes(ctx, repo, mb):
    """captured documents whose concrete parse -> serialise is the identity, de-duplicated by shape"""
    seeds = hex_seeds(repo, "motorola/test_lrrp.py", 6) + hex_seeds(repo, "motorola/test_mbxml.py", 6)
    I = mk_interp(repo)
    ab = repo.find_method(mb, "as_bytes")
    shapes = {}
    rejected = 0
    for fname, raw in seeds:
        def run(st, raw=raw):
            I.st = st
            docs = parse_concrete(I, repo, mb, raw)
            return docs, [I.call(ab, [ClassRef(mb), d], {}) for d in docs]
        try:
            res = explore(run, max_paths=4)
        except AnalysisError:
            rejected += 1
            continue
        if len(res) != 1 or res[0][1][0] != "ok":
            rejected += 1
            continue
        docs, outs = res[0][1][1]
        if len(docs) != 1 or bits_of(I, outs[0]) != bits_of(I, raw):
            rejected += 1
            continue
        d = docs[0]
        shp = (d.attrs["id"].name,) + tuple((p.attrs["token_id"], len(bits_of(I, p.attrs["value"]) or []) if isinstance(p.attrs["value"], (ABits, bytes)) else None)
                                             for p in d.attrs["parts"])
        shapes.setdefault(shp, raw)
    ctx.extra["captures"] = len(seeds)
    ctx.extra["captures_not_documents"] = rejected
    return shapes


def run(ctx):
    repo = ctx.repo
    mb = repo.cls(MOD, "MBXML")
    lrrp = repo.cls(LMOD, "LRRP")
    docid = repo.cls(MOD, "MBXMLDocumentIdentifier")
    ctx.explanation = __doc__.split("\n", 2)[2].strip()
    ctx.assumptions = [
        "document shapes = captured documents of okdmr/tests/dmrlib/motorola + documents assembled through the lookup API for every implemented token; token SEQUENCES beyond these are not enumerated",
        "variable-length integers / floats are evaluated at the listed boundary constants only (C14's domain)",
    ]
    ctx.rule("table/single-octet-id", "element token ids are below 128 (writer emits one octet, reader reads a uintvar)")
    ctx.rule("table/reader-writer-agree", "every token type in the LRRP tables is handled by both read_document and write_part, or rejected by both")
    ctx.rule("table/attribute-defined", "attribute ids referenced by element tokens exist in ATTRIBUTE_TOKENS")
    ctx.rule("shape/capture-roundtrip", "per captured document shape, all content octets symbolic: serialise -> parse restores every token id / value / attribute, and re-serialising gives the same bytes")
    ctx.rule("shape/inline-constant-table", "the same for the document id WITH constant table: empty, 1-octet and 3-octet (symbolic) inline tables")
    ctx.rule("buffer/several-documents", "2 and 3 documents in one buffer parse into exactly those documents (announced lengths consumed exactly)")
    ctx.rule("table/document-implementation", "every LRRP document id is handed to the LRRP implementation by MBXML.get_implementation (constant evaluation per id)")
    ctx.rule("table/document-kind", "every LRRP document id is parsed with the element-token table of its kind: ...Request documents with the request tokens, ...Report / ...Answer documents with the answer-and-report tokens (constant evaluation of get_configuration per id)")
    ctx.rule("api/token-pairs", "a document holding the same attribute-bearing token twice (with / without attributes, both orders, twice with attributes) parses back into two tokens each with exactly its own attributes")
    ctx.rule("api/token-roundtrip", "a document holding one token obtained through get_token (every implemented token, every attribute choice, symbolic content, boundary numbers) serialises to bytes that parse back into the same token id, value and attributes")
    ctx.rule("api/long-body", "documents whose body needs a two-octet length (128 octets and more) keep their boundaries")
    ctx.rule("api/lookup-stable", "in one process history (parse request, parse report, look every token up twice) get_token keeps returning the table entry for the id and the class-level tables are unchanged")
    implemented, attrs = table_rules(ctx, repo, lrrp, mb)
    # (loop-progress used to be a syntactic rule over the reader loops; it fired on behaviour-preserving restructurings of those
    #  loops and was removed — termination is observed on every analysed shape through the interpreter's step budget only)
    fb = repo.find_method(mb, "from_bytes")
    ctx.saw_func(fb)
    ctx.saw_func(repo.find_method(mb, "as_bytes"))
    shapes = capture_shapes(ctx, repo, mb)
    raws = [raw for _, raw in sorted(shapes.items(), key=lambda kv: repr(kv[0]))]
    for raw in raws:
        def build(I, raw=raw):
            docs = parse_concrete(I, repo, mb, raw)
            sy = Sym(I)
            for d in docs:
                sy.doc(d)
            return docs, sy
        with ctx.guard(f"capture {raw[:8].hex()}"):
            roundtrip_docs(ctx, repo, mb, build, f"capture {raw[:8].hex()}… {len(raw)} octets", "shape/capture-roundtrip", fb.loc)
        # the sibling document id that carries a constant table (id - 1): empty / 3-octet inline table
        if raw[0] % 2 == 1 and raw[0] < 0x16:
            # ... and the inline table that is octet for octet the DEFAULT table of that document kind (what a peer that always
            # sends its table transmits): the real build_constants_table, constant-evaluated
            dflt = default_table(repo, mb, raw[0] - 1)
            for tbl in (b"", b"\x05", b"\x01\x02\x03") + ((dflt,) if dflt and len(dflt) < 128 and len(raw) < 128 else ()):
                body = bytes([len(tbl)]) + tbl + raw[2:]
                if len(body) >= 128 and tbl is not dflt:
                    continue
                if len(body) >= 16384:
                    continue
                blen = bytes([len(body)]) if len(body) < 128 else bytes([0x80 | (len(body) >> 7), len(body) & 0x7F])
                raw2 = bytes([raw[0] - 1]) + blen + body

                def build2(I, raw2=raw2):
                    docs = parse_concrete(I, repo, mb, raw2)
                    sy = Sym(I)
                    for d in docs:
                        sy.doc(d)
                    return docs, sy
                with ctx.guard(f"inline table {raw2[:8].hex()}"):
                    roundtrip_docs(ctx, repo, mb, build2, f"doc id {raw2[0]:#04x} {len(tbl)}-octet table | {raw[:6].hex()}…", "shape/inline-constant-table", fb.loc)
    # several documents per buffer
    groups = [raws[i:i + 2] for i in range(0, len(raws) - 1, 2)] + ([raws[:3]] if len(raws) >= 3 else []) + ([[raws[0], raws[0]]] if raws else [])
    for g in groups:
        def build3(I, g=g):
            docs = []
            sy = Sym(I)
            for raw in g:
                for d in parse_concrete(I, repo, mb, raw):
                    sy.doc(d)
                    docs.append(d)
            return docs, sy
        with ctx.guard("several documents"):
            roundtrip_docs(ctx, repo, mb, build3, " + ".join(r[:5].hex() + "…" for r in g), "buffer/several-documents", fb.loc, max_paths=128)
    api_rules(ctx, repo, mb, lrrp, docid, implemented, attrs)
    doc_table_rules(ctx, repo, lrrp, docid)
    lookup_stability(ctx, repo, mb, lrrp, raws)
    ctx.require("table/reader-writer-agree", 45)
    ctx.require("shape/capture-roundtrip", 8)
    ctx.require("shape/inline-constant-table", 10)
    ctx.require("buffer/several-documents", 4)
    ctx.require("api/token-roundtrip", 80)
    ctx.require("api/long-body", 2)
    ctx.require("api/lookup-stable", 2)


# ----------------------------------------------------------------------------------------------- API-assembled documents
def sample_values(I, rec):
    """list of (label, value-thunk) for a table entry"""
    ty = rec.fields["_type"].name
    ln = rec.fields.get("length")
    if ty == "OPAQUE_I":
        if ln:
            return [(f"{ln} symbolic octets", lambda: I.wire("val", 8 * ln, "bytes"))]
        if ln == 0:
            return [("no content", lambda: b"")]
        return [("4 symbolic octets", lambda: I.wire("val", 32, "bytes")), ("empty", lambda: b""),
                ("127 symbolic octets", lambda: I.wire("val", 8 * 127, "bytes")), ("128 symbolic octets", lambda: I.wire("val", 8 * 128, "bytes")),
                ("200 symbolic octets", lambda: I.wire("val", 8 * 200, "bytes"))]
    if ty == "INFO_TIME":
        return [("5 symbolic octets", lambda: I.wire("val", 40, "bytes"))]
    if ty == "UINT8":
        return [("symbolic octet", lambda: AInt(list(reversed(I.wire("val", 8, "bytes").items))))]
    if ty == "NO_VALUE":
        return [("none", lambda: None)]
    if ty == "UINTVAR":
        return [(str(v), (lambda v=v: v)) for v in UINTVARS]
    if ty == "UFLOATVAR":
        return [(str(v), (lambda v=v: v)) for v in UFLOATS]
    if ty == "SFLOATVAR":
        return [(str(v), (lambda v=v: v)) for v in SFLOATS]
    if ty == "CIRCLE_2D":
        return [(f"symbolic lat/long, radius {r}", (lambda r=r: (I.wire("lat", 32, "bytes"), I.wire("lon", 32, "bytes"), r))) for r in UFLOATS[1:4]]
    if ty == "POINT_2D":
        return [("symbolic lat/long", lambda: (I.wire("lat", 32, "bytes"), I.wire("lon", 32, "bytes")))]
    if ty == "POINT_3D":
        return [(f"symbolic lat/long, altitude {a}", (lambda a=a: (I.wire("lat", 32, "bytes"), I.wire("lon", 32, "bytes"), a))) for a in SFLOATS[1:8]]
    if ty == "STR8_I":
        return [("'ab'", lambda: "ab")]
    raise AnalysisError(f"no value shapes for token type {ty}")


def attr_choices(rec, attrs):
    """attribute dictionaries accepted for the token: none, and per listed attribute id its implied value or 0 / 5 / 300"""
    required = [a for a in (rec.fields.get("attributes") or []) if a in attrs and attrs[a].fields.get("value") is None]
    # an attribute without implied value is always transmitted: leaving it out is not a valid document
    out = [] if required else [("no attributes", {})]
    for aid in rec.fields.get("attributes") or []:
        a = attrs.get(aid)
        if a is None:
            continue
        implied = a.fields.get("value")
        for v in ([implied] if implied is not None else [0, 5, 300]):
            out.append((f"{a.fields['name']}={v} (by id)", {aid: v}))
            if implied is None and v == 5:
                out.append((f"{a.fields['name']}={v} (by name)", {a.fields["name"]: v}))
    return out


REQUEST_DOC, REPORT_DOC = "LRRP_ImmediateLocationRequest_NCDT", "LRRP_ImmediateLocationReport_NCDT"


def mk_doc(I, repo, lrrp, docid, name):
    member = repo.enum_members(docid)[name]
    return I.construct(lrrp, [], {"document_id": member})


def doc_table_rules(ctx, repo, lrrp, docid):
    """which element-token table a document id is parsed with: request documents with the request table, reports and answers with
    the answer / report table (the document's own name says which it is)"""
    gc = repo.find_method(lrrp, "get_configuration")
    if gc is None:
        raise AnalysisError("LRRP.get_configuration not found")
    ctx.saw_func(gc)
    req = set(repo.class_const(lrrp, "QUERY_REQUEST_MESSAGES_ELEMENT_TOKENS"))
    rep = set(repo.class_const(lrrp, "ANSWER_AND_REPORT_MESSAGES_ELEMENT_TOKENS"))
    only_req, only_rep = req - rep, rep - req
    n = 0
    for name, mem in repo.enum_members(docid).items():
        if not name.startswith("LRRP_"):
            continue
        kind = "request" if "Request" in name else ("report" if ("Report" in name or "Answer" in name) else None)
        if kind is None:
            continue
        I = mk_interp(repo)

        def run_c(st, mem=mem):
            I.st = st
            return I.call(gc, [mem], {})
        res = explore(run_c, max_paths=8)
        if len(res) != 1 or res[0][1][0] != "ok" or not isinstance(res[0][1][1], dict):
            raise AnalysisError(f"get_configuration({name}): " + "; ".join(f"{k}:{v}" for _, (k, v) in res)[:200])
        cfg = res[0][1][1]
        elems = next((v for k, v in cfg.items() if getattr(k, "name", "") in ("ELEMENT", "ELEMENTS", "Element") or "ELEMENT" in str(getattr(k, "name", k)).upper()), None)
        if not isinstance(elems, dict):
            raise AnalysisError(f"get_configuration({name}): no element-token table in the result")
        keys = set(elems)
        n += 1
        want, other = (only_req, only_rep) if kind == "request" else (only_rep, only_req)
        ok = want <= keys and not (other & keys)
        ctx.ob("table/document-kind", f"{name} ({mem.value[0] if isinstance(mem.value, tuple) else mem.value!r})", ok,
               f"a {kind} document parsed with {len(keys)} element tokens: {len(want & keys)}/{len(want)} of the {kind}-only tokens, {len(other & keys)} tokens of the other kind", gc.loc)
    ctx.coverage("table/document-kind", "LRRP document ids", n, 12, f"{n} document ids evaluated", gc.loc)
    # which class parses a document id: every LRRP id must be handed to the LRRP implementation (constant evaluation per id)
    mbci = repo.cls(MOD, "MBXML")
    gi = repo.find_method(mbci, "get_implementation")
    if gi is not None:
        ctx.saw_func(gi)
        m_ = 0
        for name, mem in repo.enum_members(docid).items():
            if not name.startswith("LRRP_"):
                continue
            I = mk_interp(repo)

            def run_i(st, mem=mem):
                I.st = st
                return I.call(gi, [ClassRef(mbci), mem], {})
            res = explore(run_i, max_paths=8)
            if len(res) != 1 or res[0][1][0] != "ok":
                raise AnalysisError(f"get_implementation({name}): " + "; ".join(f"{k}:{v}" for _, (k, v) in res)[:200])
            got = res[0][1][1]
            m_ += 1
            ok = isinstance(got, ClassRef) and got.info is lrrp
            ctx.ob("table/document-implementation", f"{name} ({mem.value[0] if isinstance(mem.value, tuple) else mem.value!r})", ok,
                   f"parsed by {got.info.name if isinstance(got, ClassRef) else got!r}" + ("" if ok else f", expected {lrrp.name}"), gi.loc)
        ctx.coverage("table/document-implementation", "LRRP document ids", m_, 12, f"{m_} document ids evaluated", gi.loc)


def api_rules(ctx, repo, mb, lrrp, docid, implemented, attrs):
    gt = repo.find_method(lrrp, "get_token")
    ctx.saw_func(gt)
    ctx.saw_func(repo.find_method(lrrp, "get_attribute"))
    L = ClassRef(lrrp)
    for (tn, tid), rec in sorted(implemented.items()):
        modes = [True, False] if tn == "COMMON_ELEMENT_TOKENS" else [tn.startswith("QUERY")]
        for is_request in modes:
            I0 = mk_interp(repo)
            for vlabel, _ in sample_values(I0, rec):
                for alabel, adict in attr_choices(rec, attrs):
                    def build(I, rec=rec, tid=tid, vlabel=vlabel, adict=adict, is_request=is_request):
                        thunk = dict(sample_values(I, rec))[vlabel]
                        d = mk_doc(I, repo, lrrp, docid, REQUEST_DOC if is_request else REPORT_DOC)
                        t = I.call(gt, [L, tid, thunk(), dict(adict)], {"is_request": is_request})
                        if not isinstance(t, AObj):
                            raise Abort(f"get_token returns {t!r}")
                        if t.attrs.get("token_id") != tid:
                            raise PathRaise("LookupError", f"get_token({tid:#x}) returns token id {t.attrs.get('token_id')!r}")
                        d.attrs["parts"].append(t)
                        return [d], None
                    key = f"{'request' if is_request else 'report'} {tid:#04x} {rec.fields['name']} ({rec.fields['_type'].name}) | value {vlabel} | {alabel}"
                    with ctx.guard(key):
                        roundtrip_docs(ctx, repo, mb, build, key, "api/token-roundtrip", gt.loc)
    # two elements in one document: every token that can carry attributes, once with and once without them (and in the other
    # order) — what the reader collected for the first element must not leak into the second
    for (tn, tid), rec in sorted(implemented.items()):
        choices = [c for c in attr_choices(rec, attrs)]
        with_a = [c for c in choices if c[1]]
        if not with_a:
            continue
        is_request = tn.startswith("QUERY")
        I0 = mk_interp(repo)
        vlabel = sample_values(I0, rec)[0][0]
        orders = [("twice with attributes", (with_a[0][1], with_a[-1][1]))]
        if any(not c[1] for c in choices):     # leaving the attributes out is a valid document for this token
            orders += [("with attributes, then without", (with_a[0][1], {})), ("without attributes, then with", ({}, with_a[0][1]))]
        for order, (first, second) in orders:
            def build_pair(I, rec=rec, tid=tid, vlabel=vlabel, first=first, second=second, is_request=is_request):
                d = mk_doc(I, repo, lrrp, docid, REQUEST_DOC if is_request else REPORT_DOC)
                for adict in (first, second):
                    thunk = dict(sample_values(I, rec))[vlabel]
                    t = I.call(gt, [L, tid, thunk(), dict(adict)], {"is_request": is_request})
                    if not isinstance(t, AObj):
                        raise Abort(f"get_token returns {t!r}")
                    d.attrs["parts"].append(t)
                return [d], None
            key = f"{'request' if is_request else 'report'} {tid:#04x} {rec.fields['name']} x 2 | {order}"
            with ctx.guard(key):
                roundtrip_docs(ctx, repo, mb, build_pair, key, "api/token-pairs", gt.loc)
    # token types that only one of reader / writer mentions: the writer must reject the token (any exception), or the round trip must work
    for (tn, tid), rec in sorted(ctx.extra.pop("_one_sided", {}).items()):
        is_request = tn.startswith("QUERY") or tn == "COMMON_ELEMENT_TOKENS"
        key = f"LRRP.{tn}[{tid:#04x}] {rec.fields['name']} ({rec.fields['_type'].name})"
        I = mk_interp(repo)
        ab = repo.find_method(mb, "as_bytes")

        def wr_only(st, rec=rec, tid=tid, is_request=is_request):
            I.st = st
            d = mk_doc(I, repo, lrrp, docid, REQUEST_DOC if is_request else REPORT_DOC)
            t = I.call(gt, [L, tid, b"\x00" * 8, {}], {"is_request": is_request})
            d.attrs["parts"].append(t)
            return I.call(ab, [ClassRef(mb), d], {})
        res = explore(wr_only, max_paths=16)
        accepted = [1 for _, (k, v) in res if k == "ok"]
        if not accepted:
            ctx.ob("table/reader-writer-agree", key, True, "the writer rejects the token", gt.loc)
            continue

        def build(I_, rec=rec, tid=tid, is_request=is_request):
            d = mk_doc(I_, repo, lrrp, docid, REQUEST_DOC if is_request else REPORT_DOC)
            d.attrs["parts"].append(I_.call(gt, [L, tid, b"\x00" * 8, {}], {"is_request": is_request}))
            return [d], None
        with ctx.guard(key):
            roundtrip_docs(ctx, repo, mb, build, key, "table/reader-writer-agree", gt.loc)
    ctx.extra.pop("_one_sided", None)
    # long bodies: request-id + n x circle-2d, and two such documents in one buffer
    for n, two in ((11, False), (12, False), (11, True), (30, False)):
        def build_long(I, n=n, two=two):
            docs = []
            for k in range(2 if two else 1):
                d = mk_doc(I, repo, lrrp, docid, REPORT_DOC)
                d.attrs["parts"].append(I.call(gt, [L, "request-id", I.wire(f"rid{k}", 64, "bytes"), {}], {"is_request": False}))
                for j in range(n):
                    v = (I.wire(f"lat{k}_{j}", 32, "bytes"), I.wire(f"lon{k}_{j}", 32, "bytes"), 0.5)
                    d.attrs["parts"].append(I.call(gt, [L, "circle-2d", v, {}], {"is_request": False}))
                docs.append(d)
            return docs, None
        with ctx.guard("long body"):
            roundtrip_docs(ctx, repo, mb, build_long, f"request-id(8) + {n} x circle-2d = {10 + 11 * n} octets{' , twice in one buffer' if two else ''}", "api/long-body", gt.loc)


def table_snapshot(I, repo, lrrp):
    out = {}
    L = ClassRef(lrrp)
    for is_request in (True, False):
        sets = I.call(repo.find_method(lrrp, "get_known_tokens"), [L], {"is_request": is_request})
        for k, ts in enumerate(sets):
            for tid, t in ts.items():
                out[(is_request, k, tid)] = (t.attrs.get("name"), t.attrs.get("token_type"), t.attrs.get("token_id"), repr(t.attrs.get("value")),
                                             tuple(x if isinstance(x, int) else "obj" for x in t.attrs.get("attributes", [])), t.attrs.get("length"))
    return out


def lookup_stability(ctx, repo, mb, lrrp, raws):
    gt = repo.find_method(lrrp, "get_token")
    L = ClassRef(lrrp)
    req = next((r for r in raws if r[0] in (0x05, 0x09, 0x0F, 0x14)), None)
    rep = next((r for r in raws if r[0] in (0x07, 0x0D, 0x13, 0x15)), None)
    if req is None or rep is None:
        raise AnalysisError("no captured request / report document to build the process history from")
    const_tables = {tn: repo.class_const(lrrp, tn) for tn in TABLES}
    for order in ((req, rep), (rep, req)):
        I = mk_interp(repo)

        def run(st, order=order):
            I.st = st
            before = table_snapshot(I, repo, lrrp)
            wrong = []
            for rnd in range(2):
                for raw in order:
                    parse_concrete(I, repo, mb, raw)
                for is_request, tns in ((True, (TABLES[0], TABLES[1])), (False, (TABLES[0], TABLES[2]))):
                    for tn in tns:
                        for tid, rec in const_tables[tn].items():
                            ty = rec.fields["_type"].name
                            val = {"NO_VALUE": None, "UINTVAR": 1, "UINT8": 1, "UFLOATVAR": 0.5, "SFLOATVAR": 0.5}.get(ty, b"\x00" * (rec.fields.get("length") or 0))
                            try:
                                t = I.call(gt, [L, tid, val, {}], {"is_request": is_request})
                            except PathRaise as e:
                                wrong.append(f"get_token({tid:#x}, is_request={is_request}) raises {e.exc}")
                                continue
                            got = (t.attrs.get("name"), getattr(t.attrs.get("token_type"), "name", None), t.attrs.get("token_id"))
                            exp = (rec.fields["name"], ty, tid)
                            if tn == TABLES[0] or tid not in const_tables[TABLES[0]]:
                                if got != exp:
                                    wrong.append(f"round {rnd}: get_token({tid:#x}, is_request={is_request}) returns {got}, the table says {exp}")
            after = table_snapshot(I, repo, lrrp)
            return before, after, wrong

        res = explore(run, max_paths=4)
        oks, crashes = classify(ctx, res, "lookup history")
        bad = list(crashes)
        for st, (before, after, wrong) in oks:
            bad += wrong[:3]
            ch = sorted(k for k in set(before) | set(after) if before.get(k) != after.get(k))
            if ch:
                k = ch[0]
                bad.append(f"class-level table changed by the history: {len(ch)} entries, e.g. set {k[1]} id {k[2]:#x} (is_request={k[0]}): {before.get(k)} -> {after.get(k)}")
        ctx.ob("api/lookup-stable", f"history parse {order[0][:3].hex()}…, parse {order[1][:3].hex()}…, look up every token (x2)", not bad and bool(oks),
               "; ".join(bad[:3]) or f"{len(table_snapshot.__code__.co_varnames) and len(oks)} path(s)", gt.loc)
