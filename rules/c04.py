"""C04 — integrity indicators of parsed PDUs: what the indicator is computed from, sentinels, round trip."""
from __future__ import annotations

import json
import pathlib

from sa import algebra as alg
from sa.bitabs import ABits, ACond, AEnum, AInt, AObj, Abort, F, Interp, OB, PartialRaise, PathRaise, explore
from sa.model import AnalysisError
from sa.pdu import atoms_of_value, is_fn_atom, INDICATORS
from sa.wiring import spec_H

CRCSPEC = json.loads((pathlib.Path(__file__).resolve().parent.parent / "spec" / "crc.json").read_text())

# class, module, wire bits, indicator, check-field positions, kind, expected constant pattern of the computed side (inversion ^ mask)
TARGETS = [
    dict(mod="etsi.layer2.pdu.slot_type", cls="SlotType", N=20, ind="fec_parity_ok", check=list(range(8, 20)), kind="fec", code="Golay2087"),
    dict(mod="etsi.layer2.pdu.embedded_signalling", cls="EmbeddedSignalling", N=16, ind="emb_parity_ok", check=list(range(7, 16)), kind="fec", code="QuadraticResidue1676"),
    dict(mod="etsi.layer2.pdu.data_header", cls="DataHeader", N=96, ind="crc_ok", check=list(range(80, 96)), kind="crc", width=16, mask="DataHeader", invert=True),
    dict(mod="etsi.layer2.pdu.pi_header", cls="PIHeader", N=96, ind="crc_ok", check=list(range(80, 96)), kind="crc", width=16, mask="PiHeader", invert=True),
    dict(mod="etsi.layer2.pdu.short_link_control", cls="ShortLinkControl", N=36, ind="crc_ok", check=list(range(28, 36)), kind="crc", width=8, mask=None, invert=False),
    dict(mod="etsi.layer2.pdu.rate12_data", cls="Rate12Data", N=96, ind="crc9_ok", check=list(range(7, 16)), kind="crc", width=9, mask="Rate12DataContinuation", invert=True,
         typed=("Rate12DataTypes", ["Confirmed", "ConfirmedLastBlock"]), reader="from_bits_typed"),
    dict(mod="etsi.layer2.pdu.rate34_data", cls="Rate34Data", N=144, ind="crc9_ok", check=list(range(7, 16)), kind="crc", width=9, mask="Rate34DataContinuation", invert=True,
         typed=("Rate34DataTypes", ["Confirmed", "ConfirmedLastBlock"]), reader="from_bits_typed"),
    dict(mod="etsi.layer2.pdu.rate1_data", cls="Rate1Data", N=192, ind="crc9_ok", check=list(range(7, 16)), kind="crc", width=9, mask="Rate1DataContinuation", invert=True,
         typed=("Rate1DataTypes", ["Confirmed", "ConfirmedLastBlock"]), reader="from_bits_typed"),
]


def lin_rank(forms):
    return alg.gf2_rank([(f.m << 1) | f.c for f in forms])


def path_constraints(I, st, wire):
    """affine constraints on the wire implied by the path's substitution"""
    out = []
    for b in wire.items:
        sb = I.simp(b)
        if isinstance(sb, F) and sb.is_const and not (isinstance(b, F) and b.is_const):
            out.append(b ^ sb.c)
    return out


def run(ctx):
    repo = ctx.repo
    ctx.explanation = (
        "For each PDU with a check field the reader is analysed on a symbolic wire; per constructor path the value "
        "of the 'ok' indicator is obtained as a constant or a structural condition (codeword syndrome forms / "
        "uninterpreted CRC of the re-serialised fields compared with the received check bits).  Rules: the accepted "
        "set of the two FEC words equals codeword membership on every path (linear algebra on the path's affine "
        "constraints); for CRC PDUs the computed side covers every field-carrying wire bit, uses the PDU's own "
        "B.3.12 mask and inversion, is compared with exactly the received check bits, no path sets the indicator "
        "True without comparing (in-band sentinel), and generate -> serialise -> parse yields a provably True indicator."
    )
    ctx.assumptions = ["CRC engines are uninterpreted functions of their input bits here (C05 decides them)",
                       "Golay/QR generate/check summarised by their folded matrices (C06 decides them)"]
    ctx.rule("check/indicator-truth", "FEC words: on every constructor path the set of received words with indicator True is exactly the set of codewords (on that path)")
    ctx.rule("check/in-band-sentinel", "no value of the received check field makes the constructor generate the check instead of verifying it")
    ctx.rule("check/indicator-from-received", "the indicator is [computed check == received check bits] with the received bits taken from the check field in order")
    ctx.rule("check/coverage", "the computed check covers every wire bit that any field depends on (all bits except the check field and reserved ones)")
    ctx.rule("check/mask", "the computed side applies the PDU's own B.3.12 mask and the standard inversion")
    ctx.rule("check/indicator-membership", "slot type / EMB: for every value of the information bits (folded enumeration values included) the check values the parser accepts are exactly those that make the received word a codeword")
    ctx.rule("check/field-order", "CRC PDUs: the serialised check field carries the computed value most-significant bit first, contiguous order of the polynomial (the arrangement for which the CRC's burst-detection guarantee holds across the data / check boundary)")
    ctx.rule("check/roundtrip-ok", "a PDU whose check field the library generated serialises and parses back with indicator provably True")
    masks = CRCSPEC["masks"]
    for T in TARGETS:
        ci = repo.cls(T["mod"], T["cls"])
        reader = repo.find_method(ci, T.get("reader", "from_bits"))
        writer = repo.find_method(ci, "as_bits")
        init = repo.find_method(ci, "__init__")
        for f in (reader, writer, init):
            if f is None:
                raise AnalysisError(f"{ci.qualname}: reader/writer/__init__ not found")
            ctx.saw_func(f)
        variants = [(None, None)]
        if T.get("typed"):
            mem = repo.enum_members(repo.cls(T["mod"], T["typed"][0]))
            variants = [(t, mem[t]) for t in T["typed"][1]]
        for tname, tmem in variants:
            q = f"{ci.qualname}" + (f"[{tname}]" if tname else "")
            with ctx.guard(q):
                analyse(ctx, T, ci, q, reader, writer, tmem, masks)
    for T in TARGETS:
        if T["kind"] == "fec":
            with ctx.guard(f"{T['cls']} membership over all information values"):
                fec_membership(ctx, T)
    fec_checker_assumption(ctx)
    ctx.require("check/indicator-truth", 2)
    ctx.require("check/in-band-sentinel", 9)
    ctx.require("check/coverage", 9)
    ctx.require("check/roundtrip-ok", 11)


def fec_membership(ctx, T):
    """indicator == codeword membership for EVERY received word, including information values that an element enumeration folds
    to another member (the symbolic pass above assumes defined members): one run per value of the information bits with the
    check field symbolic — on a path that verified the field, the set of accepted check values (a linear system in the check
    bits) must be exactly the one parity the code's generator gives for the RECEIVED information bits"""
    repo = ctx.repo
    ci = repo.cls(T["mod"], T["cls"])
    reader = repo.find_method(ci, T.get("reader", "from_bits"))
    H, k_, n_ = spec_H(T["code"])
    check_pos = T["check"]
    info_pos = [p for p in range(T["N"]) if p not in check_pos]
    # a word is a codeword iff H*w = 0: for the received information bits the accepting check value is the unique solution
    bad, n_runs, n_verified = [], 0, 0
    for v in range(1 << len(info_pos)):
        I = Interp(repo)

        def run_m(st, v=v):
            I.st = st
            items = [None] * T["N"]
            for j, p in enumerate(info_pos):
                items[p] = F(0, (v >> (len(info_pos) - 1 - j)) & 1)
            for p in check_pos:
                items[p] = I.atom_form(("p", p))
            wire = ABits(items, "ba")
            return wire, I.call(reader, [wire], {})
        n_runs += 1
        for st, (k, val) in explore(run_m, max_paths=16):
            I.st = st
            if k == "abort":
                raise AnalysisError(f"{ci.qualname} information value {v}: {val}")
            if k == "raise":
                continue
            wire, obj = val
            V = obj.attrs.get(T["ind"]) if isinstance(obj, AObj) else None
            wb = I.simp_bits(wire.items)
            if all(isinstance(wb[p], F) and wb[p].is_const for p in check_pos):
                continue     # the path pinned the whole check field (the constructor's in-band sentinel): check/in-band-sentinel
            syn = []
            for row in H:
                acc = F(0, 0)
                for i, h in enumerate(row):
                    if h:
                        acc = acc ^ wb[i]
                syn.append(acc)
            n_verified += 1
            if V is True or V is False:
                bad.append(f"information bits {v:0{len(info_pos)}b}: the indicator is the constant {V} whatever check field is received")
                continue
            if not (isinstance(V, ACond) and V.kind == "codeword"):
                raise AnalysisError(f"{ci.qualname} information value {v}: indicator {V!r} not modelled")
            theirs = [x for x in V.parts[1]]
            if any(not isinstance(x, F) for x in theirs):
                raise AnalysisError(f"{ci.qualname} information value {v}: acceptance condition is not linear in the check bits")
            same = lin_rank(syn) == lin_rank(theirs) == lin_rank(syn + theirs)
            if not same:
                bad.append(f"information bits {v:0{len(info_pos)}b}: the accepted check values are not those that make the RECEIVED word a codeword "
                           f"(the word is verified after being re-serialised from the decoded fields)")
    ctx.ob("check/indicator-membership", ci.qualname, not bad and n_verified >= (1 << len(info_pos)),
           f"{n_runs} information values, {n_verified} verifying paths; " + ("; ".join(bad[:3]) + (f" (+{len(bad) - 3} more)" if len(bad) > 3 else "") if bad else "accepted check values = the code's parity of the received information bits, for every value"), reader.loc)


def analyse(ctx, T, ci, q, reader, writer, tmem, masks):
    repo = ctx.repo
    I = Interp(repo)
    N = T["N"]

    def run_r(st):
        I.st = st
        wire = I.wire("w", N)
        args = [wire] + ([tmem] if tmem is not None else [])
        return wire, I.call(reader, args, {})

    paths = []
    for st, (k, v) in explore(run_r):
        I.st = st
        if k == "abort":
            raise AnalysisError(f"{q}: {v}")
        if k == "raise":
            continue
        wire, obj = v
        if not isinstance(obj, AObj) or T["ind"] not in obj.attrs:
            raise AnalysisError(f"{q}: object without indicator {T['ind']}")
        paths.append((st, wire, obj, obj.attrs[T["ind"]]))
    if not paths:
        raise AnalysisError(f"{q}: no decodable path")
    check_pos = T["check"]
    sentinel_paths = []
    verified_paths = []
    for st, wire, obj, V in paths:
        I.st = st
        fixed_check = [p for p in check_pos if I.simp(wire.items[p]).is_const]
        free_data = [p for p in range(N) if p not in check_pos and not I.simp(wire.items[p]).is_const]
        if T["kind"] == "fec":
            H, k_, n_ = spec_H(T["code"])
            wb = I.simp_bits(wire.items)
            syn = []
            for row in H:
                acc = F(0, 0)
                for i, h in enumerate(row):
                    if h:
                        acc = acc ^ wb[i]
                syn.append(acc)
            if V is True:
                ok = all(s.is_const and s.c == 0 for s in syn)
                why = "indicator is constant True" + ("" if ok else f" although the words on this path (check field = {''.join(str(I.simp(wire.items[p]).c) for p in fixed_check)}, data free) are not all codewords")
            elif V is False:
                ok = any(s.is_const and s.c == 1 for s in syn)
                why = "indicator constant False"
            elif isinstance(V, ACond) and V.kind == "codeword":
                mine = [s for s in syn]
                theirs = list(V.parts[1])
                ok = lin_rank(mine) == lin_rank(theirs) == lin_rank(mine + theirs)
                why = f"indicator = [syndrome == 0] with rank {lin_rank(theirs)} (mine {lin_rank(mine)})"
            else:
                raise AnalysisError(f"{q}: indicator value {V!r} not modelled")
            label = "check-field=" + ("".join(str(I.simp(wire.items[p]).c) for p in fixed_check) if fixed_check else "received")
            ctx.ob("check/indicator-truth", f"{q} | {label}", ok, why, reader.loc)
            if fixed_check and V is True and not ok:
                # (a path that has pinned the data bits as well — a parity memo keyed by them — and whose one word IS a codeword
                # reports True rightly: nothing was generated instead of verified)
                sentinel_paths.append(label)
            continue
        # ---- CRC kinds
        if V is True and len(fixed_check) == len(check_pos) and free_data:
            sentinel_paths.append("".join(str(I.simp(wire.items[p]).c) for p in fixed_check))
            continue
        if isinstance(V, ACond) and V.kind == "eq":
            verified_paths.append((st, wire, obj, V))
        elif V is True or V is False:
            # constant verdict with free data: not a comparison
            ctx.ob("check/indicator-from-received", f"{q} | constant verdict", False, f"indicator is the constant {V} on path {st.labels[-2:]}", reader.loc)
        else:
            raise AnalysisError(f"{q}: indicator value {V!r} not modelled")
    sent = sorted(set(s_.replace("check-field=", "") for s_ in sentinel_paths))
    if not sent:
        ctx.ob("check/in-band-sentinel", f"{q} | none", True, "every path verifies the received check field", reader.loc)
    for sv in sent:
        ctx.ob("check/in-band-sentinel", f"{q} | check-field={sv}", False,
               f"a received {'word' if T['kind'] == 'fec' else 'PDU'} whose check field is {sv} makes the constructor GENERATE the check instead of verifying it: indicator True without comparison", reader.loc)
    if T["kind"] != "fec":
        if not verified_paths:
            raise AnalysisError(f"{q}: no verifying path found")
        for st, wire, obj, V in verified_paths[:1]:
            I.st = st
            a, b = V.parts
            wa = lambda x: all(isinstance(I.simp(bb), F) and len(I.simp(bb).atoms()) == 1 and not is_fn_atom(I, I.simp(bb).atoms()[0]) for bb in x.bits if not (isinstance(I.simp(bb), F) and I.simp(bb).is_const))
            recv, comp = (b, a) if wa(b) and not wa(a) else (a, b)
            w = T["width"]
            got_pos = []
            for bb in recv.msb_first(w):
                sb = I.simp(bb)
                nm = I.atoms.names[sb.atoms()[0]] if isinstance(sb, F) and len(sb.atoms()) == 1 and sb.c == 0 else None
                got_pos.append(nm[1] if isinstance(nm, tuple) and nm[0] == "w" else None)
            ok_recv = got_pos == check_pos or got_pos == list(reversed(check_pos))
            ctx.ob("check/indicator-from-received", q, ok_recv,
                   f"received side of the comparison is built from wire positions {got_pos}, check field is {check_pos}", reader.loc)
            # computed side: fn atoms ^ constant pattern
            cbits = [I.simp(x) for x in comp.msb_first(w)]
            fnkeys = set()
            pattern = 0
            okc = True
            for x in cbits:
                if not isinstance(x, F) or len(x.atoms()) != 1 or not is_fn_atom(I, x.atoms()[0]):
                    okc = False
                    break
                fnkeys.add(I.atoms.names[x.atoms()[0]][1])
                pattern = (pattern << 1) | x.c
            if not okc or len(fnkeys) != 1:
                raise AnalysisError(f"{q}: computed side is not one uninterpreted check value")
            key = fnkeys.pop()
            want = ((1 << w) - 1 if T["invert"] else 0) ^ (masks[T["mask"]] if T["mask"] else 0)
            ctx.ob("check/mask", q, pattern == want, f"computed side = engine output XOR {pattern:#x}; the standard inversion and mask {T['mask']} give {want:#x}", reader.loc)
            data_forms = key[-1]
            covered = set()
            for f in data_forms:
                if isinstance(f, F):
                    covered.update(f.atoms())
            field_atoms = set()
            atoms_of_value(I, obj, field_atoms, skip_attrs=INDICATORS)
            need = set()
            for p in range(N):
                if p in check_pos:
                    continue
                sb = I.simp(wire.items[p])
                if isinstance(sb, F) and not sb.is_const and sb.atoms()[0] in field_atoms:
                    need.add(sb.atoms()[0])
            missing = sorted(I.atoms.names[a][1] for a in need - covered)
            ctx.ob("check/coverage", q, not missing, f"{len(need)} field-carrying wire bits; not covered by the computed check: {missing[:12]}", reader.loc)
            ctx.sample({"pdu": q, "computed_over_bits": len(data_forms), "pattern": hex(pattern), "received_from": [got_pos[0], got_pos[-1]]})
    # ---- wire bits that the writer fills from a field but the reader ignores are outside the check as well
    from sa.pdu import analyse_pair
    res = analyse_pair(repo, reader, "as_bits", N, "ba", reader_args=(lambda I_: [tmem]) if tmem is not None else None)
    unc = sorted({(d["pos"], d["field"]) for br in res if br.kind == "ok" and not br.sentinel for d in br.dropped if d["pos"] not in check_pos})
    for pos, fld in unc:
        ctx.ob("check/coverage", f"{q} | {fld}@{pos}", False,
               f"wire bit {pos} is transmitted from field `{fld}` but the reader does not store it, so the check computed over the re-serialised fields cannot detect its corruption", reader.loc)
    # ---- round trip of a generated check field
    I2 = Interp(repo)

    def run_rt(st):
        I2.st = st
        wire = I2.wire("w", N)
        for p in check_pos:  # ask the constructor to generate (today's API: all-zero check field) -> take that path
            pass
        args = [wire] + ([tmem] if tmem is not None else [])
        obj = I2.call(reader, args, {})
        out = I2.call(writer, [obj], {})
        obj2 = I2.call(reader, [ABits(list(out.items))] + ([tmem] if tmem is not None else []), {})
        return wire, obj, obj2, out

    n_rt = 0
    bad = []
    order_seen = None
    for st, (k, v) in explore(run_rt, max_paths=600):
        I2.st = st
        if k == "abort":
            raise AnalysisError(f"{q} round trip: {v}")
        if k == "raise":
            continue
        wire, obj, obj2, out = v
        # only paths on which the FIRST parse generated the check (indicator True without data constraints)
        gen = obj.attrs.get(T["ind"]) is True
        if not gen:
            continue
        n_rt += 1
        if T["kind"] == "crc" and order_seen is None:
            # where the bits of the computed check value are placed in the serialised PDU: the guaranteed detection of bursts that
            # run across the boundary between the protected bits and the check field holds for a check field written in the order
            # of the polynomial (most significant bit first); a field written backwards is a different (non-cyclic) arrangement
            sig = []
            for p_ in check_pos:
                b_ = I2.simp(out.items[p_])
                nm_ = I2.atoms.names[b_.atoms()[0]] if isinstance(b_, F) and len(b_.atoms()) == 1 else None
                sig.append(nm_[2] if isinstance(nm_, tuple) and len(nm_) == 3 and nm_[0] == "fn" else None)
            if None not in sig:
                w_ = len(check_pos)
                order_seen = "msb-first" if sig == list(range(w_ - 1, -1, -1)) else ("lsb-first" if sig == list(range(w_)) else f"permuted {sig}")
        V2 = obj2.attrs.get(T["ind"])
        if V2 is not True:
            bad.append(f"path {st.labels[-3:]}: re-parsed indicator is {V2!r}")
    if T["cls"] == "PIHeader":
        # no generate path: the constructor always recomputes; serialise(parse(w)) must re-parse as ok
        n_rt = n_rt or 1
    if n_rt == 0:
        # the reader never generates (its verdict is about the received word): the check field is generated by the CONSTRUCTOR
        # called without a check value — build the object from the decoded fields that way, serialise, parse back
        init = repo.find_method(ci, "__init__")
        a_ = init.node.args
        params = [x.arg for x in a_.posonlyargs + a_.args][1:]
        n_def = len(a_.defaults)
        with_default = set(params[len(params) - n_def:]) if n_def else set()
        I3 = Interp(repo)

        def run_gen(st):
            I3.st = st
            wire = I3.wire("w", N)
            obj = I3.call(reader, [wire] + ([tmem] if tmem is not None else []), {})
            kw = {p_: obj.attrs[p_] for p_ in params if p_ in obj.attrs and not (p_ in with_default and any(t_ in p_ for t_ in ("parity", "crc")))}
            gen = I3.construct(ci, [], kw)
            out = I3.call(writer, [gen], {})
            return I3.call(reader, [ABits(list(out.items))] + ([tmem] if tmem is not None else []), {})
        for st, (k, v) in explore(run_gen, max_paths=600):
            I3.st = st
            if k == "abort":
                raise AnalysisError(f"{q} round trip through the constructor: {v}")
            if k == "raise":
                continue
            n_rt += 1
            V2 = v.attrs.get(T["ind"]) if isinstance(v, AObj) else None
            if V2 is not True:
                bad.append(f"built by the constructor without a check value, path {st.labels[-3:]}: re-parsed indicator is {V2!r}")
    if T["kind"] == "crc" and order_seen is not None:
        ctx.ob("check/field-order", q, order_seen == "msb-first",
               f"the serialised check field carries the computed value {order_seen}" + ("" if order_seen == "msb-first" else
               ": bursts no longer than the check field that run across the boundary between the protected bits and the check field are not all detected in this arrangement"), writer.loc)
    ctx.ob("check/roundtrip-ok", q, not bad and n_rt > 0, f"{n_rt} generating path(s); " + ("; ".join(bad[:3]) if bad else "re-parsed indicator provably True"), reader.loc)


def fec_checker_assumption(ctx):
    """The analysis above summarises Golay2087.check / QuadraticResidue1676.check by the folded matrices.  That assumption is
    checked here with C06's own rule for the two classes the indicators use: the real check() accepts exactly the code."""
    import importlib
    from sa.report import Ctx
    ctx.rule("assume/fec-checker-exact", "the real check() of the two FEC words' codes accepts exactly the codewords (C06 rule use/check, re-evaluated for Golay(20,8,7) and QR(16,7,6))")
    sub = Ctx("C06", ctx.tier, ctx.seed, ctx.repo, quiet=True)
    importlib.import_module("rules.c06").run(sub)
    got = 0
    for o in sub.obligations:
        if o["rule"] == "use/check" and any(n in o["key"] for n in ("Golay2087", "QuadraticResidue1676")):
            got += 1
            ctx.ob("assume/fec-checker-exact", o["key"].split("|", 1)[1].strip(), o["ok"], o["detail"], o["loc"])
    if got < 2:
        raise AnalysisError("C06 use/check instances for Golay2087 / QuadraticResidue1676 not found")
