"""C11 — Reed-Solomon (12,9): field tables exhaustive, multiplication exhaustive, generate/check for all inputs."""
from __future__ import annotations

from sa import algebra as alg
from sa.bitabs import ABits, ACond, AFin, AInt, Abort, F, Interp, OB, explore
from sa.model import AnalysisError, Unfoldable
from sa.wiring import Misbehaves, single_path

MOD = "etsi.fec.reed_solomon_12_9_4"
PRIM = 0x11D  # x^8+x^4+x^3+x^2+1


def mul_const_forms(c: int, bits_lsb):
    """bits (lsb first, 8 forms) of c * b in GF(2^8), linear in b"""
    cols = [alg.gf256_mul(c, 1 << i, PRIM) for i in range(8)]
    out = []
    for j in range(8):
        acc = F(0, 0)
        for i in range(8):
            if (cols[i] >> j) & 1:
                acc = acc ^ bits_lsb[i]
        out.append(acc)
    return out


def install_linear_mult(I, qual):
    def summary(I_, fi, args, kw, bound_cls):
        a, b = args[0], args[1]
        ca = a if isinstance(a, int) else None
        cb = b if isinstance(b, int) else None
        if ca is not None and cb is not None:
            return alg.gf256_mul(ca, cb, PRIM)
        if ca is None and cb is None:
            raise Abort("product of two symbolic field elements")
        c, x = (ca, b) if ca is not None else (cb, a)
        if not isinstance(x, AInt) or x.ext is not None or len(x.bits) > 8:
            raise Abort("field multiplication operand is not an octet")
        bits = list(x.bits) + [F(0, 0)] * (8 - len(x.bits))
        return AInt(mul_const_forms(c, bits))
    I.summaries[qual] = summary


def byte_forms(I, name, n):
    return ABits([I.atom_form((name, i)) for i in range(8 * n)], "bytes")


def octets(bits):
    """list of octets, each 8 forms lsb-first, from a flat msb-first byte sequence"""
    return [list(reversed(bits[i * 8:i * 8 + 8])) for i in range(len(bits) // 8)]


def syndromes(word_octets):
    out = []
    for j in (1, 2, 3):
        acc = [F(0, 0)] * 8
        for i, oc in enumerate(word_octets):
            e = (j * (11 - i)) % 255
            c = 1
            for _ in range(e):
                c = alg.gf256_mul(c, 2, PRIM)
            prod = mul_const_forms(c, oc)
            acc = [x ^ y for x, y in zip(acc, prod)]
        out.extend(acc)
    return out


def in_span(form, basis_forms) -> bool:
    vecs = [(f.m << 1) | f.c for f in basis_forms]
    r0 = alg.gf2_rank(vecs)
    return alg.gf2_rank(vecs + [(form.m << 1) | form.c]) == r0


def run(ctx):
    repo = ctx.repo
    ci = repo.cls(MOD, "ReedSolomon1294")
    q = ci.qualname
    ctx.explanation = (
        "EXPONENTIAL_TABLE / LOG_TABLE are folded and compared with GF(2^8) mod x^8+x^4+x^3+x^2+1 computed by the checker; "
        "log_multiply is evaluated in the finite-function domain for each of the 256 left operands with a symbolic right "
        "operand (exact truth tables, all 65 536 pairs); POLYNOMIAL equals (x-a)(x-a^2)(x-a^3).  generate and check are "
        "then analysed by abstract interpretation over GF(2)-affine forms of a symbolic 9-octet message, 12-octet word "
        "and 3-octet mask (multiplication by a constant is GF(2)-linear): all three syndromes of generate(m, mask) with "
        "the mask removed are identically zero, and the acceptance condition of check is a linear system of rank 24 "
        "equivalent to the syndrome equations."
    )
    ctx.assumptions = ["bytes/int operation models of sa/bitabs.py", "alpha = 2, primitive polynomial 0x11D (ETSI B.3.6)"]
    ctx.saw(file=ci.module.relpath, table=f"{q}.EXPONENTIAL_TABLE")
    ctx.saw(table=f"{q}.LOG_TABLE")
    try:
        EXP = list(repo.class_const(ci, "EXPONENTIAL_TABLE"))
        LOG = list(repo.class_const(ci, "LOG_TABLE"))
        POLY = list(repo.class_const(ci, "POLYNOMIAL"))
    except Unfoldable as e:
        raise AnalysisError(f"{q}: table not foldable: {e}")
    loc = ci.loc
    ctx.rule("field/exp-table", "EXPONENTIAL_TABLE[i] = alpha^i for i < 255 and repeats with period 255 up to index >= 508 (un-reduced log sums stay in range)")
    ctx.rule("field/log-table", "LOG_TABLE is the inverse of the exponential table on 1..255")
    ctx.rule("field/multiply", "log_multiply(a, b) is the GF(2^8) product for all 65 536 operand pairs (finite-function evaluation of the real method)")
    ctx.rule("rs/generator-polynomial", "POLYNOMIAL[0:4] are the coefficients (low order first) of (x-alpha)(x-alpha^2)(x-alpha^3), higher ones 0")
    ctx.rule("rs/generate-codeword", "for all messages and masks: generate returns the message followed by 3 octets such that, mask removed, all syndromes at alpha^1..alpha^3 vanish")
    ctx.rule("rs/check-exact", "check accepts exactly the words whose unmasked syndromes vanish (acceptance condition = linear system of rank 24 equivalent to the syndrome equations)")
    ctx.rule("rs/lengths", "generate rejects 8/10-octet messages, check rejects 11/13-octet words")
    exp, log = alg.gf256_tables(PRIM)
    bad = [i for i in range(min(len(EXP), 509)) if EXP[i] != exp[i % 255]]
    ctx.ob("field/exp-table", q, len(EXP) >= 509 and not bad, f"length {len(EXP)}, wrong entries at {bad[:8]}", loc)
    bad = [v for v in range(1, 256) if v >= len(LOG) or LOG[v] != log[v]]
    ctx.ob("field/log-table", q, len(LOG) >= 256 and not bad, f"length {len(LOG)}, wrong entries for values {bad[:8]}", loc)
    # any other 256-entry integer table of the class (products of a coefficient with every field element, remainders of
    # value * x^k ...) is indexed by a data symbol inside a LINEAR encoder: it has to be GF(2)-linear in its index
    ctx.rule("field/tables-linear", "a further 256-entry integer table of the class that is GF(2)-linear in its index except at a few entries (feedback products / remainders with a wrong entry) is reported: the encoder that indexes it with a data symbol is linear")

    def leaves256(v, path):
        if isinstance(v, (list, tuple)) and len(v) == 256 and all(isinstance(x, int) and not isinstance(x, bool) for x in v):
            yield path, list(v)
        elif isinstance(v, (list, tuple)) and len(v) <= 64:
            for i_, x in enumerate(v):
                yield from leaves256(x, f"{path}[{i_}]")
        elif isinstance(v, dict) and len(v) <= 64:
            for k_, x in v.items():
                yield from leaves256(x, f"{path}[{k_!r}]")
    n_tab = 0
    for attr in sorted(ci.assigns):
        if attr in ("EXPONENTIAL_TABLE", "LOG_TABLE") or attr in ci.methods:
            continue
        try:
            val = repo.class_const(ci, attr)
        except Unfoldable:
            continue
        for path, T in leaves256(val, attr):
            n_tab += 1
            badl = [i_ for i_ in range(256) if T[i_] != (0 if i_ == 0 else __import__("functools").reduce(lambda a_, b_: a_ ^ b_, [T[1 << k_] for k_ in range(8) if i_ >> k_ & 1], 0))]
            if len(badl) > 16 or T == LOG[:256] or any(T == EXP[o_:o_ + 256] for o_ in range(0, max(len(EXP) - 255, 0))):
                # not a linear map at all (a logarithm / antilogarithm / inverse table): not a table of this kind
                ctx.info(f"{q}.{path}: a 256-entry table that is not linear in its index at {len(badl)} positions — a non-linear map (log / exp / inverse), not judged by this rule")
                continue
            ctx.ob("field/tables-linear", f"{q}.{path}", not badl, f"a table that is GF(2)-linear in its index except at entries {badl[:8]}" if badl else "linear", loc)
    ctx.ob("field/tables-linear", f"{q} | all tables", True, f"{n_tab} further 256-entry table(s)", loc)
    g = [1]
    for j in (1, 2, 3):
        g = alg.poly_mul_gf256(g, [exp[j], 1], PRIM)
    ctx.ob("rs/generator-polynomial", q, POLY[:4] == g and not any(POLY[4:]), f"POLYNOMIAL={POLY[:5]}..., (x-a)(x-a^2)(x-a^3)={g}", loc)

    lm = repo.find_method(ci, "log_multiply")
    gen = repo.find_method(ci, "generate")
    chk = repo.find_method(ci, "check")
    for f in (lm, gen, chk):
        if f is None:
            raise AnalysisError(f"{q}: log_multiply/generate/check not found")
        ctx.saw_func(f)
    # ---- multiplication, exhaustive through the finite-function domain
    with ctx.guard(f"{q}.log_multiply"):
        bad = []
        pairs = 0
        for a in range(256):
            I = Interp(repo)
            I.summaries.pop(lm.qualname, None)

            def run_m(st, a=a):
                I.st = st
                b = AInt([I.atom_form(("b", i)) for i in range(8)])
                return I.call(lm, [a, b], {}), b

            for st, (kind, v) in explore(run_m):
                if kind != "ok":
                    if kind == "abort":
                        raise AnalysisError(f"{lm.qualname}: {v}")
                    bad.append((a, "raises " + str(v)))
                    continue
                I.st = st
                r, b = v
                for bv in range(256):
                    assign = {I.atoms.get(("b", i)): (bv >> i) & 1 for i in range(8)}
                    if any(st.subst.get(at, val) != val for at, val in assign.items()):
                        continue
                    if any((not eq_) and len(key) == 8 and const == bv for key, const, eq_ in st.eqs):
                        continue
                    got = conc(r, assign)
                    pairs += 1
                    if got != alg.gf256_mul(a, bv, PRIM):
                        bad.append((a, bv, got))
        ctx.ob("field/multiply", q, not bad and pairs >= 65536, f"{pairs} operand pairs evaluated; wrong products (a, b, got): {bad[:6]}", lm.loc)

    # ---- generate for all messages and masks
    with ctx.guard(f"{q}.generate"):
        I = Interp(repo)
        install_linear_mult(I, lm.qualname)

        def run_g(st):
            I.st = st
            return I.call(gen, [byte_forms(I, "m", 9), byte_forms(I, "k", 3)], {})

        res = explore(run_g, max_paths=2000)
        bad = []
        npaths = 0
        for st, (kind, v) in res:
            if kind == "abort":
                raise AnalysisError(f"{gen.qualname}: {v}")
            if kind == "raise":
                bad.append(f"raises {v} on path {st.labels[:3]}")
                continue
            npaths += 1
            I.st = st
            if not (isinstance(v, ABits) and v.kind == "bytes" and len(v.items) == 96):
                bad.append(f"returns {v!r}")
                continue
            bits = I.simp_bits(v.items)
            m = [I.atom_form(("m", i)) for i in range(72)]
            k = [I.atom_form(("k", i)) for i in range(24)]
            cons = []
            for key, const, eq_ in st.eqs:
                if eq_:
                    w = len(key)
                    cons += [f ^ ((const >> (w - 1 - i)) & 1) for i, f in enumerate(key)]
            if bits[:72] != m:
                bad.append("the first 9 octets are not the message")
                continue
            unmasked = bits[:72] + [b ^ kk for b, kk in zip(bits[72:], k)]
            syn = syndromes(octets(unmasked))
            nz = [i for i, s in enumerate(syn) if not (isinstance(s, F) and (s.m == 0 and s.c == 0 or (cons and in_span(s, cons))))]
            if nz:
                bad.append(f"syndrome bits {nz[:6]} do not vanish" + (f" under the path condition {st.labels[:2]}" if cons else ""))
        ctx.ob("rs/generate-codeword", q, not bad and npaths >= 1, f"{npaths} path(s) analysed; " + ("; ".join(bad[:3]) if bad else "S1=S2=S3=0 identically"), gen.loc)

    # ---- check
    with ctx.guard(f"{q}.check"):
        I = Interp(repo)
        install_linear_mult(I, lm.qualname)

        def run_c(st):
            I.st = st
            return I.call(chk, [byte_forms(I, "w", 12), byte_forms(I, "k", 3)], {})

        accept, reject = [], []          # (equalities as forms that must be 0, disequalities as (forms, value) that must differ)
        for st, (kind, v) in explore(run_c, max_paths=2000):
            if kind == "abort":
                raise AnalysisError(f"{chk.qualname}: {v}")
            if kind == "raise":
                continue
            I.st = st
            cons, dis = [], []
            for key, const, eq_ in st.eqs:
                w = len(key)
                if eq_:
                    cons += [f ^ ((const >> (w - 1 - i)) & 1) for i, f in enumerate(key)]
                else:
                    dis.append(([f ^ ((const >> (w - 1 - i)) & 1) for i, f in enumerate(key)]))   # not all of these are 0
            if v is True:
                accept.append((cons, dis))
            elif isinstance(v, ACond) and v.kind == "eqseq":
                a, b = v.parts
                d = [x ^ y for x, y in zip(a.items, b.items)]
                accept.append((cons + d, dis))
                reject.append((cons, dis + [d]))
            elif v is False:
                reject.append((cons, dis))
            else:
                raise AnalysisError(f"{chk.qualname}: result {v!r} not modelled")
        w = [I.raw_atom(("w", i)) for i in range(96)]   # reference forms: not rewritten by the path explored last
        k = [I.raw_atom(("k", i)) for i in range(24)]
        syn = syndromes(octets(w[:72] + [b ^ kk for b, kk in zip(w[72:], k)]))
        nat = len(I.atoms.names)
        if any(not isinstance(c, F) for cs, ds in accept + reject for c in cs + [x for d in ds for x in d]):
            raise AnalysisError(f"{chk.qualname}: opaque acceptance condition")
        mc = lambda fs: [(f.m, f.c) for f in fs]

        def value(f, x):
            return (bin(f.m & x).count("1") & 1) ^ f.c

        def word(x):
            bits = [value(f, x) for f in w]
            key = [value(f, x) for f in k]
            return "word " + "".join(f"{int(''.join(map(str, bits[i:i + 8])), 2):02x}" for i in range(0, 96, 8)) + " mask " + "".join(f"{int(''.join(map(str, key[i:i + 8])), 2):02x}" for i in range(0, 24, 8))

        def witness(eqs, dis, want_codeword):
            """an input that satisfies the path (equalities and disequalities) and is / is not a codeword, among the solution of the
            equalities with all free bits 0 and its neighbours along one or two basis directions"""
            sol = alg.gf2_solve(mc(eqs), nat)
            if sol is None:
                return None
            x0, basis = sol
            cands = [x0] + [x0 ^ b_ for b_ in basis[:160]] + [x0 ^ basis[i] ^ basis[j] for i in range(min(len(basis), 24)) for j in range(i)]
            for x in cands:
                if all(any(value(f, x) for f in d) for d in dis) and (not any(value(s_, x) for s_ in syn)) == want_codeword:
                    return x
            return None

        bad = []
        n_empty = 0
        for cons, dis in accept:
            if alg.gf2_solve(mc(cons), nat) is None:
                n_empty += 1
                continue                                       # contradictory conditions: the path accepts nothing
            if all(alg.gf2_implied((s_.m, s_.c), mc(cons)) for s_ in syn):
                continue                                       # every word of the path is a codeword
            x = witness(cons, dis, want_codeword=False)
            if x is None:
                raise AnalysisError(f"{chk.qualname}: an accepting path is not provably inside the code and no witness was found")
            bad.append(f"accepts a word that is not a codeword: {word(x)}")
        for cons, dis in reject:
            both = mc(cons + syn)
            if alg.gf2_solve(both, nat) is None:
                continue                                       # no codeword satisfies the path's equalities
            if any(all(alg.gf2_implied((f.m, f.c), both) for f in d) for d in dis):
                continue                                       # every codeword violates one of the path's disequalities
            x = witness(cons + syn, dis, want_codeword=True)
            if x is None:
                raise AnalysisError(f"{chk.qualname}: a rejecting path is not provably outside the code and no witness was found")
            bad.append(f"rejects a codeword: {word(x)}")
        if not accept or n_empty == len(accept):
            bad.append("check accepts nothing")
        ctx.ob("rs/check-exact", q, not bad,
               f"{len(accept)} accepting / {len(reject)} rejecting path(s); " + ("; ".join(sorted(set(bad))[:3]) if bad else "every accepting path lies inside the code (S1=S2=S3=0 implied), no rejecting path contains a codeword"), chk.loc)

    # ---- lengths
    with ctx.guard(f"{q}: length asserts"):
        okl = True
        for fn, sizes in ((gen, (8, 10)), (chk, (11, 13))):
            for n in sizes:
                I = Interp(repo)
                install_linear_mult(I, lm.qualname)

                def run_l(st, fn=fn, n=n):
                    I.st = st
                    return I.call(fn, [byte_forms(I, "m", n), byte_forms(I, "k", 3)], {})

                if not all(kind == "raise" for _, (kind, _) in explore(run_l, max_paths=2000)):
                    okl = False
        ctx.ob("rs/lengths", q, okl, "a wrong-length input is not rejected", gen.loc)
    ctx.require("field/multiply", 1)
    ctx.require("rs/generate-codeword", 1)
    ctx.require("rs/check-exact", 1)


def conc(v, assign):
    from sa.bitabs import fin_conc
    if isinstance(v, int):
        return v
    return fin_conc(v, assign)
