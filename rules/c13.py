"""C13 — Hytera IPSC frames: the raw-bytes decoder, the decoder on the generated Kaitai parser object and
the writer agree on every field of a symbolic well-formed 72-byte frame."""
from __future__ import annotations

from sa.bitabs import ABits, AEnum, AExt, AInt, AObj, AOpq, Abort, F, Interp, OB, PartialRaise, PathRaise, explore
from sa.model import AnalysisError, ClassRef, EnumMember

IMOD = "hytera.hytera_ipsc"
KMOD = "okdmr.kaitai.hytera.ip_site_connect_protocol"


def kstream(I, wire):
    """KaitaiStream over the symbolic frame: a cursor with the read_* primitives the generated parser uses"""
    state = {"pos": 0}

    def take(n):
        p = state["pos"]
        if (p + n) * 8 > len(wire.items):
            raise PathRaise("EOFError", "read beyond the frame")
        state["pos"] = p + n
        return wire.items[p * 8:(p + n) * 8]

    def u(n, little):
        bits = take(n)
        chunks = [bits[i * 8:i * 8 + 8] for i in range(n)]
        if little:
            chunks = list(reversed(chunks))
        msb = [b for c in chunks for b in c]
        return AInt(list(reversed(msb)))

    res = {
        "read_bytes": lambda a, kw: ABits(take(a[0]), "bytes"),
        "read_u1": lambda a, kw: u(1, False),
        "read_u2be": lambda a, kw: u(2, False),
        "read_u2le": lambda a, kw: u(2, True),
        "read_u4le": lambda a, kw: u(4, True),
        "read_u4be": lambda a, kw: u(4, False),
        "is_eof": lambda a, kw: state["pos"] * 8 >= len(wire.items),
        "read_bytes_full": lambda a, kw: ABits(take(len(wire.items) // 8 - state["pos"]), "bytes"),
    }
    return AExt("kaitai-stream", res)


def well_formed(I, wire):
    """the frame layout the property quantifies over: fixed header, replicated colour-code nibble, zero pad octets"""
    def byte(i):
        return wire.items[i * 8:i * 8 + 8]
    eqs = []
    for i in (2, 3):  # fixed header 5A 5A
        for k, b in enumerate(byte(i)):
            eqs.append(b ^ ((0x5A >> (7 - k)) & 1))
    for k in range(4):  # colour code: one nibble replicated into both octets
        eqs.append(byte(20)[k] ^ byte(20)[4 + k])
    for k in range(8):
        eqs.append(byte(21)[k] ^ byte(20)[k])
    for i in (58, 63, 67):  # payload pad octet, pad octets of the two 24-bit ids
        for b in byte(i):
            eqs.append(b)
    for lo in (16, 18, 22):  # timeslot, slot type, frame type: 16-bit codes whose two octets are equal (checked by ipsc/palindromic-codes)
        for k in range(8):
            eqs.append(byte(lo)[k] ^ byte(lo + 1)[k])
    for e in eqs:
        I.st.lin.add(e)


def enum_equal(I, repo, a, b):
    """two enum-valued fields agree: same class and same value bits, or byte-swapped value bits when every member is byte-palindromic"""
    if isinstance(a, EnumMember) and isinstance(b, EnumMember):
        return a == b
    if not (isinstance(a, AEnum) and isinstance(b, AEnum)) or a.cls is not b.cls:
        return False
    x, y = I.simp_bits(a.val.msb_first(16)), I.simp_bits(b.val.msb_first(16))
    if x == y:
        return True
    members = [m.value for m in repo.enum_members(a.cls).values() if isinstance(m.value, int)]
    if x == y[8:] + y[:8] and all((v >> 8) == (v & 0xFF) for v in members if v > 0xFF or True):
        return all((v >> 8) == (v & 0xFF) for v in members)
    return False


def value_equal(I, repo, a, b):
    if isinstance(a, (AEnum, EnumMember)) or isinstance(b, (AEnum, EnumMember)):
        return enum_equal(I, repo, a, b)
    if isinstance(a, AInt) and isinstance(b, AInt):
        w = max(len(a.bits), len(b.bits))
        return I.simp_bits(a.msb_first(w)) == I.simp_bits(b.msb_first(w))
    if isinstance(a, ABits) and isinstance(b, ABits):
        return a.kind == b.kind and I.simp_bits(a.items) == I.simp_bits(b.items)
    if isinstance(a, (bytes, bytearray)) and isinstance(b, ABits):
        return I.simp_bits(b.items) == [F(0, (x >> (7 - k)) & 1) for x in a for k in range(8)]
    if isinstance(b, (bytes, bytearray)) and isinstance(a, ABits):
        return value_equal(I, repo, b, a)
    return a == b if not isinstance(a, (AOpq, AObj)) else a is b


def run(ctx):
    repo = ctx.repo
    kmod = repo.add_external_module(KMOD, "okdmr/kaitai/hytera/ip_site_connect_protocol.py")
    kci = kmod.classes.get("IpSiteConnectProtocol")
    if kci is None:
        raise AnalysisError("IpSiteConnectProtocol not found in the generated parser")
    ici = repo.cls(IMOD, "HyteraIPSC")
    ctx.explanation = (
        "A symbolic well-formed 72-byte frame (576 bit atoms under the affine well-formedness constraints: fixed "
        "header, replicated colour nibble, zero pad octets) is decoded three ways by abstract interpretation of the "
        "real code: HyteraIPSC.from_ipsc_bytes, and HyteraIPSC.from_kaitai on the object built by the generated Kaitai "
        "parser's own _read sequence and derived properties (the parser source is read as data, its stream is a "
        "cursor over the same atoms).  Every attribute of the two resulting objects must be the same bit forms (enum "
        "fields modulo byte order when all members are byte-palindromic); ids must be the 24 bits and the colour code "
        "the 4 bits the frame encodes; as_ipsc_bytes of either object must reproduce all 576 wire forms; and "
        "Burst.from_hytera_ipsc must build the same burst class / bits / type / sequence number / ids / timeslot from "
        "either input on every slot-type path."
    )
    ctx.assumptions = ["well-formed frame = fixed 5A5A header, colour-code nibble replicated over octets 20-21, octets 58, 63, 67 zero; enum fields hold defined members",
                       "Burst constructors are replaced by recording stubs in the from_hytera_ipsc rule (C01 decides Burst itself)"]
    ctx.rule("ipsc/decoders-agree", "from_ipsc_bytes and from_kaitai give equal values for every attribute")
    ctx.rule("ipsc/values", "ids are the 24 bits of octets 64..66 / 68..70 (little-endian), colour code the low nibble of octet 20, sequence number octet 4")
    ctx.rule("ipsc/reencode", "as_ipsc_bytes reproduces the 72 octets from the object of either decoder")
    ctx.rule("ipsc/attached-frame", "the decoded frame Burst.from_hytera_ipsc leaves attached to the burst (burst.hytera_ipsc) serialises to exactly the received 72 octets")
    ctx.rule("ipsc/burst-agree", "Burst.from_hytera_ipsc builds the same burst (class, bits, type, sequence number, ids, timeslot) from raw bytes and from the parser object")
    ctx.rule("ipsc/palindromic-codes", "every 16-bit timeslot / slot-type / frame-type code has two equal octets, so the byte order in which a decoder reads it cannot matter")
    for mod, cls in (("hytera.ipsc_elements.timeslot", "Timeslot"), ("hytera.ipsc_elements.slot_type", "SlotType"), ("hytera.ipsc_elements.frame_type", "FrameType")):
        eci = repo.cls(mod, cls)
        vals = [m.value for m in repo.enum_members(eci).values() if isinstance(m.value, int)]
        bad = [hex(v) for v in vals if v > 0xFFFF or (v >> 8) != (v & 0xFF)]
        ctx.ob("ipsc/palindromic-codes", eci.qualname, not bad, f"{len(vals)} codes; not byte-palindromic: {bad}", eci.loc)
    for nm in ("Timeslots", "SlotTypes", "FrameTypes"):
        eci = kci.nested.get(nm)
        if eci is None:
            raise AnalysisError(f"generated parser has no enum {nm}")
        vals = [m.value for m in repo.enum_members(eci).values() if isinstance(m.value, int)]
        bad = [hex(v) for v in vals if v > 0xFFFF or (v >> 8) != (v & 0xFF)]
        ctx.ob("ipsc/palindromic-codes", eci.qualname, not bad, f"{len(vals)} codes; not byte-palindromic: {bad}", eci.loc)
    raw_fn = repo.find_method(ici, "from_ipsc_bytes")
    kai_fn = repo.find_method(ici, "from_kaitai")
    wr_fn = repo.find_method(ici, "as_ipsc_bytes")
    for f in (raw_fn, kai_fn, wr_fn):
        if f is None:
            raise AnalysisError("HyteraIPSC decoder/writer not found")
        ctx.saw_func(f)
    ctx.saw_func(kci.methods["_read"])
    I = Interp(repo)
    I.summaries[f"{KMOD}:KaitaiStream.resolve_enum"] = None
    # KaitaiStream.resolve_enum(enum_cls, value) -> member of the (nested) enum
    def resolve_enum(fr_args):
        pass

    def run_d(st):
        I.st = st
        wire = ABits([I.atom_form(("w", i)) for i in range(576)], "bytes")
        well_formed(I, wire)
        raw = I.call(raw_fn, [ABits(list(wire.items), "bytes")], {})
        kobj = I.construct(kci, [kstream(I, wire)], {})
        kai = I.call(kai_fn, [kobj], {})
        out_raw = guarded(I, wr_fn, raw)
        out_kai = guarded(I, wr_fn, kai)
        return wire, raw, kai, out_raw, out_kai

    del I.summaries[f"{KMOD}:KaitaiStream.resolve_enum"]
    install_kaitai_externals(I, repo)
    n_paths = 0
    for st, (k, v) in explore(run_d, max_paths=64):
        I.st = st
        if k == "abort":
            raise AnalysisError(f"IPSC decoders: {v}")
        if k == "raise":
            ctx.ob("ipsc/decoders-agree", f"{ici.qualname} | raises", False, f"a decoder raises {v.exc} at {v.msg} on a well-formed frame", raw_fn.loc)
            continue
        n_paths += 1
        wire, raw, kai, out_raw, out_kai = v
        attrs = sorted(set(raw.attrs) | set(kai.attrs))
        for a in attrs:
            x, y = raw.attrs.get(a), kai.attrs.get(a)
            ok = value_equal(I, repo, x, y)
            ctx.ob("ipsc/decoders-agree", f"{ici.qualname} | {a}", ok, f"raw-bytes decoder: {describe(I, x)}; parser-object decoder: {describe(I, y)}", raw_fn.loc)
        def byte(i):
            return wire.items[i * 8:i * 8 + 8]
        for name, lo in (("destination_radio_id", 64), ("source_radio_id", 68)):
            want = I.simp_bits(byte(lo + 2) + byte(lo + 1) + byte(lo))
            for who, o in (("raw", raw), ("kaitai", kai)):
                x = o.attrs.get(name)
                # (a two's-complement value whose sign bit is a wire bit is negative for half of the frames: not "the 24 bits")
                ok = isinstance(x, AInt) and not getattr(x, "signed", False) and I.simp_bits(x.msb_first(24)) == want and all(I.simp(b) == F(0, 0) for b in x.bits[24:])
                ctx.ob("ipsc/values", f"{ici.qualname} | {name},{who}", ok, f"{describe(I, x)}; expected the 24 bits of octets {lo}..{lo + 2}", raw_fn.loc)
        for who, o in (("raw", raw), ("kaitai", kai)):
            x = o.attrs.get("color_code")
            ok = isinstance(x, AInt) and I.simp_bits(x.msb_first(4)) == I.simp_bits(byte(20)[4:]) and all(I.simp(b) == F(0, 0) for b in x.bits[4:])
            ctx.ob("ipsc/values", f"{ici.qualname} | color_code,{who}", ok, f"{describe(I, x)}; expected the low nibble of octet 20", raw_fn.loc)
            x = o.attrs.get("sequence_number")
            ok = isinstance(x, AInt) and I.simp_bits(x.msb_first(8)) == I.simp_bits(byte(4)) and all(I.simp(b) == F(0, 0) for b in x.bits[8:])
            ctx.ob("ipsc/values", f"{ici.qualname} | sequence_number,{who}", ok, f"{describe(I, x)}; expected octet 4", raw_fn.loc)
        for who, out in (("raw", out_raw), ("kaitai", out_kai)):
            if isinstance(out, str):
                ctx.ob("ipsc/reencode", f"{ici.qualname} | {who}", False, f"as_ipsc_bytes on the {who}-decoded object: {out}", wr_fn.loc)
                continue
            if isinstance(out, AOpq):
                raise AnalysisError(f"as_ipsc_bytes not analysable on the {who}-decoded object: {out.why}")
            if not isinstance(out, ABits) or out.kind != "bytes":
                ctx.ob("ipsc/reencode", f"{ici.qualname} | {who}", False, f"as_ipsc_bytes returns {out!r}", wr_fn.loc)
                continue
            a, b = I.simp_bits(out.items), I.simp_bits(wire.items)
            diff = sorted({i // 8 for i in range(min(len(a), len(b))) if a[i] != b[i]})
            over = getattr(out, "may_overflow", False)
            ctx.ob("ipsc/reencode", f"{ici.qualname} | {who}", len(a) == 576 and not diff,
                   f"{len(a) // 8} octets; octets that differ from the frame: {diff[:12]}", wr_fn.loc)
        ctx.sample({"frame": "72 symbolic octets", "attributes_compared": attrs})
    ctx.extra["paths_decoders"] = n_paths
    with ctx.guard("Burst.from_hytera_ipsc"):
        burst_agree(ctx, repo, kci, ici)
    ctx.require("ipsc/decoders-agree", 15)
    ctx.require("ipsc/reencode", 2)
    ctx.require("ipsc/burst-agree", 8)


def guarded(I, fn, obj):
    try:
        return I.call(fn, [obj], {})
    except PathRaise as e:
        return f"raises {e.exc} at {e.msg}"
    except PartialRaise as e:
        return str(e)


def describe(I, v):
    if isinstance(v, AInt):
        names = []
        for b in v.msb_first(min(max(len(v.bits), 1), 40)):
            b = I.simp(b)
            if isinstance(b, F) and not b.is_const and len(b.atoms()) == 1:
                n = I.atoms.names[b.atoms()[0]]
                names.append(f"w{n[1] // 8}.{7 - n[1] % 8}" if isinstance(n, tuple) and n[0] == "w" else "?")
            else:
                names.append(repr(b))
        return f"{len(v.bits)}-bit int [{' '.join(names[:8])}{' ...' if len(names) > 8 else ''}]"
    if isinstance(v, ABits):
        return f"{len(v.items) // 8 if v.kind == 'bytes' else len(v.items)} {'octets' if v.kind == 'bytes' else 'bits'}"
    if isinstance(v, AEnum):
        return f"{v.cls.name} of {describe(I, v.val)}"
    return repr(v)


def install_kaitai_externals(I, repo):
    """KaitaiStream.resolve_enum and the validation error are external (kaitaistruct runtime): modelled here"""
    from sa import bitabs_models as M
    orig = M.external

    def external(fr, name, args, kw, n):
        if name.endswith("KaitaiStream.resolve_enum"):
            cref, v = args
            if isinstance(cref, ClassRef):
                return fr.I.enum_lookup(cref.info, v)
        if name.endswith("ValidationNotEqualError"):
            return AOpq("validation error", notnone=True)
        return orig(fr, name, args, kw, n)

    M.external = external


def burst_agree(ctx, repo, kci, ici):
    bci = repo.cls("etsi.layer2.burst", "Burst")
    fh = repo.find_method(bci, "from_hytera_ipsc")
    ctx.saw_func(fh)
    csbk_ci = repo.cls("etsi.layer2.pdu.csbk", "CSBK")
    I = Interp(repo)
    install_kaitai_externals(I, repo)
    made = []

    def stub_ctor(cls):
        def f(I_, ci, args, kw, bc):
            o = AObj(cls, {"__full_bits__": kw.get("full_bits", kw.get("bits", args[0] if args else None)), "__burst_type__": kw.get("burst_type", args[1] if len(args) > 1 else None),
                           "_target_radio_id": 0, "_target_radio_id_resolve_attempt": False, "sequence_no": 0, "source_radio_id": 0, "timeslot": 1, "hytera_ipsc": None,
                           "data": AObj(csbk_ci, {"target_address": AInt([I_.atom_form(("pdu-target", i)) for i in range(24)])})})
            made.append(o)
            return o
        return f

    for mod, cls in (("etsi.layer2.burst", "Burst"), ("hytera.hytera_ipsc_sync", "HyteraIPSCSync"), ("hytera.hytera_ipsc_wakeup", "HyteraIPSCWakeup")):
        ci = repo.cls(mod, cls)
        I.summaries[ci.qualname + ".__new__"] = stub_ctor(ci)

    def run_b(st):
        I.st = st
        del made[:]
        wire = ABits([I.atom_form(("w", i)) for i in range(576)], "bytes")
        well_formed(I, wire)
        b1 = I.call(fh, [ABits(list(wire.items), "bytes")], {})
        b2 = I.call(fh, [I.construct(kci, [kstream(I, wire)], {})], {})
        return wire, b1, b2

    n = 0
    for st, (k, v) in explore(run_b, max_paths=400):
        I.st = st
        taken = [l for l, d in zip(st.labels, st.decisions) if d]
        if k == "abort":
            raise AnalysisError(f"from_hytera_ipsc: {v} on path {taken[-2:]}")
        if k == "raise":
            if v.exc in ("ValueError", "KeyError"):
                continue  # undefined enum value: outside 'well-formed'
            ctx.ob("ipsc/burst-agree", f"{fh.qualname} | raises", False, f"raises {v.exc} at {v.msg} on path {taken[-2:]}", fh.loc)
            continue
        wire, b1, b2 = v
        n += 1
        def byte(i):
            return wire.items[i * 8:i * 8 + 8]
        bad = []
        if b1.cls is not b2.cls:
            bad.append(f"classes {b1.cls.name} / {b2.cls.name}")
        for a in ("__full_bits__", "__burst_type__", "sequence_no", "source_radio_id", "_target_radio_id", "timeslot"):
            if not value_equal(I, repo, b1.attrs.get(a), b2.attrs.get(a)):
                bad.append(f"{a}: {describe(I, b1.attrs.get(a))} / {describe(I, b2.attrs.get(a))}")
        for who, b in (("raw", b1), ("kaitai", b2)):
            t = b.attrs.get("_target_radio_id")
            if not (isinstance(t, AInt) and I.simp_bits(t.msb_first(24)) == I.simp_bits(byte(66) + byte(65) + byte(64))):
                bad.append(f"{who}: the burst's target id is not the frame's destination id ({describe(I, t)})")
            s_ = b.attrs.get("source_radio_id")
            if not (isinstance(s_, AInt) and I.simp_bits(s_.msb_first(24)) == I.simp_bits(byte(70) + byte(69) + byte(68))):
                bad.append(f"{who}: the burst's source id is not the frame's source id")
        # the decoded frame that stays attached to the burst still serialises to the received 72 octets
        fbad = []
        for who, b in (("raw", b1), ("kaitai", b2)):
            fr_ = b.attrs.get("hytera_ipsc")
            if not isinstance(fr_, AObj):
                fbad.append(f"{who}: no decoded frame attached to the burst")
                continue
            pl = fr_.attrs.get("payload")
            if not isinstance(pl, (ABits, bytes, bytearray)):
                fbad.append(f"{who}: the attached frame's payload is replaced by {describe(I, pl)} — serialising re-encodes the parsed burst instead of returning the received octets "
                            f"(a payload with FEC-correctable errors or non-canonical bits cannot be reproduced)")
                continue
            out = guarded(I, repo.find_method(fr_.cls, "as_ipsc_bytes"), fr_)
            ob = bits_of_any(I, out)
            wb = I.simp_bits(wire.items)
            if ob is None or len(ob) != len(wb):
                fbad.append(f"{who}: the attached frame serialises to {describe(I, out)}")
            else:
                diff = sorted({i // 8 for i, (x, y) in enumerate(zip(ob, wb)) if x != y})
                if diff:
                    fbad.append(f"{who}: the attached frame serialises with different octets {diff[:8]}")
        ctx.ob("ipsc/attached-frame", f"{fh.qualname} | path {n}: {b1.cls.name}", not fbad, "; ".join(fbad[:2]) or "burst.hytera_ipsc.as_ipsc_bytes() == the received 72 octets, by either decoder", fh.loc)
        slot = [l for l in taken if "from_hytera_ipsc" in l or "is_wakeup" in l or "is_vocoder" in l]
        ctx.ob("ipsc/burst-agree", f"{fh.qualname} | path {n}: {b1.cls.name}", not bad, "; ".join(bad[:3]) or f"same {b1.cls.name}, bits, type, sequence number, ids, timeslot", fh.loc)


def bits_of_any(I, v):
    if isinstance(v, ABits):
        return I.simp_bits(v.items)
    if isinstance(v, (bytes, bytearray)):
        return [F(0, (x >> (7 - k)) & 1) for x in v for k in range(8)]
    return None
