"""C06 — Hamming / Golay / QR block codes: matrix algebra (exhaustive) + how the matrices are used."""
from __future__ import annotations

import ast
import json
import pathlib

from sa import algebra as alg
from sa.linabs import AsList, EqConst, IndexOf, Lin, LinEval, Opaque
from sa.model import AnalysisError, ClassInfo, NPArr, Unfoldable

SPEC = pathlib.Path(__file__).resolve().parent.parent / "spec" / "fec_matrices.json"

# advertised (n, k, d) for the two classes that do not carry CODEWORD_LENGTH/... attributes: from the
# class docstring's ETSI clause name "Golay (20,8,7)" / "Quadratic residue (16,7,6)" (parsed, not frozen)
import re


def code_classes(repo):
    out = []
    for m in repo.modules.values():
        if not m.short.startswith("etsi.fec."):
            continue
        for c in m.classes.values():
            if "GENERATOR_MATRIX" in c.assigns:
                out.append(c)
    return sorted(out, key=lambda c: c.name)


def advertised(repo, ci: ClassInfo):
    """(n, k, d) as the class itself advertises them."""
    try:
        n = repo.class_const(ci, "CODEWORD_LENGTH")
        k = repo.class_const(ci, "CODE_DIMENSION")
        d = repo.class_const(ci, "MINIMUM_HAMMING_DISTANCE")
        return n, k, d, "attributes"
    except Unfoldable:
        pass
    doc = ast.get_docstring(ci.node) or ""
    m = re.search(r"\((\d+)\s*,\s*(\d+)\s*,\s*(\d+)\)", doc)
    if m:
        return int(m.group(1)), int(m.group(2)), int(m.group(3)), "docstring"
    m = re.search(r"(\d{2})(\d)(\d)$", ci.name)
    raise AnalysisError(f"{ci.qualname}: cannot determine advertised (n,k,d)")


def len_asserts(fi, param):
    """constants c of `assert len(<param>) == c` in a function (folded later by caller)"""
    out = []
    for st in fi.node.body:
        if isinstance(st, ast.Assert) and isinstance(st.test, ast.Compare) and len(st.test.ops) == 1 \
                and isinstance(st.test.ops[0], ast.Eq) and isinstance(st.test.left, ast.Call) \
                and ast.unparse(st.test.left.func) == "len" and ast.unparse(st.test.left.args[0]) == param:
            out.append(st.test.comparators[0])
    return out


def sym_param(fi):
    ps = fi.params
    if fi.kind in ("classmethod", "method"):
        ps = ps[1:]
    if len(ps) != 1:
        raise AnalysisError(f"{fi.qualname}: expected exactly one data parameter, got {ps}")
    return ps[0]


def run(ctx):
    repo = ctx.repo
    ctx.explanation = (
        "For each block-code class found in etsi/fec (those with a class-level GENERATOR_MATRIX) the generator "
        "matrix is constant-folded from the source and checked exhaustively with the checker's own GF(2) algebra "
        "(systematic form, rank, weight of all 2^k codewords, H=[P^T|I] as derived by the repository's helper "
        "(constexpr-inlined), G*H^T=0, distinct non-zero H columns, SEC-DED condition for (16,11,4)); then "
        "generate/check/check_and_correct are abstractly evaluated in a linear-map domain to decide that they "
        "multiply by exactly those matrices mod 2, compare with the all-zero syndrome, flip exactly the position "
        "whose H column equals the syndrome, and report failure when no column matches."
    )
    ctx.assumptions = [
        "numpy/bitarray operations behave as modelled (dot/@/T/%/divmod/array_equal/tolist/index/invert)",
        "pinned generator matrices in spec/fec_matrices.json are ETSI TS 102 361-1 B.3.1-B.3.5 (values on the tree that passed the algebraic checks)",
    ]
    ctx.rule("matrix/shape", "G is k x n with n,k,d as advertised by the class (attributes or docstring)")
    ctx.rule("matrix/systematic", "G = [I_k | P]")
    ctx.rule("matrix/rank", "rank(G) = k over GF(2) (2^k distinct codewords)")
    ctx.rule("matrix/min-distance", "every non-zero one of the 2^k codewords has weight >= advertised d (exhaustive)")
    ctx.rule("matrix/parity-check", "PARITY_CHECK_MATRIX (helper inlined on GENERATOR_MATRIX) = [P^T | I_{n-k}], G*H^T = 0, rank n-k")
    ctx.rule("matrix/syndrome", "CORRECT_SYNDROME is the all-zero vector of length n-k")
    ctx.rule("matrix/columns", "columns of H are non-zero and pairwise distinct (every single error has its own syndrome)")
    ctx.rule("matrix/sec-ded", "for d>=4: no two H columns sum to zero or to another column (double errors never mis-repaired)")
    ctx.rule("matrix/pinned", "G equals the pinned ETSI matrix by value")
    ctx.rule("use/generate", "generate(bits) returns (G^T * bits) mod 2 and asserts len(bits) == k")
    ctx.rule("use/check", "check(bits) returns [(H * bits) mod 2 == CORRECT_SYNDROME] and asserts len(bits) == n")
    ctx.rule("use/correct", "check_and_correct flips exactly position index(syndrome in columns of H), only when check fails, and returns (False, .) when no column matches")
    spec = json.loads(SPEC.read_text()) if SPEC.exists() else {}
    classes = code_classes(repo)
    for ci in classes:
        q = ci.qualname
        ctx.saw(file=ci.module.relpath, table=f"{q}.GENERATOR_MATRIX")
        try:
            G = repo.class_const(ci, "GENERATOR_MATRIX")
            H = repo.class_const(ci, "PARITY_CHECK_MATRIX")
            S = repo.class_const(ci, "CORRECT_SYNDROME")
        except Unfoldable as e:
            raise AnalysisError(f"{q}: matrix not foldable: {e}")
        if not isinstance(G, NPArr) or G.ndim != 2 or not isinstance(H, NPArr):
            raise AnalysisError(f"{q}: GENERATOR_MATRIX / PARITY_CHECK_MATRIX is not a 2-D array literal")
        n, k, d, src = advertised(repo, ci)
        Gd = [[v & 1 for v in r] for r in G.data]
        binary = all(v in (0, 1) for r in G.data for v in r)
        loc = ci.loc
        shape_ok = binary and len(Gd) == k and all(len(r) == n for r in Gd)
        ctx.ob("matrix/shape", q, shape_ok, f"G is {len(Gd)}x{len(Gd[0]) if Gd else 0}, advertised (n,k,d)=({n},{k},{d}) from {src}", loc)
        if not shape_ok:
            continue
        kk = len(Gd)
        sysm = all(Gd[i][j] == (1 if i == j else 0) for i in range(kk) for j in range(kk))
        ctx.ob("matrix/systematic", q, sysm, "left k columns of G must be the identity", loc)
        masks = alg.rows_to_masks(Gd)
        rk = alg.gf2_rank(masks)
        ctx.ob("matrix/rank", q, rk == k, f"rank {rk}, k={k}", loc)
        dist = alg.min_distance(masks)
        ctx.ob("matrix/min-distance", q, dist >= d, f"computed minimum weight over {2**k - 1} non-zero codewords = {dist}, advertised {d}", loc,
               facts={"weights": alg.weight_distribution(masks)})
        # parity-check matrix as the repository derives it vs my own derivation
        P = [r[kk:] for r in Gd]
        myH = [list(col) + [1 if i == j else 0 for j in range(n - kk)] for i, col in enumerate(zip(*P))]
        Hd = H.tolist()
        prod = alg.mat_mul_gf2(Gd, alg.transpose(Hd)) if Hd and len(Hd[0]) == n else None
        h_ok = Hd == myH and prod is not None and not any(any(r) for r in prod) and alg.gf2_rank(alg.rows_to_masks(Hd)) == n - kk
        ctx.ob("matrix/parity-check", q, h_ok, f"folded H is {len(Hd)}x{len(Hd[0]) if Hd else 0}; expected [P^T|I] {n - kk}x{n}", loc)
        Sl = S.tolist() if isinstance(S, NPArr) else S
        ctx.ob("matrix/syndrome", q, isinstance(Sl, list) and len(Sl) == n - kk and not any(Sl), f"CORRECT_SYNDROME={Sl}", loc)
        cols = [tuple(c) for c in zip(*Hd)]
        is_hamming = any(c.name == "HammingCommon" for c in repo.mro(ci))
        if is_hamming or d >= 3:
            distinct = len(set(cols)) == len(cols) and all(any(c) for c in cols)
            ctx.ob("matrix/columns", q, distinct, f"{len(cols)} columns, {len(set(cols))} distinct", loc)
        if is_hamming and d >= 4:
            colset = set(cols)
            bad = []
            for i in range(len(cols)):
                for j in range(i + 1, len(cols)):
                    s = tuple(a ^ b for a, b in zip(cols[i], cols[j]))
                    if not any(s) or s in colset:
                        bad.append((i, j))
            ctx.ob("matrix/sec-ded", q, not bad, f"{len(cols) * (len(cols) - 1) // 2} column pairs checked; offending pairs {bad[:5]}", loc)
        if ci.name in spec:
            ctx.ob("matrix/pinned", q, spec[ci.name]["G"] == G.tolist(), "generator matrix differs from the pinned ETSI value", loc)
        else:
            raise AnalysisError(f"{q}: no pinned generator matrix in {SPEC.name} (new code class?)")
        ctx.sample({"class": q, "n": n, "k": k, "d_advertised": d, "d_computed": dist, "rank": rk, "codewords_enumerated": 2 ** k})

        # ---------------- use of the matrices
        GT = [list(c) for c in zip(*Gd)]
        gen = repo.find_method(ci, "generate")
        chk = repo.find_method(ci, "check")
        if gen is None or chk is None:
            raise AnalysisError(f"{q}: generate/check not found")
        ctx.saw_func(gen)
        ctx.saw_func(chk)
        # generate
        p = sym_param(gen)
        le = LinEval(repo, gen, ci, p)
        rets = [s for s in ast.walk(gen.node) if isinstance(s, ast.Return)]
        if len(rets) != 1:
            raise AnalysisError(f"{gen.qualname}: expected one return")
        v = run_straight(le, gen, rets[0])
        if isinstance(v, Opaque):
            raise AnalysisError(f"{gen.qualname}: spelling not modelled: {v.why}")
        okg = isinstance(v, Lin) and v.mod == 2 and v.reduced() == GT
        la = [le.const(c) for c in len_asserts(gen, p)]
        ctx.ob("use/generate", q, okg and la == [k],
               f"generate returns {v!r}; must be (G^T x) mod 2 with G {k}x{n}; length asserts {la} (want [{k}])", gen.loc)
        # check
        p = sym_param(chk)
        le = LinEval(repo, chk, ci, p)
        rets = [s for s in ast.walk(chk.node) if isinstance(s, ast.Return)]
        if len(rets) != 1:
            raise AnalysisError(f"{chk.qualname}: expected one return")
        v = run_straight(le, chk, rets[0])
        if isinstance(v, Opaque):
            raise AnalysisError(f"{chk.qualname}: spelling not modelled: {v.why}")
        okc = isinstance(v, EqConst) and v.lin.mod == 2 and v.lin.reduced() == myH and list(v.const) == [0] * (n - kk)
        la = [le.const(c) for c in len_asserts(chk, p)]
        ctx.ob("use/check", q, okc and la == [n],
               f"check returns {type(v).__name__}; must be ((H x) mod 2 == 0-vector) with my own H {n - kk}x{n}; length asserts {la} (want [{n}])", chk.loc)
        # correction
        cac = repo.find_method(ci, "check_and_correct")
        if cac is not None:
            ctx.saw_func(cac)
            ok, why = analyse_correct(repo, ci, cac, myH)
            ctx.ob("use/correct", q, ok, why, cac.loc)
    ctx.require("matrix/min-distance", 7)
    ctx.require("use/generate", 7)
    ctx.require("use/check", 7)
    ctx.require("use/correct", 5)
    ctx.require("matrix/sec-ded", 1)


def run_straight(le: LinEval, fi, ret: ast.Return):
    """evaluate straight-line assignments preceding the return, then the return expression"""
    for st in fi.node.body:
        if st is ret:
            break
        if isinstance(st, ast.Assign) and len(st.targets) == 1 and isinstance(st.targets[0], ast.Name):
            le.env[st.targets[0].id] = le.ev(st.value)
        elif isinstance(st, ast.AnnAssign) and isinstance(st.target, ast.Name) and st.value is not None:
            le.env[st.target.id] = le.ev(st.value)
    return le.ev(ret.value)


def analyse_correct(repo, ci, fi, myH):
    """Structure of check_and_correct, see rule use/correct."""
    p = sym_param(fi)
    le = LinEval(repo, fi, ci, p)
    cols = [list(c) for c in zip(*myH)]
    member_vars = set()
    state = {"inverts": 0, "bad": []}

    def is_check_call(e):
        if isinstance(e, ast.Call) and isinstance(e.func, ast.Attribute) and e.func.attr == "check" \
                and len(e.args) == 1 and isinstance(e.args[0], ast.Name) and e.args[0].id == p:
            base = ast.unparse(e.func.value)
            return base in ("cls", "self", ci.name) or base in [c.name for c in repo.mro(ci)]
        return False

    def guard_is_not_member(test):
        if isinstance(test, ast.UnaryOp) and isinstance(test.op, ast.Not):
            t = test.operand
            return (isinstance(t, ast.Name) and t.id in member_vars) or is_check_call(t)
        if isinstance(test, ast.Compare) and len(test.ops) == 1 and isinstance(test.ops[0], (ast.Eq, ast.Is)) \
                and isinstance(test.comparators[0], ast.Constant) and test.comparators[0].value is False:
            t = test.left
            return (isinstance(t, ast.Name) and t.id in member_vars) or is_check_call(t)
        return False

    def walk(stmts, guarded, in_try):
        for st in stmts:
            if isinstance(st, (ast.Assign, ast.AnnAssign)):
                tgt = st.targets[0] if isinstance(st, ast.Assign) else st.target
                val = st.value
                if isinstance(tgt, ast.Name):
                    if is_check_call(val):
                        member_vars.add(tgt.id)
                    else:
                        member_vars.discard(tgt.id) if not (isinstance(val, ast.Constant) and val.value is True) else None
                        le.env[tgt.id] = le.ev(val)
                elif isinstance(tgt, ast.Subscript) and ast.unparse(tgt.value) == p:
                    state["bad"].append(f"line {st.lineno}: direct store into {p}[...]")
            elif isinstance(st, ast.If):
                g = guard_is_not_member(st.test)
                walk(st.body, guarded or g, in_try)
                walk(st.orelse, guarded, in_try)
            elif isinstance(st, ast.Try):
                handlers = st.handlers
                walk(st.body, guarded, (st, handlers))
                for h in handlers:
                    walk(h.body, guarded, in_try)
                walk(st.finalbody, guarded, in_try)
            elif isinstance(st, ast.Expr) and isinstance(st.value, ast.Call):
                c = st.value
                if isinstance(c.func, ast.Attribute) and isinstance(c.func.value, ast.Name) and c.func.value.id == p:
                    if c.func.attr == "invert":
                        state["inverts"] += 1
                        if len(c.args) != 1:
                            state["bad"].append(f"line {st.lineno}: invert() without a position flips every bit")
                            continue
                        v = le.ev(c.args[0])
                        if isinstance(v, Opaque):
                            raise AnalysisError(f"{fi.qualname}: flipped-position expression not modelled: {v.why}")
                        if not isinstance(v, IndexOf):
                            state["bad"].append(f"line {st.lineno}: flipped position is not <H columns>.index(syndrome): {v!r}")
                            continue
                        if [list(r) for r in v.haystack] != cols:
                            state["bad"].append(f"line {st.lineno}: index() searches a list that is not the column list of H")
                        if not (v.needle.mod == 2 and v.needle.reduced() == myH):
                            state["bad"].append(f"line {st.lineno}: searched value is not (H x) mod 2")
                        if not guarded:
                            state["bad"].append(f"line {st.lineno}: flip not guarded by a failed check({p})")
                        if not in_try:
                            state["bad"].append(f"line {st.lineno}: index() lookup not inside try/except")
                        else:
                            ok_h = False
                            for h in in_try[1]:
                                t = ast.unparse(h.type) if h.type is not None else "BaseException"
                                if t in ("ValueError", "Exception", "BaseException"):
                                    rets = [s for s in h.body if isinstance(s, ast.Return)]
                                    if rets and isinstance(rets[-1].value, ast.Tuple) and isinstance(rets[-1].value.elts[0], ast.Constant) \
                                            and rets[-1].value.elts[0].value is False:
                                        ok_h = True
                            if not ok_h:
                                state["bad"].append(f"line {st.lineno}: failed lookup is not turned into return (False, ...)")
                    elif c.func.attr in ("setall", "clear", "reverse", "bytereverse", "fill", "extend", "append", "pop", "insert", "remove", "sort"):
                        state["bad"].append(f"line {st.lineno}: {p}.{c.func.attr}() alters the word")
            elif isinstance(st, (ast.For, ast.While, ast.With)):
                walk(st.body, guarded, in_try)

    walk(fi.node.body, False, None)
    if state["inverts"] == 0:
        raise AnalysisError(f"{fi.qualname}: correction idiom not recognised (no {p}.invert(<index>) found)")
    if state["bad"]:
        return False, "; ".join(state["bad"])
    return True, f"{state['inverts']} flip site(s): position = columns(H).index((H x) mod 2), guarded by failed check, lookup failure -> (False, .)"
