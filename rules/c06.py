"""C06 — Hamming / Golay / QR block codes: matrix algebra (exhaustive) + how the matrices are used."""
from __future__ import annotations

import ast
import json
import pathlib

from sa import algebra as alg
from sa.bitabs import ABits, ACond, F, Interp, explore
from sa.model import AnalysisError, ClassInfo, ClassRef, NPArr, Unfoldable
from sa.wiring import multi_path, Misbehaves, single_path

SPEC = pathlib.Path(__file__).resolve().parent.parent / "spec" / "fec_matrices.json"

# advertised (n, k, d) for the two classes that do not carry CODEWORD_LENGTH/... attributes: from the
# class docstring's ETSI clause name "Golay (20,8,7)" / "Quadratic residue (16,7,6)" (parsed, not frozen)
import re


def code_classes(repo):
    out = []
    for m in repo.modules.values():
        if not m.short.startswith("etsi.fec."):
            continue
        for c in m.classes.values():
            if "GENERATOR_MATRIX" in c.assigns:
                out.append(c)
    return sorted(out, key=lambda c: c.name)


def advertised(repo, ci: ClassInfo):
    """(n, k, d) as the class itself advertises them."""
    try:
        n = repo.class_const(ci, "CODEWORD_LENGTH")
        k = repo.class_const(ci, "CODE_DIMENSION")
        d = repo.class_const(ci, "MINIMUM_HAMMING_DISTANCE")
        return n, k, d, "attributes"
    except Unfoldable:
        pass
    doc = ast.get_docstring(ci.node) or ""
    m = re.search(r"\((\d+)\s*,\s*(\d+)\s*,\s*(\d+)\)", doc)
    if m:
        return int(m.group(1)), int(m.group(2)), int(m.group(3)), "docstring"
    m = re.search(r"(\d{2})(\d)(\d)$", ci.name)
    raise AnalysisError(f"{ci.qualname}: cannot determine advertised (n,k,d)")


def len_asserts(fi, param):
    """constants c of `assert len(<param>) == c` in a function (folded later by caller)"""
    out = []
    for st in fi.node.body:
        if isinstance(st, ast.Assert) and isinstance(st.test, ast.Compare) and len(st.test.ops) == 1 \
                and isinstance(st.test.ops[0], ast.Eq) and isinstance(st.test.left, ast.Call) \
                and ast.unparse(st.test.left.func) == "len" and ast.unparse(st.test.left.args[0]) == param:
            out.append(st.test.comparators[0])
    return out


def sym_param(fi):
    ps = fi.params
    if fi.kind in ("classmethod", "method"):
        ps = ps[1:]
    if len(ps) != 1:
        raise AnalysisError(f"{fi.qualname}: expected exactly one data parameter, got {ps}")
    return ps[0]


def run(ctx):
    repo = ctx.repo
    ctx.explanation = (
        "For each block-code class found in etsi/fec (those with a class-level GENERATOR_MATRIX) the generator "
        "matrix is constant-folded from the source and checked exhaustively with the checker's own GF(2) algebra "
        "(systematic form, rank, weight of all 2^k codewords, H=[P^T|I] as derived by the repository's helper "
        "(constexpr-inlined), G*H^T=0, distinct non-zero H columns, SEC-DED condition for (16,11,4)); then "
        "the real generate/check/check_and_correct methods are analysed by abstract interpretation over GF(2)-affine "
        "forms of a symbolic message / received word (no summaries): generate(x)=x*G for all x, the acceptance "
        "condition of check is a linear system equivalent to H*w=0, check(generate(x)) is True, and for every error "
        "pattern (none, each single position, for (16,11,4) each pair) the result of check_and_correct is decided "
        "for all messages at once (syndromes of codeword+constant error are constants)."
    )
    ctx.assumptions = [
        "numpy/bitarray operations behave as modelled (dot/@/T/%/divmod/array_equal/tolist/index/invert)",
        "pinned generator matrices in spec/fec_matrices.json are ETSI TS 102 361-1 B.3.1-B.3.5 (values on the tree that passed the algebraic checks)",
    ]
    ctx.rule("matrix/shape", "G is k x n with n,k,d as advertised by the class (attributes or docstring)")
    ctx.rule("matrix/systematic", "G = [I_k | P]")
    ctx.rule("matrix/rank", "rank(G) = k over GF(2) (2^k distinct codewords)")
    ctx.rule("matrix/min-distance", "every non-zero one of the 2^k codewords has weight >= advertised d (exhaustive)")
    ctx.rule("matrix/parity-check", "PARITY_CHECK_MATRIX (helper inlined on GENERATOR_MATRIX) = [P^T | I_{n-k}], G*H^T = 0, rank n-k")
    ctx.rule("matrix/syndrome", "CORRECT_SYNDROME is the all-zero vector of length n-k")
    ctx.rule("matrix/columns", "columns of H are non-zero and pairwise distinct (every single error has its own syndrome)")
    ctx.rule("matrix/sec-ded", "for d>=4: no two H columns sum to zero or to another column (double errors never mis-repaired)")
    ctx.rule("matrix/pinned", "G equals the pinned ETSI matrix by value")
    ctx.rule("use/generate", "generate(x) = x*G (mod 2) for ALL 2^k messages (abstract interpretation of the real method), and inputs of k-1 / k+1 bits are rejected")
    ctx.rule("use/check", "check(w) accepts exactly the codewords: its acceptance condition is a linear system with the same solution space as H*w = 0 (rank n-k); n-1 / n+1 bit words are rejected")
    ctx.rule("use/generate-passes-check", "check(generate(x)) is True for all x")
    ctx.rule("use/correct", "check_and_correct: an error-free codeword is returned unaltered with status True; every single inverted bit is repaired to the original for all messages; for d>=4 every double error returns status False")
    spec = json.loads(SPEC.read_text()) if SPEC.exists() else {}
    classes = code_classes(repo)
    for ci in classes:
        q = ci.qualname
        ctx.saw(file=ci.module.relpath, table=f"{q}.GENERATOR_MATRIX")
        try:
            G = repo.class_const(ci, "GENERATOR_MATRIX")
            H = repo.class_const(ci, "PARITY_CHECK_MATRIX")
            S = repo.class_const(ci, "CORRECT_SYNDROME")
        except Unfoldable as e:
            raise AnalysisError(f"{q}: matrix not foldable: {e}")
        if not isinstance(G, NPArr) or G.ndim != 2 or not isinstance(H, NPArr):
            raise AnalysisError(f"{q}: GENERATOR_MATRIX / PARITY_CHECK_MATRIX is not a 2-D array literal")
        n, k, d, src = advertised(repo, ci)
        Gd = [[v & 1 for v in r] for r in G.data]
        binary = all(v in (0, 1) for r in G.data for v in r)
        loc = ci.loc
        shape_ok = binary and len(Gd) == k and all(len(r) == n for r in Gd)
        ctx.ob("matrix/shape", q, shape_ok, f"G is {len(Gd)}x{len(Gd[0]) if Gd else 0}, advertised (n,k,d)=({n},{k},{d}) from {src}", loc)
        if not shape_ok:
            continue
        kk = len(Gd)
        sysm = all(Gd[i][j] == (1 if i == j else 0) for i in range(kk) for j in range(kk))
        ctx.ob("matrix/systematic", q, sysm, "left k columns of G must be the identity", loc)
        masks = alg.rows_to_masks(Gd)
        rk = alg.gf2_rank(masks)
        ctx.ob("matrix/rank", q, rk == k, f"rank {rk}, k={k}", loc)
        dist = alg.min_distance(masks)
        ctx.ob("matrix/min-distance", q, dist >= d, f"computed minimum weight over {2**k - 1} non-zero codewords = {dist}, advertised {d}", loc,
               facts={"weights": alg.weight_distribution(masks)})
        # parity-check matrix as the repository derives it vs my own derivation
        P = [r[kk:] for r in Gd]
        myH = [list(col) + [1 if i == j else 0 for j in range(n - kk)] for i, col in enumerate(zip(*P))]
        Hd = H.tolist()
        prod = alg.mat_mul_gf2(Gd, alg.transpose(Hd)) if Hd and len(Hd[0]) == n else None
        h_ok = Hd == myH and prod is not None and not any(any(r) for r in prod) and alg.gf2_rank(alg.rows_to_masks(Hd)) == n - kk
        ctx.ob("matrix/parity-check", q, h_ok, f"folded H is {len(Hd)}x{len(Hd[0]) if Hd else 0}; expected [P^T|I] {n - kk}x{n}", loc)
        Sl = S.tolist() if isinstance(S, NPArr) else S
        ctx.ob("matrix/syndrome", q, isinstance(Sl, list) and len(Sl) == n - kk and not any(Sl), f"CORRECT_SYNDROME={Sl}", loc)
        cols = [tuple(c) for c in zip(*Hd)]
        is_hamming = any(c.name == "HammingCommon" for c in repo.mro(ci))
        if is_hamming or d >= 3:
            distinct = len(set(cols)) == len(cols) and all(any(c) for c in cols)
            ctx.ob("matrix/columns", q, distinct, f"{len(cols)} columns, {len(set(cols))} distinct", loc)
        if is_hamming and d >= 4:
            colset = set(cols)
            bad = []
            for i in range(len(cols)):
                for j in range(i + 1, len(cols)):
                    s = tuple(a ^ b for a, b in zip(cols[i], cols[j]))
                    if not any(s) or s in colset:
                        bad.append((i, j))
            ctx.ob("matrix/sec-ded", q, not bad, f"{len(cols) * (len(cols) - 1) // 2} column pairs checked; offending pairs {bad[:5]}", loc)
        if ci.name in spec:
            ctx.ob("matrix/pinned", q, spec[ci.name]["G"] == G.tolist(), "generator matrix differs from the pinned ETSI value", loc)
        else:
            raise AnalysisError(f"{q}: no pinned generator matrix in {SPEC.name} (new code class?)")
        ctx.sample({"class": q, "n": n, "k": k, "d_advertised": d, "d_computed": dist, "rank": rk, "codewords_enumerated": 2 ** k})

        # ---------------- use of the matrices: semantic, by abstract interpretation of the real methods
        with ctx.guard(f"{q}: use of the matrices"):
            use_rules(ctx, ci, Gd, myH, n, k, d, is_hamming)
    ctx.require("matrix/min-distance", 7)
    ctx.require("use/generate", 7)
    ctx.require("use/check", 7)
    ctx.require("use/correct", 5)
    ctx.require("use/generate-passes-check", 7)
    ctx.require("matrix/sec-ded", 1)


def _interp(repo):
    """interpreter WITHOUT the block-code summaries: the real generate/check/check_and_correct are analysed"""
    I = Interp(repo)
    for key in list(I.summaries):
        if key.startswith("etsi.fec."):
            del I.summaries[key]
    return I


def _call(I, fi, ci, args, kw=None):
    a = list(args)
    if fi.kind == "classmethod":
        a = [ClassRef(ci)] + a
    return I.call(fi, a, kw or {}, ci)


def codeword_forms(I, Gd, name="x"):
    k, n = len(Gd), len(Gd[0])
    x = [I.atom_form((name, i)) for i in range(k)]
    out = []
    for j in range(n):
        acc = F(0, 0)
        for i in range(k):
            if Gd[i][j]:
                acc = acc ^ x[i]
        out.append(acc)
    return out


def lin_rank(forms):
    """rank of affine forms as vectors (atoms + constant column)"""
    return alg.gf2_rank([(f.m << 1) | f.c for f in forms])


def use_rules(ctx, ci, Gd, myH, n, k, d, is_hamming):
    repo = ctx.repo
    q = ci.qualname
    gen = repo.find_method(ci, "generate")
    chk = repo.find_method(ci, "check")
    if gen is None or chk is None:
        raise AnalysisError(f"{q}: generate/check not found")
    ctx.saw_func(gen)
    ctx.saw_func(chk)
    # ---- generate: for all 2^k messages the output is x*G; wrong lengths are rejected
    I = _interp(repo)

    def run_gen(st):
        I.st = st
        return _call(I, gen, ci, [I.wire("x", k)])

    try:
        # the implementation may take several routes depending on the message (bit tricks, table look-ups): every path must give
        # x*G, compared modulo what the path knows about x
        paths = multi_path(I, run_gen, f"{gen.qualname}", max_paths=5000)
        okg, detail = True, f"generate(x) = x*G (mod 2) for all x ({len(paths)} path(s))"
        for st, out in paths:
            I.st = st
            bits = Frame_bits(out)
            want = codeword_forms(I, Gd)
            diff = [i for i, (a, b) in enumerate(zip(bits, want)) if not (isinstance(I.simp(a ^ b), F) and I.simp(a ^ b).is_const and I.simp(a ^ b).c == 0)] if len(bits) == len(want) else None
            if diff is None or diff:
                okg = False
                detail = f"generate(x) returns {len(bits)} forms; differs from x*G at positions {(diff or [])[:8]} on path {st.labels[-2:]}"
                break
    except Misbehaves as e:
        okg, detail = False, str(e)
    lens_ok = True
    for wrong in (k - 1, k + 1):
        I2 = _interp(repo)

        def run_w(st, wrong=wrong):
            I2.st = st
            return _call(I2, gen, ci, [I2.wire("x", wrong)])

        res = explore(run_w)
        if not all(kind == "raise" for _, (kind, _) in res):
            lens_ok = False
    ctx.ob("use/generate", q, okg and lens_ok, detail + ("" if lens_ok else f"; a {k - 1}- or {k + 1}-bit input is not rejected"), gen.loc)

    # ---- check: accepts exactly the codewords
    I3 = _interp(repo)

    def run_chk(st):
        I3.st = st
        return _call(I3, chk, ci, [I3.wire("w", n)])

    res = explore(run_chk)
    accept = []
    accept_diseq = []
    excluded = []
    for st, (kind, v) in res:
        if kind == "abort":
            raise AnalysisError(f"{chk.qualname}: {v}")
        if kind == "raise":
            continue
        I3.st = st
        cons = []
        path_diseq = []
        for key, const, eq in st.eqs:
            if not eq:
                # the path has excluded one value of some bits (`if not word.any(): return False`): on an accepting path that
                # removes words from the accepted set — a violation when a codeword is among them
                if v is False:
                    continue
                w = len(key)
                if w == n and all(isinstance(f, F) and f == I3.atom_form(("w", i)) for i, f in enumerate(key)):
                    word = [(const >> (w - 1 - i)) & 1 for i in range(w)]
                    path_diseq.append(word)
                    if all(sum(h * b for h, b in zip(row, word)) % 2 == 0 for row in myH):
                        excluded.append("".join(map(str, word)))
                    continue
                raise AnalysisError(f"{chk.qualname}: an accepting path excludes a value of part of the word (not modelled)")
            w = len(key)
            for i, f in enumerate(key):
                cons.append(f ^ ((const >> (w - 1 - i)) & 1))
        if v is True:
            accept.append(cons)
            accept_diseq.append(path_diseq)
        elif isinstance(v, ACond) and v.kind == "eqseq":
            a, b = v.parts
            accept.append(cons + [x ^ y for x, y in zip(a.items, b.items)])
            accept_diseq.append(path_diseq)
        elif v is False or (isinstance(v, ACond) and v.kind == "not"):
            if isinstance(v, ACond):
                raise AnalysisError(f"{chk.qualname}: negated structural condition not modelled")
            continue
        else:
            raise AnalysisError(f"{chk.qualname}: result {v!r} not modelled")
    wforms = [I3.raw_atom(("w", i)) for i in range(n)]   # not rewritten by the constraints of whichever path was explored last
    syn = []
    for row in myH:
        acc = F(0, 0)
        for i, h in enumerate(row):
            if h:
                acc = acc ^ wforms[i]
        syn.append(acc)
    if not accept:
        okc, detail = False, "check accepts nothing"
    elif len(accept) > 1:
        # several accepting paths (special cases, early returns): the paths are disjoint, each accepts an affine set minus the
        # single words its path has excluded; every such set must lie in the code and their sizes must add up to 2^k
        total, outside = 0, []
        for cons_i, dq_i in zip(accept, accept_diseq):
            if any(not isinstance(c, F) for c in cons_i):
                raise AnalysisError(f"{chk.qualname}: opaque acceptance condition")
            r_h = alg.gf2_rank([f.m for f in cons_i])
            if lin_rank(cons_i) != r_h:
                continue                                   # contradictory conditions: the path accepts nothing
            if lin_rank(cons_i + syn) != lin_rank(cons_i):
                outside.append(f"a path accepts words outside the code (its {len(cons_i)} conditions do not imply H*w = 0)")
            size = 1 << (n - r_h)
            seen_w = set()
            for word in dq_i:
                asg = {i: b for i, b in enumerate(word)}
                sat = True
                for f in cons_i:
                    val = f.c
                    for a_ in f.atoms():
                        nm = I3.atoms.names[a_]
                        val ^= asg[nm[1]] if isinstance(nm, tuple) and nm[0] == "w" else 0
                    if val:
                        sat = False
                        break
                if sat and tuple(word) not in seen_w:
                    seen_w.add(tuple(word))
                    size -= 1
            total += size
        okc = not outside and total == (1 << k)
        detail = (f"{len(accept)} accepting paths accept {total} words in all (the code has 2^{k} = {1 << k}); " + ("; ".join(outside[:2]) if outside else ("exactly the codewords" if okc else "the accepted set is NOT the code")))
    else:
        cons = [c for c in accept[0] if isinstance(c, F)]
        if len(cons) != len(accept[0]):
            raise AnalysisError(f"{chk.qualname}: opaque acceptance condition")
        r_c, r_s, r_both = lin_rank(cons), lin_rank(syn), lin_rank(cons + syn)
        okc = r_c == r_s == r_both == n - k and not excluded
        detail = (f"acceptance condition has rank {r_c}, the syndrome equations rank {r_s}, together {r_both} (need all = n-k = {n - k}): "
                  + ("checker accepts exactly the 2^k codewords" if okc else "the checker's accepted set is NOT the code" + (f" (accepts 2^{n - r_c} words)" if r_c < n - k else ""))
                  + (f"; the codeword(s) {excluded[:3]} are rejected by a special case" if excluded else ""))
    lens_ok = True
    for wrong in (n - 1, n + 1):
        I4 = _interp(repo)

        def run_w2(st, wrong=wrong):
            I4.st = st
            return _call(I4, chk, ci, [I4.wire("w", wrong)])

        if not all(kind == "raise" for _, (kind, _) in explore(run_w2)):
            lens_ok = False
    ctx.ob("use/check", q, bool(okc) and lens_ok, detail + ("" if lens_ok else f"; a {n - 1}- or {n + 1}-bit word is not rejected"), chk.loc)

    # ---- every generated word passes the checker (composition, all messages)
    I5 = _interp(repo)

    def run_gc(st):
        I5.st = st
        cw = _call(I5, gen, ci, [I5.wire("x", k)])
        return _call(I5, chk, ci, [ABits(Frame_bits(cw), "ba")])

    try:
        paths = multi_path(I5, run_gc, f"{q}: check(generate(x))")
        notrue = [(st, v) for st, v in paths if v is not True]
        for st, v in notrue:
            if v is not False:
                raise AnalysisError(f"{q}: check(generate(x)) evaluates to {v!r} on path {st.labels[-2:]} (not modelled)")
        ctx.ob("use/generate-passes-check", q, not notrue, f"check(generate(x)) over {len(paths)} path(s): " + ("True for all x" if not notrue else f"False on path {notrue[0][0].labels[-2:]}"), chk.loc)
    except Misbehaves as e:
        ctx.ob("use/generate-passes-check", q, False, str(e), chk.loc)

    # ---- correction
    cac = repo.find_method(ci, "check_and_correct")
    if cac is None:
        return
    ctx.saw_func(cac)
    bad = []
    n_runs = 0
    patterns = [()] + [(i,) for i in range(n)]
    if d >= 4:
        patterns += [(i, j) for i in range(n) for j in range(i + 1, n)]
    for pat in patterns:
        I6 = _interp(repo)

        def run_c(st, pat=pat):
            I6.st = st
            cw = codeword_forms(I6, Gd)
            rx = list(cw)
            for p in pat:
                rx[p] = rx[p] ^ 1
            arg = ABits(rx, "ba")
            r = _call(I6, cac, ci, [arg])
            return cw, r, arg

        res = explore(run_c)
        n_runs += 1
        if any(kd == "abort" for _, (kd, _) in res):
            raise AnalysisError(f"{ci.qualname}.check_and_correct, error pattern {pat}: " + "; ".join(f"{kd}:{vv}" for _, (kd, vv) in res)[:200])
        if not res or any(kd != "ok" for _, (kd, _) in res):
            bad.append((pat, "paths: " + "; ".join(f"{kd}:{vv}" for _, (kd, vv) in res if kd != "ok")[:120]))
            continue
        # the code may take several routes depending on the message (special cases): every path is judged, modulo what it knows
        for st6, (_, (cw, r, arg)) in res:
            I6.st = st6
            if not (isinstance(r, tuple) and len(r) == 2):
                bad.append((pat, f"returns {r!r}"))
                break
            status, word = r
            wb = Frame_bits(word) if isinstance(word, (ABits,)) else None
            same = wb is not None and len(wb) == len(cw) and all(isinstance(I6.simp(x ^ y), F) and I6.simp(x ^ y).is_const and I6.simp(x ^ y).c == 0 for x, y in zip(wb, cw))
            if len(pat) <= 1:
                if status is not True or not same:
                    bad.append((pat, f"status={status!r}, word {'restored' if same else 'NOT the original codeword'}" + (f" on path {st6.labels[-1:]}" if len(res) > 1 else "")))
                    break
            else:
                if status is not False:
                    bad.append((pat, f"double error reported as status={status!r}" + (" and mis-repaired" if not same else "")))
                    break
    ctx.ob("use/correct", q, not bad,
           f"{n_runs} error patterns (none, all {n} single" + (f", all {n * (n - 1) // 2} double" if d >= 4 else "") + f") analysed for all 2^{k} messages at once; failing: {bad[:4]}", cac.loc)


def Frame_bits(v):
    from sa.bitabs import AView
    if isinstance(v, ABits):
        return list(v.items)
    if isinstance(v, AView):
        return v.get()
    raise AnalysisError(f"expected a bit vector, got {v!r}")
