"""C02 — BPTC(196,96): interleave table, component codes, encode/extract wiring, repair of every error pattern of weight <= 2."""
from __future__ import annotations

import ast

from sa.model import AnalysisError, Unfoldable
from sa import wiring

MOD = "etsi.fec.bptc_196_96"


def run(ctx):
    repo = ctx.repo
    ci = repo.cls(MOD, "BPTC19696")
    q = ci.qualname
    ctx.explanation = (
        "The 196-entry interleave table and the four derived maps are constant-folded from the source and "
        "checked exhaustively against the ETSI B.1.1 formula (index*181 mod 196, row-major 13x15 placement, "
        "reserved/Hamming flags, 96 information positions, mutual inverses).  encode / fill_encoding_table / "
        "deinterleave_data_bits / deinterleave_all_bits are then analysed by the array-provenance analysis "
        "(copy loops over the folded tables are summarised as index maps; Hamming generate is systematic by C06) "
        "to decide, for all 2^96 messages at once, that output position il(i) carries message bit i and that the "
        "extractor reads message bit i from il(i); component-code dimensions are cross-checked with C06's classes."
    )
    ctx.assumptions = [
        "C06 holds (Hamming generators are systematic: first k outputs equal the inputs)",
        "numpy/bitarray subscript semantics as modelled in sa/prov.py",
        "repair clause: one abstract run per error pattern (finite case split over the 19,306 patterns of weight <= 2; quick tier: the 196 single errors, all pairs in one matrix row or column, the pad bit pairs and every 17th other pair); each run has the MESSAGE symbolic",
    ]
    ctx.saw(file=ci.module.relpath, table=f"{q}.INTERLEAVING_INDICES")
    try:
        T = repo.class_const(ci, "INTERLEAVING_INDICES")
        FI = repo.class_const(ci, "FULL_INTERLEAVING_MAP")
        FD = repo.class_const(ci, "FULL_DEINTERLEAVING_MAP")
        DI = repo.class_const(ci, "DEINTERLEAVE_INFO_BITS_ONLY_MAP")
        II = repo.class_const(ci, "INTERLEAVE_INFO_BITS_ONLY_MAP")
    except Unfoldable as e:
        raise AnalysisError(f"{q}: table not foldable: {e}")
    loc = ci.loc
    ctx.rule("table/keys", "INTERLEAVING_INDICES has exactly the keys 0..195")
    ctx.rule("table/interleave-formula", "interleave index of key k is k*181 mod 196 (ETSI B.1.1) — hence a bijection")
    ctx.rule("table/placement", "keys 1..195 are placed row-major on the 13x15 matrix: row=(k-1)//15+1, col=(k-1)%15; key 0 is the unplaced pad bit R(3)")
    ctx.rule("table/flags", "reserved <=> key in 0..3; hamming <=> col >= 11 or row >= 10 (for placed keys)")
    ctx.rule("table/info-count", "exactly 96 positions are neither reserved nor hamming")
    ctx.rule("table/derived-maps", "the four derived maps are what the table says and FULL_* are mutual inverses; DEINTERLEAVE_INFO_BITS_ONLY_MAP lists the info positions in key order")
    ctx.ob("table/keys", q, sorted(T.keys()) == list(range(196)), f"{len(T)} keys", loc)
    bad = [k for k, v in T.items() if v[0] != (k * 181) % 196]
    ctx.ob("table/interleave-formula", q, not bad, f"keys with a wrong interleave index: {bad[:8]}", loc, facts={k: T[k] for k in bad[:8]})
    bad = [k for k, v in T.items() if k >= 1 and (v[1], v[2]) != ((k - 1) // 15 + 1, (k - 1) % 15)]
    if 0 in T and (T[0][1], T[0][2]) != (0, 0):
        bad.append(0)
    ctx.ob("table/placement", q, not bad, f"keys placed off the row-major position: {bad[:8]}", loc)
    bad = []
    for k, v in T.items():
        res = k <= 3
        ham = k >= 1 and (v[2] >= 11 or v[1] >= 10)
        if bool(v[3]) != res or bool(v[4]) != ham:
            bad.append(k)
    ctx.ob("table/flags", q, not bad, f"keys with wrong reserved/hamming flags: {bad[:8]}", loc)
    info = [k for k, v in sorted(T.items()) if not v[3] and not v[4]]
    ctx.ob("table/info-count", q, len(info) == 96, f"{len(info)} information positions", loc)
    ok = (FI == {k: v[0] for k, v in T.items()} and FD == {v[0]: k for k, v in T.items()}
          and all(FD.get(FI[k]) == k for k in FI) and len(FD) == 196
          and DI == {i: T[k][0] for i, k in enumerate(info)}
          and II == {i: k for i, k in enumerate(info)})
    ctx.ob("table/derived-maps", q, ok, "derived maps disagree with INTERLEAVING_INDICES", loc)
    ctx.sample({"table": "INTERLEAVING_INDICES", "entries": len(T), "first_info_key": info[0] if info else None, "T[4]": list(T.get(4, ()))})

    # ---------------- component codes and wiring (array-provenance analysis)
    wiring.check_bptc19696(ctx, ci, T, info)
    repair_rules(ctx, ci, T)
    ctx.require("table/interleave-formula", 1)
    ctx.require("wiring/encode-systematic", 1)
    ctx.require("wiring/extract", 1)
    ctx.require("repair/corrects-weight-le-2", 4)


# ------------------------------------------------------------------------------------------------ repair clause
def repair_rules(ctx, ci, T):
    """decode(encode(m) ^ e) == m for every error pattern e of weight <= 2, decided per pattern for all 2^96 messages at once:
    encode is interpreted on 96 message atoms, the pattern's positions are inverted, the real deinterleave_data_bits
    (repair on: row / column Hamming corrections in the order the source runs them, write-back through the interleaver) is
    interpreted on that word; every syndrome is then a constant (the message part cancels, rows and columns are codewords),
    so each run is one path, and output bit i must be exactly message atom i."""
    import itertools
    import os
    from concurrent.futures import ProcessPoolExecutor
    repo = ctx.repo
    ctx.rule("repair/corrects-weight-le-2", "for every error pattern of weight 1 or 2 (class by class) the decoder with repair returns exactly the encoded message, for all 2^96 messages")
    pos = {}   # tx position -> (row, col) or None for the pad bit
    for k, v in T.items():
        pos[v[0]] = (v[1], v[2]) if k >= 1 else None
    singles = [(p,) for p in range(196)]
    pairs = list(itertools.combinations(range(196), 2))

    def klass(e):
        if len(e) == 1:
            return "single errors"
        a, b = pos[e[0]], pos[e[1]]
        if a is None or b is None:
            return "pairs with the pad bit R(3)"
        if a[0] == b[0]:
            return "pairs in one matrix row"
        if a[1] == b[1]:
            return "pairs in one matrix column"
        return "pairs in different rows and columns"
    todo = list(singles)
    other_n = 0
    for e in pairs:
        k = klass(e)
        if k == "pairs in different rows and columns" and ctx.tier == "quick":
            other_n += 1
            if other_n % 17:
                continue
        todo.append(e)
    ctx.extra["error_patterns_analysed"] = len(todo)
    ctx.extra["error_patterns_total"] = len(singles) + len(pairs)
    chunks = [todo[i:i + 40] for i in range(0, len(todo), 40)]
    with ProcessPoolExecutor(max_workers=min(16, os.cpu_count() or 4)) as ex:
        results = list(ex.map(_repair_worker, [(str(repo.root), c) for c in chunks]))
    by = {}
    for chunk, res in zip(chunks, results):
        for e, (why, err) in zip(chunk, res):
            d = by.setdefault(klass(e), {"n": 0, "bad": [], "err": []})
            d["n"] += 1
            if err:
                d["err"].append(f"{e}: {err}")
            elif why:
                d["bad"].append((e, why))
    rep = repo.find_method(ci, "repair_if_necessary")
    for k, d in sorted(by.items()):
        if d["err"] and not d["bad"]:
            ctx.analysis_errors.append(f"repair clause, {k}: {d['err'][0]}")
            continue
        ctx.ob("repair/corrects-weight-le-2", f"{ci.qualname} | {k}", not d["bad"],
               f"{d['n']} patterns, message symbolic; " + (f"{len(d['bad'])} patterns decode to another message, e.g. inverted on-air bits " +
                                                           "; ".join(f"{'+'.join(map(str, e))} (matrix cells {[pos[x] for x in e]}): {why}" for e, why in d["bad"][:3]) if d["bad"] else "all corrected"),
               rep.loc, facts={"patterns": d["n"], "failing": len(d["bad"]), "first_failing": [list(e) for e, _ in d["bad"][:10]]})


_RR = {}


def _repair_worker(task):
    root, chunk = task
    from sa.bitabs import ABits, F, Interp, explore
    from sa.model import Repo
    if root not in _RR:
        repo = Repo(root)
        ci = repo.cls(MOD, "BPTC19696")
        _RR[root] = (repo, repo.find_method(ci, "encode"), repo.find_method(ci, "deinterleave_data_bits"))
    repo, enc, ext = _RR[root]
    out = []
    for e in chunk:
        try:
            I = Interp(repo)
            I.interpret_constant_syndromes = True   # the real check_and_correct decides which bit a known syndrome inverts

            def run(st, e=e):
                I.st = st
                cw = I.call(enc, [I.wire("m", 96)], {})
                items = list(cw.items)
                for p in e:
                    items[p] = items[p] ^ F(0, 1)
                return I.call(ext, [ABits(items, cw.kind)], {"repair_if_necessary": True})
            res = explore(run, max_paths=4)
            why = None
            for st, (k, v) in res:
                I.st = st
                if k == "abort":
                    raise AnalysisError(f"pattern {e}: {v}")
                if k != "ok":
                    why = f"{k}: {v}"
                    break
                if not isinstance(v, ABits) or len(v.items) != 96:
                    why = f"decoder returns {v!r}"
                    break
                wrong = [i for i in range(96) if I.simp(v.items[i]) != I.simp(I.atom_form(("m", i)))]
                if wrong:
                    why = f"message bits {wrong[:4]} wrong"
                    break
            out.append((why, None))
        except AnalysisError as ex:
            out.append((None, str(ex)))
        except Exception as ex:
            out.append((None, f"{type(ex).__name__}: {ex}"))
    return out
