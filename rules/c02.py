"""C02 — BPTC(196,96): interleave table, component codes, encode/extract wiring (repair schedule NOT decided)."""
from __future__ import annotations

import ast

from sa.model import AnalysisError, Unfoldable
from sa import wiring

MOD = "etsi.fec.bptc_196_96"


def run(ctx):
    repo = ctx.repo
    ci = repo.cls(MOD, "BPTC19696")
    q = ci.qualname
    ctx.explanation = (
        "The 196-entry interleave table and the four derived maps are constant-folded from the source and "
        "checked exhaustively against the ETSI B.1.1 formula (index*181 mod 196, row-major 13x15 placement, "
        "reserved/Hamming flags, 96 information positions, mutual inverses).  encode / fill_encoding_table / "
        "deinterleave_data_bits / deinterleave_all_bits are then analysed by the array-provenance analysis "
        "(copy loops over the folded tables are summarised as index maps; Hamming generate is systematic by C06) "
        "to decide, for all 2^96 messages at once, that output position il(i) carries message bit i and that the "
        "extractor reads message bit i from il(i); component-code dimensions are cross-checked with C06's classes."
    )
    ctx.assumptions = [
        "C06 holds (Hamming generators are systematic: first k outputs equal the inputs)",
        "numpy/bitarray subscript semantics as modelled in sa/prov.py",
        "the error-correction schedule of repair_if_necessary is NOT decided (runtime syndromes)",
    ]
    ctx.saw(file=ci.module.relpath, table=f"{q}.INTERLEAVING_INDICES")
    try:
        T = repo.class_const(ci, "INTERLEAVING_INDICES")
        FI = repo.class_const(ci, "FULL_INTERLEAVING_MAP")
        FD = repo.class_const(ci, "FULL_DEINTERLEAVING_MAP")
        DI = repo.class_const(ci, "DEINTERLEAVE_INFO_BITS_ONLY_MAP")
        II = repo.class_const(ci, "INTERLEAVE_INFO_BITS_ONLY_MAP")
    except Unfoldable as e:
        raise AnalysisError(f"{q}: table not foldable: {e}")
    loc = ci.loc
    ctx.rule("table/keys", "INTERLEAVING_INDICES has exactly the keys 0..195")
    ctx.rule("table/interleave-formula", "interleave index of key k is k*181 mod 196 (ETSI B.1.1) — hence a bijection")
    ctx.rule("table/placement", "keys 1..195 are placed row-major on the 13x15 matrix: row=(k-1)//15+1, col=(k-1)%15; key 0 is the unplaced pad bit R(3)")
    ctx.rule("table/flags", "reserved <=> key in 0..3; hamming <=> col >= 11 or row >= 10 (for placed keys)")
    ctx.rule("table/info-count", "exactly 96 positions are neither reserved nor hamming")
    ctx.rule("table/derived-maps", "the four derived maps are what the table says and FULL_* are mutual inverses; DEINTERLEAVE_INFO_BITS_ONLY_MAP lists the info positions in key order")
    ctx.ob("table/keys", q, sorted(T.keys()) == list(range(196)), f"{len(T)} keys", loc)
    bad = [k for k, v in T.items() if v[0] != (k * 181) % 196]
    ctx.ob("table/interleave-formula", q, not bad, f"keys with a wrong interleave index: {bad[:8]}", loc, facts={k: T[k] for k in bad[:8]})
    bad = [k for k, v in T.items() if k >= 1 and (v[1], v[2]) != ((k - 1) // 15 + 1, (k - 1) % 15)]
    if 0 in T and (T[0][1], T[0][2]) != (0, 0):
        bad.append(0)
    ctx.ob("table/placement", q, not bad, f"keys placed off the row-major position: {bad[:8]}", loc)
    bad = []
    for k, v in T.items():
        res = k <= 3
        ham = k >= 1 and (v[2] >= 11 or v[1] >= 10)
        if bool(v[3]) != res or bool(v[4]) != ham:
            bad.append(k)
    ctx.ob("table/flags", q, not bad, f"keys with wrong reserved/hamming flags: {bad[:8]}", loc)
    info = [k for k, v in sorted(T.items()) if not v[3] and not v[4]]
    ctx.ob("table/info-count", q, len(info) == 96, f"{len(info)} information positions", loc)
    ok = (FI == {k: v[0] for k, v in T.items()} and FD == {v[0]: k for k, v in T.items()}
          and all(FD.get(FI[k]) == k for k in FI) and len(FD) == 196
          and DI == {i: T[k][0] for i, k in enumerate(info)}
          and II == {i: k for i, k in enumerate(info)})
    ctx.ob("table/derived-maps", q, ok, "derived maps disagree with INTERLEAVING_INDICES", loc)
    ctx.sample({"table": "INTERLEAVING_INDICES", "entries": len(T), "first_info_key": info[0] if info else None, "T[4]": list(T.get(4, ()))})

    # ---------------- component codes and wiring (array-provenance analysis)
    wiring.check_bptc19696(ctx, ci, T, info)
    ctx.require("table/interleave-formula", 1)
    ctx.require("wiring/encode-systematic", 1)
    ctx.require("wiring/extract", 1)
