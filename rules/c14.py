"""C14 — MBXML variable-length integers: writer canonical, reader inverse, for ALL values (integer clauses only).

Decided: the uintvar and sintvar clauses, for every unsigned value 0..2^32-1 and every signed value of magnitude up to
2^31-1, by abstract interpretation of the real write_*/read_* functions on a 32-bit (31-bit) SYMBOLIC integer.  The
writer builds its output from bin(value): the number of digits depends on the value, so the analysis forks on the
position of the leading one (one path per bit length, 32 / 31 paths + zero); below the leading one every bit stays a
symbol, so each path decides 2^(L-1) values at once.  On each path: the number of octets is the shortest possible, the
continuation bits are 1..1 0, the leading septet is not empty; the reader applied to (prefix | written octets | trailing
octets), with prefix and trailer symbolic, returns exactly the value's bits, the sign, and the index just past the
written octets.  Out-of-range values are rejected by the writer's own assertions.

Also decided: the info-time clause for datetime arguments — the packing of the six calendar fields into 40 bits (the real
write_infotime interpreted on a stand-in datetime object with symbolic fields) against the bit slices the XML view reads
them from (read off its f-string): every field is transmitted with all its bits, most significant first, exactly where
the view slices it.

NOT decided (not claimed): the float writers (value % 1 * 128**p is binary floating point), latitude / longitude
against the XML formulas, info-time given as text (strptime).  Those clauses quantify over floating-point values that no
static argument in reach bounds; see DESIGN.md."""
from __future__ import annotations

from sa.bitabs import ABits, AInt, Abort, F, Interp, PartialRaise, PathRaise, explore
from sa.bitabs_models import ANeg
from sa.bitabs import AObj
from sa.model import AnalysisError, ClassInfo, ClassRef
import ast

MOD = "motorola.mbxml"


def bits_const(I, forms):
    fs = I.simp_bits(forms)
    if all(isinstance(b, F) and b.is_const for b in fs):
        return [b.c for b in fs]
    return None


def run(ctx):
    repo = ctx.repo
    mb = repo.cls(MOD, "MBXML")
    C = ClassRef(mb)
    ctx.explanation = __doc__.split("\n", 2)[2].strip()
    ctx.assumptions = [
        "the integer clauses and the info-time packing (datetime arguments) are decided; float / latitude / longitude clauses and info-time given as text are not claimed",
        "models of bin(), str slicing / reversal, int(s, 2), int.to_bytes, bytes concatenation in sa/bitabs_models.py",
    ]
    ctx.rule("uintvar/canonical", "write_uintvar: for every value of a bit length the output has ceil(L/7) octets (1 for zero), continuation bit set on all but the last, first septet not zero")
    ctx.rule("uintvar/read-inverse", "read_uintvar on prefix | written | trailer returns exactly the value and the index just past the written octets, for every value of that bit length")
    ctx.rule("uintvar/range", "values of 33 and more bits are rejected by the writer (AssertionError), negative values too")
    ctx.rule("sintvar/canonical", "write_sintvar: shortest sequence that leaves bit 6 of the first septet to the sign: ceil((L+1)/7) octets, sign bit = sign, continuation bits 1..1 0")
    ctx.rule("sintvar/read-inverse", "read_sintvar returns exactly (value, index past the written octets, sign) for every magnitude of that bit length and both signs")
    ctx.rule("sintvar/range", "magnitudes of 32 and more bits are rejected")
    ctx.rule("coverage/bit-lengths", "every bit length 0..32 (0..31 signed, both signs) was reached by exactly one analysed path")
    wu, ru = repo.find_method(mb, "write_uintvar"), repo.find_method(mb, "read_uintvar")
    ws, rs = repo.find_method(mb, "write_sintvar"), repo.find_method(mb, "read_sintvar")
    for f in (wu, ru, ws, rs):
        if f is None:
            raise AnalysisError("MBXML varint functions not found")
        ctx.saw_func(f)
    unsigned(ctx, repo, C, wu, ru)
    signed(ctx, repo, C, ws, rs)
    with ctx.guard("info-time"):
        infotime(ctx, repo, mb, C)
    ctx.require("uintvar/canonical", 5)
    ctx.require("uintvar/read-inverse", 5)
    ctx.require("sintvar/canonical", 10)
    ctx.require("sintvar/read-inverse", 10)


def bit_length_on_path(I, v: AInt):
    """(lo, hi): the bit lengths the values on this path can have, read off the bits the path constraints have fixed
    (leading constant zeros, then either a constant one — exact length — or a free bit — every length down to the
    highest constant one below it)"""
    bits = I.simp_bits(v.bits)
    for j in range(len(bits) - 1, -1, -1):
        b = bits[j]
        if isinstance(b, F) and b.is_const:
            if b.c == 1:
                return (j + 1, j + 1)
            continue
        lo = 0
        for i in range(j - 1, -1, -1):
            if isinstance(bits[i], F) and bits[i].is_const and bits[i].c == 1:
                lo = i + 1
                break
        # recorded disequalities "the bits from position m upwards are not all zero" (loops of the form `while value:` /
        # `value >>= 7` leave these instead of linear equations) raise the lower bound to m + 1
        names = I.atoms.names
        for key, const, is_eq in I.st.eqs:
            if is_eq or const != 0:
                continue
            idx = set()
            plain = True
            for f in I.simp_bits(list(key)):
                if isinstance(f, F) and f.is_const and f.c == 0:
                    continue
                at = f.atoms() if isinstance(f, F) and f.c == 0 else []
                if len(at) == 1 and isinstance(names[at[0]], tuple) and names[at[0]][0] == v_name(I, v):
                    idx.add(names[at[0]][1])
                else:
                    plain = False
            if plain and idx and all(isinstance(bits[i], F) and bits[i].is_const and bits[i].c == 0 for i in range(max(idx) + 1, len(bits))):
                lo = max(lo, min(idx) + 1)
        return (min(lo, j + 1), j + 1)
    return (0, 0)


def v_name(I, v: AInt):
    """name of the atoms the symbolic integer was built from"""
    for b in v.bits:
        if isinstance(b, F) and not b.is_const and len(b.atoms()) == 1:
            nm = I.atoms.names[b.atoms()[0]]
            if isinstance(nm, tuple):
                return nm[0]
    return None


def cls_name(L):
    return f"bit length {L[0]}" if L[0] == L[1] else f"bit lengths {L[0]}..{L[1]}"


def octets(I, w):
    if isinstance(w, (bytes, bytearray)):
        w = ABits([F(0, (x >> (7 - k)) & 1) for x in w for k in range(8)], "bytes")
    if not isinstance(w, ABits) or w.kind != "bytes" or len(w.items) % 8:
        return None
    return [w.items[i:i + 8] for i in range(0, len(w.items), 8)]


def check_canonical(I, octs, L, sign_slot: bool):
    """shortest form: number of octets, continuation bits, non-empty leading septet; L = (lo, hi) bit lengths on the path"""
    needs = sorted({max(1, -(-(l + (1 if sign_slot else 0)) // 7)) for l in range(L[0], L[1] + 1)})
    problems = []
    if needs != [len(octs)]:
        problems.append(f"{len(octs)} octets written, the shortest form has {needs[0] if len(needs) == 1 else needs} (for the bit lengths of this path)")
    cont = [bits_const(I, [o[0]]) for o in octs]
    want = [[1]] * (len(octs) - 1) + [[0]]
    if cont != want:
        problems.append(f"continuation bits {[c[0] if c else '?' for c in cont]}, want {[w_[0] for w_ in want]}")
    if len(octs) > 1 and not sign_slot:
        lead = I.simp_bits(octs[0][1:])
        if all(isinstance(b, F) and b.is_const and b.c == 0 for b in lead):
            problems.append("the first septet carries no value bit (a shorter form exists)")
    return problems


def unsigned(ctx, repo, C, wu, ru):
    I = Interp(repo)
    I.exact_ordering = True

    def run(st):
        I.st = st
        v = AInt([I.atom_form(("v", i)) for i in range(32)])
        w = I.call(wu, [C, v], {})
        octs = octets(I, w)
        if octs is None:
            raise Abort(f"write_uintvar returns {w!r}")
        pre = I.wire("pre", 16, "bytes")
        post = I.wire("post", 16, "bytes")
        buf = ABits(list(pre.items) + [b for o in octs for b in o] + list(post.items), "bytes")
        back = I.call(ru, [C, buf, 2], {})
        return v, octs, back

    res = explore(run, max_paths=200)
    seen = {}
    for st, (k, val) in res:
        I.st = st
        if k != "ok":
            if isinstance(val, PartialRaise) or k == "raise":
                ctx.ob("uintvar/read-inverse", f"path {st.labels[-1:] or ['value < 2']}", False, f"{k}: {val}", wu.loc)
                continue
            raise AnalysisError(f"write/read_uintvar: {val}")
        v, octs, back = val
        L = bit_length_on_path(I, v)
        key = cls_name(L) + (f" [path {len(seen)}]" if cls_name(L) in seen else "")
        seen[key] = L
        prob = check_canonical(I, octs, L, False)
        ctx.ob("uintvar/canonical", key, not prob, "; ".join(prob) or f"{len(octs)} octet(s) for every value of the class", wu.loc)
        bad = []
        if not (isinstance(back, tuple) and len(back) == 2):
            bad.append(f"reader returns {back!r}")
        else:
            got, idx = back
            if idx != 2 + len(octs):
                bad.append(f"index {idx!r} after reading, {2 + len(octs)} expected (written octets start at 2)")
            gi = got if isinstance(got, AInt) else (AInt([F(0, (got >> j) & 1) for j in range(max(got.bit_length(), 1))]) if isinstance(got, int) and not isinstance(got, bool) and got >= 0 else None)
            if gi is None:
                bad.append(f"value read back as {got!r}")
            else:
                w = max(len(gi.bits), 32)
                diff = [j for j in range(w) if I.simp(gi.bit(j)) != I.simp(v.bit(j))]
                if diff:
                    bad.append(f"value bits {diff[:6]} differ")
        ctx.ob("uintvar/read-inverse", key, not bad, "; ".join(bad) or "value and index restored; prefix / trailer octets not consumed", ru.loc)
    covered = set()
    for lo, hi in seen.values():
        covered |= set(range(lo, hi + 1))
    missing = sorted(set(range(0, 33)) - covered)
    ctx.ob("coverage/bit-lengths", "uintvar", not missing, f"{len(seen)} path classes cover every bit length 0..32" if not missing else f"bit lengths reached by no analysed path: {missing}", wu.loc)
    # out of range
    I2 = Interp(repo)

    def run_big(st):
        I2.st = st
        v = AInt([I2.atom_form(("v", i)) for i in range(32)] + [F(0, 1)])
        return I2.call(wu, [C, v], {})
    res = explore(run_big, max_paths=8)
    rejected = all(k == "raise" and v.exc == "AssertionError" for _, (k, v) in res)
    ctx.ob("uintvar/range", "2^32 .. 2^33-1", rejected, "AssertionError on every path" if rejected else f"{[(k, str(v)[:60]) for _, (k, v) in res][:2]}", wu.loc)
    I3 = Interp(repo)

    def run_neg(st):
        I3.st = st
        return I3.call(wu, [C, ANeg(AInt([I3.atom_form(("v", i)) for i in range(8)] + [F(0, 1)]))], {})
    res = explore(run_neg, max_paths=8)
    rejected = all(k == "raise" and v.exc == "AssertionError" for _, (k, v) in res)
    ctx.ob("uintvar/range", "negative values", rejected, "AssertionError" if rejected else f"{[(k, str(v)[:60]) for _, (k, v) in res][:2]}", wu.loc)


def signed(ctx, repo, C, ws, rs):
    seen = {}
    for negative in (False, True):
        I = Interp(repo)
        I.exact_ordering = True

        def run(st, negative=negative):
            I.st = st
            mag = AInt([I.atom_form(("v", i)) for i in range(31)])
            if negative:
                # the magnitude of a negative value is non-zero: decide its leading one first (the same split bin() would make)
                top = None
                for j in range(30, -1, -1):
                    if I.decide_eq([mag.bits[j]], 1, f"magnitude:bit{j}"):
                        top = j
                        break
                if top is None:
                    raise PathRaise("Skip", "zero has no negative")
                v = ANeg(mag)
            else:
                v = mag
            w = I.call(ws, [C, v], {})
            octs = octets(I, w)
            if octs is None:
                raise Abort(f"write_sintvar returns {w!r}")
            pre = I.wire("pre", 16, "bytes")
            post = I.wire("post", 16, "bytes")
            buf = ABits(list(pre.items) + [b for o in octs for b in o] + list(post.items), "bytes")
            back = I.call(rs, [C, buf, 2], {})
            return mag, octs, back

        res = explore(run, max_paths=300)
        for st, (k, val) in res:
            I.st = st
            if k == "raise" and val.exc == "Skip":
                continue
            if k != "ok":
                if isinstance(val, PartialRaise) or k == "raise":
                    ctx.ob("sintvar/read-inverse", f"{'negative' if negative else 'non-negative'} path {st.labels[-1:]}", False, f"{k}: {val}", ws.loc)
                    continue
                raise AnalysisError(f"write/read_sintvar: {val}")
            mag, octs, back = val
            L = bit_length_on_path(I, mag)
            key = f"{'negative' if negative else 'non-negative'}, magnitude {cls_name(L)}"
            if key in seen:
                key += f" [path {len(seen)}]"
            seen[key] = (negative, L)
            prob = check_canonical(I, octs, L, True)
            sb = bits_const(I, [octs[0][1]])
            if sb != [1 if negative else 0]:
                prob.append(f"sign bit (bit 6 of the first octet) is {sb}, value is {'negative' if negative else 'non-negative'}")
            ctx.ob("sintvar/canonical", key, not prob, "; ".join(prob) or f"{len(octs)} octet(s)", ws.loc)
            bad = []
            if not (isinstance(back, tuple) and len(back) == 3):
                bad.append(f"reader returns {back!r}")
            else:
                got, idx, sign = back
                if idx != 2 + len(octs):
                    bad.append(f"index {idx!r} after reading, {2 + len(octs)} expected")
                if sign != (-1 if negative else 1):
                    bad.append(f"sign returned {sign!r}")
                gm = got.mag if isinstance(got, ANeg) else got
                if negative != isinstance(got, ANeg) and not (isinstance(got, int) and (got < 0) == negative):
                    bad.append(f"value read back with the wrong sign ({got!r})")
                if isinstance(gm, int) and not isinstance(gm, bool):
                    gm = AInt([F(0, (abs(gm) >> j) & 1) for j in range(max(abs(gm).bit_length(), 1))])
                if not isinstance(gm, AInt):
                    bad.append(f"value read back as {got!r}")
                else:
                    w = max(len(gm.bits), 31)
                    diff = [j for j in range(w) if I.simp(gm.bit(j)) != I.simp(mag.bit(j))]
                    if diff:
                        bad.append(f"magnitude bits {diff[:6]} differ")
            ctx.ob("sintvar/read-inverse", key, not bad, "; ".join(bad) or "value, sign and index restored", rs.loc)
    missing = []
    for neg in (False, True):
        cov = set()
        for ng, (lo, hi) in seen.values():
            if ng == neg:
                cov |= set(range(lo, hi + 1))
        missing += [f"{'-' if neg else '+'}{l}" for l in sorted(set(range(1 if neg else 0, 32)) - cov)]
    ctx.ob("coverage/bit-lengths", "sintvar", not missing, f"{len(seen)} path classes cover every magnitude bit length 0..31 for both signs" if not missing else f"(sign, bit length) reached by no analysed path: {missing}", ws.loc)
    I2 = Interp(repo)

    def run_big(st):
        I2.st = st
        return I2.call(ws, [C, AInt([I2.atom_form(("v", i)) for i in range(31)] + [F(0, 1)])], {})
    res = explore(run_big, max_paths=8)
    rejected = all(k == "raise" and v.exc == "AssertionError" for _, (k, v) in res)
    ctx.ob("sintvar/range", "magnitude 2^31 .. 2^32-1", rejected, "AssertionError on every path" if rejected else f"{[(k, str(v)[:60]) for _, (k, v) in res][:2]}", ws.loc)


INFOTIME_FIELDS = (("year", 14), ("month", 4), ("day", 5), ("hour", 5), ("minute", 6), ("second", 6))   # calendar field, bits it needs


def infotime(ctx, repo, mb, C):
    """write_infotime(datetime) against the slices of the XML view"""
    ctx.rule("infotime/fields", "write_infotime(datetime): each of year, month, day, hour, minute, second is transmitted with all the bits it needs, "
                                "most significant first, exactly in the slice of the 40 bits from which the XML view reads that field")
    wi = repo.find_method(mb, "write_infotime")
    if wi is None:
        raise AnalysisError("MBXML.write_infotime not found")
    ctx.saw_func(wi)
    # ---- the reader: the one f-string of the module whose parts are all ba2int(<bits>[a:b]) — at least six of them
    module = mb.module
    views = []
    for n in ast.walk(module.tree):
        if isinstance(n, ast.JoinedStr):
            parts = [v for v in n.values if isinstance(v, ast.FormattedValue)]
            sl = []
            for v in parts:
                c = v.value
                if isinstance(c, ast.Call) and ast.unparse(c.func).split(".")[-1] == "ba2int" and len(c.args) == 1 and isinstance(c.args[0], ast.Subscript) \
                        and isinstance(c.args[0].slice, ast.Slice):
                    sl.append(c.args[0].slice)
            if len(parts) >= 6 and len(sl) == len(parts):
                views.append((n, sl))
    if len(views) != 1:
        raise AnalysisError(f"info-time XML view: {len(views)} f-strings made of ba2int(bits[a:b]) parts found, one expected")
    node, slices = views[0]
    if len(slices) != len(INFOTIME_FIELDS):
        raise AnalysisError(f"info-time XML view: {len(slices)} fields, {len(INFOTIME_FIELDS)} expected")
    spans = []
    for s_ in slices:
        def cv(e):
            if e is None:
                return None
            try:
                return repo.fold_expr(e, module, None)
            except Exception:
                raise AnalysisError("info-time XML view: slice bound not constant")
        lo, hi, step = slice(cv(s_.lower), cv(s_.upper), cv(s_.step)).indices(40)
        if step != 1:
            raise AnalysisError("info-time XML view: stepped slice")
        spans.append((lo, hi))
    # ---- the writer on a stand-in datetime with symbolic fields
    stub = ClassInfo(ast.parse("class datetime:\n"
                               "    def timetuple(self):\n        return (self.year, self.month, self.day, self.hour, self.minute, self.second, 0, 1, -1)\n"
                               "    def replace(self, **kw):\n        return self\n").body[0], module)
    stub.stands_for_external = "datetime"
    I = Interp(repo)

    def run_w(st):
        I.st = st
        dt = AObj(stub, {name: AInt([I.atom_form((name, j)) for j in range(w)]) for name, w in INFOTIME_FIELDS})
        return I.call(wi, [C, dt], {})

    res = explore(run_w, max_paths=8)
    if len(res) != 1 or res[0][1][0] != "ok":
        k, v = res[0][1]
        if (k == "abort" and isinstance(v, PartialRaise) or k == "raise") and v.exc in ("OverflowError", "AssertionError", "ValueError"):
            ctx.ob("infotime/fields", f"{wi.qualname}", False, f"the writer raises for calendar values that fit the fields: {v}", wi.loc)
            return
        raise AnalysisError(f"{wi.qualname}: {len(res)} path(s), first {k}: {v}")
    I.st = res[0][0]
    out = res[0][1][1]
    if not isinstance(out, ABits) or out.kind != "bytes" or len(out.items) != 40:
        ctx.ob("infotime/fields", f"{wi.qualname}", False, f"the writer returns {out!r}, 5 octets expected", wi.loc)
        return
    ob = I.simp_bits(out.items)
    bad = []
    for (name, need), (lo, hi) in zip(INFOTIME_FIELDS, spans):
        w = hi - lo
        if w < need:
            bad.append(f"{name}: the view reads {w} bits, the field needs {need}")
            continue
        want = [F(0, 0)] * (w - need) + [I.simp(I.atom_form((name, j))) for j in range(need - 1, -1, -1)]
        diff = [lo + i for i, (a, b) in enumerate(zip(ob[lo:hi], want)) if a != b]
        if diff:
            bad.append(f"{name}: bits {diff[:6]} of the 40 written are not the field's bits in the slice [{lo}:{hi}] the view reads (a bit of the field is dropped, moved or mixed)")
    covered = sorted(p for lo, hi in spans for p in range(lo, hi))
    if covered != list(range(40)):
        bad.append("the view's slices do not partition the 40 bits")
    ctx.ob("infotime/fields", f"{wi.qualname}", not bad, "; ".join(bad[:3]) or f"6 fields in the slices {spans}", wi.loc)
