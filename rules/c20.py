"""C20 — repeater storage: ownership of the registry (structural) + scenario analysis of the real methods."""
from __future__ import annotations

import ast

from sa.bitabs import ABits, AInt, AObj, AOpq, Abort, F, Interp, PathRaise, explore
from sa.model import AnalysisError

SMOD = "storage.repeater_storage"
RMOD = "storage.repeater"
A = ("10.1.1.1", 40001)
B = ("10.2.2.2", 40002)
MUTATORS = {"update", "pop", "popitem", "clear", "setdefault", "__setitem__", "__delitem__"}


def snapshot_obj(o):
    return {k: (dict(v) if isinstance(v, dict) else v) for k, v in o.attrs.items()}


def run(ctx):
    repo = ctx.repo
    sci = repo.cls(SMOD, "RepeaterStorage")
    rci = repo.cls(RMOD, "Repeater")
    ctx.explanation = (
        "Structural ownership rules over the syntax tree (which methods store into the private registry, where "
        "Repeater.id is assigned, which lookups are store-free, where records are created) plus abstract "
        "interpretation of the real RepeaterStorage/Repeater methods on scenario sequences with symbolic patch "
        "values: identity of repeated lookups, growth only on auto-creating lookups of unseen addresses, key = "
        "record.id coherence of the registry, a patch touching exactly the named fields of exactly the matched record."
    )
    ctx.assumptions = ["uuid4() results are distinct opaque values", "sequences longer than the analysed scenarios are covered only by the structural ownership rules"]
    ctx.rule("registry/writers", "the private registry dict is stored to / mutated only by match_incoming and save (directly or through private helpers reachable only from them)")
    ctx.rule("registry/key-coherence", "after every analysed scenario each registry key is the id of the record stored under it")
    ctx.rule("lookup/read-only", "match_attr, match_ip_incoming, match_uuid, all, __len__ neither store nor call anything that stores")
    ctx.rule("id/single-writer", "Repeater.id is assigned only in Repeater.__init__ (repository-wide)")
    ctx.rule("create/guarded", "a record is created only by an auto-creating lookup of an unseen address; other lookups never grow the storage")
    ctx.rule("lookup/identity", "repeated lookups of one address return the same object")
    ctx.rule("patch/exact", "a patch changes exactly the named built-in fields / dynamic attributes of the matched record and nothing of any other record")
    for n_ in ("match_incoming", "save", "match_attr", "match_ip_incoming", "match_uuid", "create_repeater", "all", "__len__"):
        ctx.saw_func(repo.func(SMOD, f"RepeaterStorage.{n_}"))
    for n_ in ("__init__", "attr", "patch"):
        ctx.saw_func(repo.func(RMOD, f"Repeater.{n_}"))
    # ---- structural
    writers = set()
    for name, fi in sci.methods.items():
        for n in ast.walk(fi.node):
            tgt = None
            if isinstance(n, (ast.Assign, ast.AugAssign, ast.AnnAssign)):
                for t in (n.targets if isinstance(n, ast.Assign) else [n.target]):
                    base = t
                    while isinstance(base, ast.Subscript):
                        base = base.value
                    if isinstance(base, ast.Attribute) and base.attr == "__repeaters" and (isinstance(t, ast.Subscript) or name != "__init__"):
                        writers.add(name)
            if isinstance(n, ast.Call) and isinstance(n.func, ast.Attribute) and n.func.attr in MUTATORS \
                    and isinstance(n.func.value, ast.Attribute) and n.func.value.attr == "__repeaters":
                writers.add(name)
            if isinstance(n, ast.Delete):
                for t in n.targets:
                    if "__repeaters" in ast.unparse(t):
                        writers.add(name)
    calls = {name: {c.func.attr for c in ast.walk(fi.node) if isinstance(c, ast.Call) and isinstance(c.func, ast.Attribute) and isinstance(c.func.value, ast.Name) and c.func.value.id == "self"}
             for name, fi in sci.methods.items()}
    # a private helper that writes stands for the public methods it is reachable from: the rule is about the ENTRY POINTS through
    # which the registry can change
    entry_writers, frontier, seen_w = set(), set(writers), set()
    while frontier:
        w_ = frontier.pop()
        if w_ in seen_w:
            continue
        seen_w.add(w_)
        if w_.startswith("_") and not (w_.startswith("__") and w_.endswith("__")):
            callers = {m for m, cs in calls.items() if w_ in cs or w_.lstrip("_") in {c.split("__")[-1] for c in cs if c.startswith("_")}}
            frontier |= callers - seen_w
            if not callers:
                entry_writers.add(w_)
        else:
            entry_writers.add(w_)
    ctx.ob("registry/writers", sci.qualname, entry_writers == {"match_incoming", "save"},
           f"entry points through which the registry is written: {sorted(entry_writers)}" + (f" (through the private helper(s) {sorted(w for w in writers if w not in entry_writers)})" if writers - entry_writers else ""), sci.loc)
    # lookups are read-only: no writer reachable
    def reaches_writer(m, seen=()):
        if m in writers:
            return True
        return any(reaches_writer(c, seen + (m,)) for c in calls.get(m, ()) if c not in seen and c in sci.methods)
    bad = [m for m in ("match_attr", "match_ip_incoming", "match_uuid", "all", "__len__") if m not in sci.methods or reaches_writer(m)]
    ctx.ob("lookup/read-only", sci.qualname, not bad, f"lookups that can reach a registry write (or vanished): {bad}", sci.loc)
    id_writers = []
    for fi in repo.all_functions():
        for n in ast.walk(fi.node):
            if isinstance(n, (ast.Assign, ast.AnnAssign, ast.AugAssign)):
                for t in (n.targets if isinstance(n, ast.Assign) else [n.target]):
                    if isinstance(t, ast.Attribute) and t.attr == "id" and fi.module.short.startswith("storage"):
                        id_writers.append(fi.qualname)
            if isinstance(n, ast.Call) and ast.unparse(n.func) == "setattr" and len(n.args) >= 2 and isinstance(n.args[1], ast.Constant) and n.args[1].value == "id":
                id_writers.append(fi.qualname + " (setattr)")
    ctx.ob("id/single-writer", rci.qualname, id_writers == [f"{RMOD}:Repeater.__init__"], f"assignments to .id: {id_writers}", rci.loc)

    # ---- scenarios
    mi = repo.find_method(sci, "match_incoming")
    save = repo.find_method(sci, "save")
    ln = repo.find_method(sci, "__len__")

    def fresh(I):
        return I.construct(sci, [], {})

    def coherent(storage):
        reps = storage.attrs.get("__repeaters", {})
        return all(k is v.attrs.get("id") for k, v in reps.items()), len(reps)

    def scenario(name, fn, rule):
        I = Interp(repo)
        I.summaries[repo.func(RMOD, "Repeater.read_snmp_values").qualname] = lambda *a: {}

        def run_s(st):
            I.st = st
            return fn(I)

        for st, (k, v) in explore(run_s, max_paths=50):
            I.st = st
            if k == "abort":
                # this scenario cannot be followed; the others are still decided (exit 2 unless one of them finds a violation)
                ctx.analysis_errors.append(f"scenario {name}: {v}")
                return
            if k == "raise":
                ctx.ob(rule, f"{sci.qualname} | {name}", False, f"raises {v.exc} at {v.msg}", sci.loc)
                continue
            ok, detail, storage = v
            ctx.ob(rule, f"{sci.qualname} | {name}", ok, detail, sci.loc)
            c, n = coherent(storage)
            ctx.ob("registry/key-coherence", f"{sci.qualname} | {name}", c, f"{n} record(s)", sci.loc)

    def s_lookup_unseen(I):
        s = fresh(I)
        r = I.call(mi, [s], {"address": A})
        n = I.call(ln, [s], {})
        return r is None and n == 0, f"lookup of unseen address returns {r!r}, len {n}", s
    scenario("lookup-unseen", s_lookup_unseen, "create/guarded")

    def s_autocreate_twice(I):
        s = fresh(I)
        r1 = I.call(mi, [s], {"address": A, "auto_create": True})
        n1 = I.call(ln, [s], {})
        r2 = I.call(mi, [s], {"address": A, "auto_create": True})
        r3 = I.call(mi, [s], {"address": A})
        n2 = I.call(ln, [s], {})
        return isinstance(r1, AObj) and r1 is r2 and r2 is r3 and n1 == 1 and n2 == 1 and r1.attrs.get("address_in") == A, \
            f"identity {r1 is r2 and r2 is r3}, len {n1} -> {n2}", s
    scenario("autocreate-twice", s_autocreate_twice, "lookup/identity")

    def s_two_records(I):
        s = fresh(I)
        a = I.call(mi, [s], {"address": A, "auto_create": True})
        b = I.call(mi, [s], {"address": B, "auto_create": True})
        n = I.call(ln, [s], {})
        r = I.call(mi, [s], {"address": ("10.3.3.3", 1)})
        n2 = I.call(ln, [s], {})
        return a is not b and a.attrs.get("id") is not b.attrs.get("id") and n == 2 and r is None and n2 == 2, f"len {n} -> {n2}", s
    scenario("two-records", s_two_records, "create/guarded")

    def s_patch(I, via):
        s = fresh(I)
        a = I.call(mi, [s], {"address": A, "auto_create": True})
        b = I.call(mi, [s], {"address": B, "auto_create": True})
        before_a, before_b = snapshot_obj(a), snapshot_obj(b)
        x = AInt([I.atom_form(("x", i)) for i in range(24)])
        y = AInt([I.atom_form(("y", i)) for i in range(8)])
        patch = {"dmr_id": x, "custom_attr": y, "ignored_none": None}
        if via == "match_incoming":
            r = I.call(mi, [s], {"address": A, "patch": patch})
        else:
            r = I.call(save, [s, a, patch], {})
        n = I.call(ln, [s], {})
        after_a, after_b = snapshot_obj(a), snapshot_obj(b)
        changed = {k for k in set(before_a) | set(after_a) if before_a.get(k) is not after_a.get(k) and before_a.get(k) != after_a.get(k)}
        dyn = after_a.get("__attrs", {})
        ok = r is a and n == 2 and after_a.get("dmr_id") is x and dyn.get("custom_attr") is y and "ignored_none" not in dyn \
            and changed <= {"dmr_id", "__attrs"} and after_b == before_b and a.attrs.get("id") is before_a.get("id")
        return ok, f"fields changed on the matched record: {sorted(changed)}; other record {'unchanged' if after_b == before_b else 'CHANGED'}; len {n}", s
    scenario("patch-via-match_incoming", lambda I: s_patch(I, "match_incoming"), "patch/exact")
    scenario("patch-via-save", lambda I: s_patch(I, "save"), "patch/exact")

    def s_autocreate_with_patch(I):
        # the patch handed to the very call that creates the record is applied to the new record
        s = fresh(I)
        x = AInt([I.atom_form(("x", i)) for i in range(24)])
        y = AInt([I.atom_form(("y", i)) for i in range(8)])
        r = I.call(mi, [s], {"address": A, "auto_create": True, "patch": {"dmr_id": x, "custom_attr": y}})
        again = I.call(mi, [s], {"address": A})
        n = I.call(ln, [s], {})
        ok = isinstance(r, AObj) and again is r and n == 1 and r.attrs.get("dmr_id") is x and r.attrs.get("__attrs", {}).get("custom_attr") is y
        return ok, f"record created: {isinstance(r, AObj)}, found again: {again is r}, len {n}, built-in field patched: {isinstance(r, AObj) and r.attrs.get('dmr_id') is x}, " \
                   f"dynamic attribute stored: {isinstance(r, AObj) and r.attrs.get('__attrs', {}).get('custom_attr') is y}", s
    scenario("autocreate-with-patch", s_autocreate_with_patch, "patch/exact")

    def s_patch_twice(I):
        # the second patch of one dynamic attribute replaces the first value
        s = fresh(I)
        a = I.call(mi, [s], {"address": A, "auto_create": True})
        y1 = AInt([I.atom_form(("y1", i)) for i in range(8)])
        y2 = AInt([I.atom_form(("y2", i)) for i in range(8)])
        I.call(save, [s, a, {"custom_attr": y1}], {})
        I.call(save, [s, a, {"custom_attr": y2}], {})
        got = I.call(repo.find_method(a.cls, "attr"), [a, "custom_attr"], {})
        return got is y2 and a.attrs.get("__attrs", {}).get("custom_attr") is y2, f"attr() after two patches of one dynamic key returns the {'second' if got is y2 else 'FIRST / another'} value", s
    scenario("patch-dynamic-attribute-twice", s_patch_twice, "patch/exact")

    def s_same_ip_other_port(I):
        # a look-up is by the full (ip, port) address: another port of a known ip is an unseen address
        s = fresh(I)
        a = I.call(mi, [s], {"address": A, "auto_create": True})
        other = (A[0], A[1] + 1)
        r = I.call(mi, [s], {"address": other})
        n1 = I.call(ln, [s], {})
        c = I.call(mi, [s], {"address": other, "auto_create": True})
        n2 = I.call(ln, [s], {})
        return r is None and n1 == 1 and isinstance(c, AObj) and c is not a and n2 == 2, \
            f"lookup of (known ip, other port) -> {'None' if r is None else 'a record'}; auto-create makes a second record: {isinstance(c, AObj) and c is not a}; len {n1} -> {n2}", s
    scenario("same-ip-other-port", s_same_ip_other_port, "create/guarded")

    def s_boundary_ports(I):
        # constant evaluation at the boundary values of the 16-bit port: every pair of distinct ports of one ip is two addresses
        ports = (0, 1, 0x7FFF, 0x8000, 0xFFFE, 0xFFFF)
        bad = []
        for p_ in ports:
            for q_ in ports:
                if p_ == q_:
                    continue
                s = fresh(I)
                a = I.call(mi, [s], {"address": (A[0], p_), "auto_create": True})
                r = I.call(mi, [s], {"address": (A[0], q_)})
                c = I.call(mi, [s], {"address": (A[0], q_), "auto_create": True})
                again = I.call(mi, [s], {"address": (A[0], p_)})
                n = I.call(ln, [s], {})
                if not (isinstance(a, AObj) and r is None and isinstance(c, AObj) and c is not a and again is a and n == 2
                        and a.attrs.get("address_in") == (A[0], p_) and c.attrs.get("address_in") == (A[0], q_)):
                    bad.append((p_, q_))
        return not bad, f"{len(ports) * (len(ports) - 1)} ordered pairs of boundary ports; pairs that are not kept apart: {bad[:4]}", s
    scenario("boundary-ports", s_boundary_ports, "create/guarded")

    def s_patch_all_fields(I):
        s = fresh(I)
        a = I.call(mi, [s], {"address": A, "auto_create": True})
        b = I.call(mi, [s], {"address": B, "auto_create": True})
        before_b = snapshot_obj(b)
        fields = [k for k in a.attrs if k not in ("id", "logger", "__attrs", "address_in")]
        syms = {k: AOpq(f"new {k}", notnone=True) for k in fields}
        I.call(save, [s, a, dict(syms)], {})
        wrong = [k for k in fields if a.attrs.get(k) is not syms[k]]
        leaked = sorted(a.attrs.get("__attrs", {}).keys())
        return not wrong and not leaked and snapshot_obj(b) == before_b, \
            f"{len(fields)} built-in fields patched; not updated: {wrong}; stored as dynamic attributes instead: {leaked}", s
    scenario("patch-every-builtin-field", s_patch_all_fields, "patch/exact")

    def s_patch_unseen_no_autocreate(I):
        # a patch handed to a look-up that does not auto-create must not create the record it would apply to
        s = fresh(I)
        x = AInt([I.atom_form(("x", i)) for i in range(24)])
        r = I.call(mi, [s], {"address": A, "patch": {"dmr_id": x, "custom_attr": 7}})
        n1 = I.call(ln, [s], {})
        r2 = I.call(mi, [s], {"address": A, "auto_create": False, "patch": {"callsign": "OK1XXX"}})
        n2 = I.call(ln, [s], {})
        return r is None and r2 is None and n1 == 0 and n2 == 0, \
            f"lookup(unseen address, patch, no auto-create) -> {'None' if r is None and r2 is None else 'a record'}, len {n1}, {n2}", s
    scenario("patch-unseen-without-autocreate", s_patch_unseen_no_autocreate, "create/guarded")

    def s_patch_falsy(I):
        # False, 0 and "" are values like any other: naming them in a patch sets them (built-in fields and dynamic attributes)
        s = fresh(I)
        a = I.call(mi, [s], {"address": A, "auto_create": True})
        I.call(save, [s, a, {"snmp_enabled": True, "nat_enabled": True, "dmr_id": 2305, "callsign": "OK1XXX", "custom_flag": True, "custom_count": 5, "custom_text": "x"}], {})
        falsy = {"snmp_enabled": False, "nat_enabled": False, "dmr_id": 0, "callsign": "", "custom_flag": False, "custom_count": 0, "custom_text": ""}
        for via in ("save", "match_incoming"):
            if via == "save":
                I.call(save, [s, a, dict(falsy)], {})
            else:
                I.call(mi, [s], {"address": A, "patch": dict(falsy)})
            dyn = a.attrs.get("__attrs", {})
            wrong = [k for k, v in falsy.items() if not ((a.attrs.get(k, dyn.get(k, "<absent>")) == v) and type(a.attrs.get(k, dyn.get(k))) is type(v))]
            if wrong:
                return False, f"patch through {via} naming falsy values: not set: {wrong}", s
            I.call(save, [s, a, {"snmp_enabled": True, "nat_enabled": True, "dmr_id": 2305, "callsign": "OK1XXX", "custom_flag": True, "custom_count": 5, "custom_text": "x"}], {})
        return True, f"{len(falsy)} falsy values (False, 0, '') set through save and through match_incoming", s
    scenario("patch-falsy-values", s_patch_falsy, "patch/exact")

    def s_readdress(I):
        s = fresh(I)
        a = I.call(mi, [s], {"address": A, "auto_create": True})
        C = ("10.7.7.7", 40007)
        I.call(mi, [s], {"address": A, "patch": {"address_in": C}})
        r_old = I.call(mi, [s], {"address": A})
        r_new = I.call(mi, [s], {"address": C})
        n1 = I.call(ln, [s], {})
        a2 = I.call(mi, [s], {"address": A, "auto_create": True})
        n2 = I.call(ln, [s], {})
        return r_old is None and r_new is a and n1 == 1 and isinstance(a2, AObj) and a2 is not a and n2 == 2, \
            f"after re-addressing: lookup(old) -> {'None' if r_old is None else 'a record'}, lookup(new) is the record: {r_new is a}, auto-create(old) makes a new record: {isinstance(a2, AObj) and a2 is not a}, len {n1} -> {n2}", s
    scenario("patch-address-then-lookup", s_readdress, "lookup/identity")

    def s_readdress_direct(I):
        # the record is re-addressed through its own patch() (part of the property's alphabet), not through the storage:
        # lookups must follow the record's current address, whatever earlier lookups returned
        s = fresh(I)
        a = I.call(mi, [s], {"address": A, "auto_create": True})
        I.call(mi, [s], {"address": A})
        I.call(repo.find_method(sci, "match_attr"), [s, "address_in", A], {})
        C = ("10.7.7.7", 40007)
        I.call(repo.find_method(a.cls, "patch"), [a, {"address_in": C}], {})
        r_old = I.call(mi, [s], {"address": A})
        r_new = I.call(mi, [s], {"address": C})
        n1 = I.call(ln, [s], {})
        a2 = I.call(mi, [s], {"address": A, "auto_create": True})
        n2 = I.call(ln, [s], {})
        return r_old is None and r_new is a and n1 == 1 and isinstance(a2, AObj) and a2 is not a and n2 == 2, \
            f"after the record's own patch(address_in): lookup(old) -> {'None' if r_old is None else 'a record'}, lookup(new) is the record: {r_new is a}, " \
            f"auto-create(old) makes a new record: {isinstance(a2, AObj) and a2 is not a}, len {n1} -> {n2}", s
    scenario("record-patched-directly-then-lookup", s_readdress_direct, "lookup/identity")

    def s_patch_id(I):
        s = fresh(I)
        a = I.call(mi, [s], {"address": A, "auto_create": True})
        old = a.attrs.get("id")
        new = AOpq("another uuid", notnone=True)
        new.unique = True
        r = I.call(mi, [s], {"address": A, "patch": {"id": new}})
        again = I.call(mi, [s], {"address": A})
        return again is a and a.attrs.get("id") is old, \
            f"after a patch naming `id` the record's id is {'unchanged' if a.attrs.get('id') is old else 'REPLACED'} (registry keys {'coherent' if coherent(s)[0] else 'stale'})", s
    scenario("patch-naming-id", s_patch_id, "lookup/identity")

    def s_lookups_readonly(I):
        s = fresh(I)
        a = I.call(mi, [s], {"address": A, "auto_create": True})
        before = dict(s.attrs.get("__repeaters", {}))
        snap = snapshot_obj(a)
        I.call(repo.find_method(sci, "match_attr"), [s, "address_in", B], {})
        I.call(repo.find_method(sci, "match_ip_incoming"), [s, "10.9.9.9"], {})
        I.call(repo.find_method(sci, "match_uuid"), [s, a.attrs.get("id")], {})
        I.call(repo.find_method(sci, "all"), [s], {})
        after = dict(s.attrs.get("__repeaters", {}))
        return before == after and snapshot_obj(a) == snap, "registry and record unchanged by read-only lookups", s
    scenario("read-only-lookups", s_lookups_readonly, "lookup/read-only")
    ctx.require("patch/exact", 2)
    ctx.require("registry/key-coherence", 6)
