"""C19 — codec calls are pure: no state leaks between calls, argument buffers stay unchanged, no clock / randomness.

Decided by a whole-library alias / mutation-effect analysis over the syntax tree (sa/effects.py): every in-place
operation (item / slice store, augmented assignment on a mutable object, mutating method, attribute store, call of a
function whose summary mutates the parameter) is attributed to the origins of the object it works on —
a parameter of the function, or an object that lives as long as the process (class-level / module-level mutable value,
value of a mutable default argument, cached result of an lru_cache function).  Rules:
  shared/*   no function mutates a process-lifetime object in place (that is how state leaks from one call into the next);
             two discharges, each proved structurally: the CRC calculator singletons are re-initialised before every use,
             and a class-level flag that only guards diagnostic output;
  args/*     no codec function mutates a buffer it was handed (directly, through an alias, or by passing it on),
             except the documented in-place repairs / builder helpers listed with their reason;
  self/*     encode / decode / check methods do not apply toggling or accumulating in-place operations to their own fields;
  time/*     no codec function (or default-argument expression, evaluated at import) reaches a clock or random source.
What is NOT decided: equality of results across arbitrary call histories as such — only the absence of every mechanism
by which a history could matter (shared mutable state, aliasing of arguments, clock)."""
from __future__ import annotations

import ast
import pathlib

from sa.effects import CLOCK, Effects, is_mutable_default
from sa.model import AnalysisError, ClassInfo, FuncInfo, Repo

CODEC_SCOPE = ("etsi.", "hytera.", "motorola.", "utils.bits_bytes", "utils.bits_interface", "utils.bytes_interface", "utils.parsing")
# in-place operations on a parameter that are the documented purpose of the function (function, parameter) -> reason
ARG_EXCEPTIONS = {
    ("etsi.fec.hamming_common:HammingCommon.check_and_correct", "bits"): "the in-place Hamming repair, documented to return the repaired buffer (named in the property)",
    ("etsi.fec.bptc_196_96:BPTC19696.repair_if_necessary", "bits"): "BPTC wrapper of the Hamming repair: repairs an already de-interleaved buffer in place and returns it (deinterleaved=True); "
                                                                   "with deinterleaved=False it works on a private copy, which is how the decoder calls it (decided per calling context)",
    ("etsi.fec.vbptc_128_72:VBPTC12873.set_parity", "column"): "builder helper: fills the parity cell of the 8-cell column it is handed and returns it; the encoders pass views of their private table",
    ("etsi.fec.vbptc_68_28:VBPTC6828.set_parity", "column"): "builder helper: fills the parity cell of the column it is handed; the encoders pass views of their private table",
    ("etsi.fec.vbptc_32_11:VBPTC3211.set_parity", "column"): "builder helper: fills the parity cell of the column it is handed; the encoders pass views of their private table",
    ("utils.bits_bytes:byteswap_bytearray", "data"): "in-place half of byteswap_bytes, which hands it a private bytearray copy; any other caller passing its own argument on is reported at that caller",
}
TOGGLES = (".append()", ".extend()", ".insert()", ".pop()", ".remove()", ".reverse()", ".invert()", ".bytereverse()", ".byteswap()", ".popitem()", ".sort()", ".clear()",
           "augmented assignment", "augmented item assignment", "del item")
READ_METHODS = ("as_bits", "as_bytes", "from_bits", "from_bytes", "encode", "decode", "check", "calculate", "generate", "verify", "deinterleave", "interleave",
                "get_payload", "get_opcode", "__len__", "__repr__", "__str__", "__eq__", "__hash__")


def in_scope(q: str) -> bool:
    return q.startswith(CODEC_SCOPE)


def run(ctx):
    repo = ctx.repo
    ctx.explanation = __doc__.split("\n", 2)[2].strip()
    ctx.assumptions = [
        "calls on receivers whose class cannot be resolved are applied to every repository method of that name (effects marked 'unresolved receiver'); for parameter buffers only exactly resolved effects are violations",
        "external library functions are taken as non-mutating except the listed mutators (random.shuffle, numpy.put/copyto/place, struct.pack_into, heapq.*, bisect.insort)",
        "nested function bodies are not analysed (the library has none that touch captured state; counted below)",
        "thread interleavings are out of scope (the CRC singletons are re-initialised per call, not locked)",
    ]
    ctx.rule("shared/no-inplace-mutation", "no function mutates a class-level / module-level mutable object, a mutable default value or a cached result in place")
    ctx.rule("shared/cached-result-handed-out", "a memoised (lru_cache / cache) function's mutable result is process-lifetime state: no encode / decode / check entry point hands that object to its caller — every caller would receive, and could change, the one object all later calls return")
    ctx.rule("shared/table-handed-out", "no codec function returns a class-level / module-level mutable object itself or a view of it (e.g. a row of a precomputed numpy table)")
    ctx.rule("self/observers-store-nothing", "__repr__ / __str__ / __len__ / __eq__ / __hash__ store no attribute on the object or on the objects it holds (a rendering with a side effect makes later results depend on whether it was called)")
    ctx.rule("self/no-memo-in-read-path", "no serialiser / checker / len / repr method both reads and writes one of its own attributes (a memo on the object that survives changes of the fields it was computed from)")
    ctx.rule("shared/one-shot-iterator", "no class-level / module-level value is a generator expression or another one-shot iterator (map / filter / zip / iter / reversed / enumerate object): the first use would consume it for the rest of the process")
    ctx.rule("time/no-salted-hash", "no codec function calls the builtin hash(): hashes of str / bytes / enum members are salted per interpreter, so a value derived from them differs between processes")
    ctx.rule("shared/crc-reset-before-use", "the shared CRC calculator singletons: calculate_checksum re-initialises every field that update / digest write, from configuration only, before it feeds data")
    ctx.rule("shared/diagnostic-flag", "a class attribute re-bound at run time is read only as the test of an `if` whose body is diagnostic output")
    ctx.rule("defaults/inventory", "every mutable default argument of the library: the object is never mutated in place, neither directly nor through the field it is stored in")
    ctx.rule("args/buffers-unchanged", "no codec function performs an in-place operation on (an alias of) a parameter or passes it to a function that does, apart from the documented exceptions")
    ctx.rule("args/exception-is-local", "each documented in-place helper is still what the table says (the effect exists, on that parameter)")
    ctx.rule("self/no-toggle-in-read-path", "encode / decode / check methods apply no toggling or accumulating in-place operation (reverse, invert, append, +=, ...) to fields of self")
    ctx.rule("time/no-clock-in-codec", "no codec function reaches time / date / random / secrets / uuid through the call graph")
    ctx.rule("time/no-clock-at-import", "default-argument expressions and class / module level statements of codec modules (evaluated at import) reach no clock either")
    ctx.rule("engine/positive-controls", "the same analysis, run on the probe module with one seeded violation per rule, reports each of them and stays silent on its pure twins")

    eff = Effects(repo).run()
    ctx.extra["functions_analysed"] = len(eff.funcs)
    ctx.extra["fixpoint_rounds"] = eff.rounds
    ctx.extra["calls_resolved"] = eff.resolved_calls
    ctx.extra["calls_unresolved_receiver"] = eff.unresolved_calls
    ctx.extra["calling_contexts"] = len(eff.ctx_summ)
    for f in eff.funcs:
        if in_scope(f.qualname):
            ctx.saw_func(f)
    nested = sum(1 for f in eff.funcs for n in ast.walk(f.node) if isinstance(n, (ast.FunctionDef, ast.AsyncFunctionDef, ast.Lambda)) and n is not f.node)
    ctx.extra["nested_functions_not_analysed"] = nested
    if len(eff.funcs) < 500:
        raise AnalysisError(f"only {len(eff.funcs)} functions parsed — the library was not read completely")

    shared_rules(ctx, repo, eff)
    cached_result_rules(ctx, repo, eff)
    one_shot_rules(ctx, repo, eff)
    args_rules(ctx, repo, eff)
    self_rules(ctx, repo, eff)
    time_rules(ctx, repo, eff)
    positive_controls(ctx)
    ctx.require("shared/no-inplace-mutation", 40)
    ctx.require("defaults/inventory", 6)
    ctx.require("args/buffers-unchanged", 150)
    ctx.require("time/no-clock-in-codec", 300)
    ctx.require("shared/crc-reset-before-use", 2)


# ------------------------------------------------------------------------------------------------- shared state
def inventory(repo, eff):
    """every process-lifetime mutable object of the library: origin -> (kind, location)"""
    inv = {}
    for ci in repo.all_classes():
        for attr, expr in ci.assigns.items():
            if attr in ci.methods or repo.is_enum(ci):
                continue
            if eff.static_kind(expr, ci) != "imm":
                inv[("S", f"{ci.qualname}.{attr}")] = ("class-level", f"{ci.module.relpath}:{expr.lineno}")
    for m in repo.modules.values():
        if not m.name.startswith("okdmr.dmrlib"):
            continue
        for name, expr in m.assigns.items():
            if eff.static_kind(expr, None, m) != "imm":
                inv[("S", f"{m.short}:{name}")] = ("module-level", f"{m.relpath}:{expr.lineno}")
    for q in eff.cached:
        f = next(x for x in eff.funcs if x.qualname == q)
        inv[("S", f"cached result of {q}")] = ("lru_cache result", f.loc)
    return inv


_KEY_CONVERTERS = {"ba2int", "int", "tuple", "bytes", "str", "frozenset", "bytearray", "repr", "bool", "float", "frozenbitarray", "ba2hex"}
_KEY_WHOLE_METHODS = {"tobytes", "tolist", "to01", "hex", "copy", "__copy__"}


def _dotted(e):
    parts = []
    while isinstance(e, ast.Attribute):
        parts.append(e.attr)
        e = e.value
    if isinstance(e, ast.Name):
        return ".".join([e.id] + parts[::-1])
    return None


# objects that carry evolving state of their own: held in process-lifetime storage (a class-/module-level name, or a memo table),
# every later use depends on what earlier calls fed them
STATEFUL_MODULES = ("itertools",)
STATEFUL_CTORS = {"iter", "random.Random", "random.SystemRandom", "zlib.compressobj", "zlib.decompressobj", "io.BytesIO", "io.StringIO", "codecs.iterdecode", "codecs.iterencode",
                  "hashlib.md5", "hashlib.sha1", "hashlib.sha256", "hashlib.new", "collections.deque"}
STATEFUL_FACTORIES = {"codecs.getincrementaldecoder", "codecs.getincrementalencoder", "codecs.getreader", "codecs.getwriter"}   # factory(...)(...) is the stateful object


def stateful_object(expr, imports=None):
    """name of the stateful external object the expression creates, or None.  `imports` maps local names to dotted external names"""
    if not isinstance(expr, ast.Call):
        return None
    imports = imports or {}

    def full(f):
        d = _dotted(f)
        if d is None:
            return None
        head, _, rest = d.partition(".")
        head = imports.get(head, head)
        return head + ("." + rest if rest else "")
    if isinstance(expr.func, ast.Call):
        d = full(expr.func.func)
        return f"{d}(...)() object" if d in STATEFUL_FACTORIES else None
    d = full(expr.func)
    if d is None:
        return None
    if d in STATEFUL_CTORS or d.split(".")[0] in STATEFUL_MODULES:
        return f"{d}() object"
    return None


def module_imports(module) -> dict:
    out = {}
    tree = getattr(module, "tree", None)
    if tree is None:
        return out
    for n in ast.walk(tree):
        if isinstance(n, ast.Import):
            for a in n.names:
                out[(a.asname or a.name).split(".")[0]] = a.name if a.asname else a.name.split(".")[0]
        elif isinstance(n, ast.ImportFrom) and n.module and not n.level:
            for a in n.names:
                out[a.asname or a.name] = f"{n.module}.{a.name}"
    return out


def memo_exempt(ev, repo=None) -> bool:
    """`TABLE[key] = value` inside a function is a sound memo when the key DETERMINES the value: every input the stored value is
    computed from (backward slice over the function's local definitions, in-place updates and the loops / alternatives that
    select among them) is a variable the key preserves — the key is that variable, a tuple containing it, or a whole-value
    conversion of it (ba2int(x), tuple(x), x.tobytes(), x.tolist(), ...), possibly through single-assignment locals.  A
    parameter (self / cls included — they stand for state) or attribute the value depends on and the key does not preserve
    (a width-only key for a (width, polynomial) table; a word-only key for a per-class verdict) is reported.  A `cls` that can
    only be one class (no subclass in the library) is a constant."""
    n = ev.node
    key_expr = value_expr = None
    if isinstance(n, ast.Assign) and len(n.targets) == 1 and isinstance(n.targets[0], ast.Subscript):
        key_expr, value_expr = n.targets[0].slice, n.value
    else:
        # the same store spelt `TABLE.setdefault(key, value)` (bare, or as the value of an assignment / return)
        c = n if isinstance(n, ast.Call) else getattr(n, "value", None)
        if isinstance(c, ast.Call) and isinstance(c.func, ast.Attribute) and c.func.attr == "setdefault" and len(c.args) == 2 and not c.keywords:
            key_expr, value_expr = c.args
    if key_expr is None:
        return False
    if stateful_object(value_expr, module_imports(ev.fi.module)):
        return False      # the table holds a stateful handle (an incremental decoder, a counter ...), not a value
    fn = ev.fi.node
    a = fn.args
    params = {p.arg for p in a.posonlyargs + a.args + a.kwonlyargs} | ({a.vararg.arg} if a.vararg else set()) | ({a.kwarg.arg} if a.kwarg else set())
    defs, muts, attr_stores = {}, {}, set()

    def root_name(t):
        while isinstance(t, (ast.Attribute, ast.Subscript, ast.Starred)):
            t = t.value
        return t.id if isinstance(t, ast.Name) else None

    def add_target(t, exprs, ctl):
        if isinstance(t, ast.Name):
            defs.setdefault(t.id, []).append((exprs, ctl))
        elif isinstance(t, (ast.Tuple, ast.List)):
            for e in t.elts:
                add_target(e, exprs, ctl)
        elif isinstance(t, ast.Starred):
            add_target(t.value, exprs, ctl)
        else:
            r = root_name(t)
            if isinstance(t, ast.Attribute) and _dotted(t):
                attr_stores.add(_dotted(t))
            if r is not None:
                extra = [t.slice] if isinstance(t, ast.Subscript) else []
                muts.setdefault(r, []).append((exprs + extra, ctl))

    def walk(stmts, loops, ifs):
        for st in stmts:
            ctl = (tuple(loops), tuple(ifs))
            if isinstance(st, (ast.FunctionDef, ast.AsyncFunctionDef, ast.ClassDef)):
                defs.setdefault(st.name, []).append(([], ctl))
                continue
            if isinstance(st, ast.Assign):
                if st is not n:
                    for t in st.targets:
                        add_target(t, [st.value], ctl)
            elif isinstance(st, ast.AnnAssign):
                if st.value is not None:
                    add_target(st.target, [st.value], ctl)
            elif isinstance(st, ast.AugAssign):
                add_target(st.target, [st.value, st.target], ctl)
                r = root_name(st.target)
                if r is not None:
                    muts.setdefault(r, []).append(([st.value], ctl))
            elif isinstance(st, (ast.For, ast.AsyncFor)):
                add_target(st.target, [st.iter], ctl)
                walk(st.body, loops + [st.iter], ifs)
                walk(st.orelse, loops, ifs)
                continue
            elif isinstance(st, ast.While):
                walk(st.body, loops + [st.test], ifs)
                walk(st.orelse, loops, ifs)
                continue
            elif isinstance(st, ast.If):
                walk(st.body, loops, ifs + [st.test])
                walk(st.orelse, loops, ifs + [st.test])
                continue
            elif isinstance(st, (ast.With, ast.AsyncWith)):
                for it in st.items:
                    if it.optional_vars is not None:
                        add_target(it.optional_vars, [it.context_expr], ctl)
                walk(st.body, loops, ifs)
                continue
            elif isinstance(st, ast.Try):
                walk(st.body, loops, ifs)
                for h in st.handlers:
                    if h.name:
                        defs.setdefault(h.name, []).append(([], ctl))
                    walk(h.body, loops, ifs + [ast.Constant(value=None)])
                walk(st.orelse, loops, ifs)
                walk(st.finalbody, loops, ifs)
                continue
            elif isinstance(st, ast.Expr) and isinstance(st.value, ast.Call):
                c = st.value
                argx = list(c.args) + [k.value for k in c.keywords]
                if isinstance(c.func, ast.Attribute):
                    r = root_name(c.func.value)
                    if r is not None:
                        muts.setdefault(r, []).append((argx, ctl))
                for x in argx:           # an object handed to a call may be updated in place by it
                    r = root_name(x)
                    if r is not None:
                        muts.setdefault(r, []).append(([c.func] + [y for y in argx if y is not x], ctl))
            for sub in ast.walk(st):
                if isinstance(sub, ast.NamedExpr):
                    add_target(sub.target, [sub.value], ctl)
    walk(fn.body, [], [])

    def stable(name):
        return not muts.get(name) and (len(defs.get(name, [])) == 0 if name in params else len(defs.get(name, [])) == 1)

    def preserved(e, depth=0):
        if depth > 8:
            return set()
        if isinstance(e, ast.Name):
            if not stable(e.id):
                return set()
            out = {e.id}
            if e.id not in params:
                out |= preserved(defs[e.id][0][0][0], depth + 1) if defs[e.id][0][0] else set()
            return out
        if isinstance(e, (ast.Tuple, ast.List)):
            out = set()
            for x in e.elts:
                out |= preserved(x, depth + 1)
            return out
        if isinstance(e, ast.Call):
            f = e.func
            if isinstance(f, ast.Name) and f.id in _KEY_CONVERTERS and len(e.args) == 1:
                return preserved(e.args[0], depth + 1)
            if isinstance(f, ast.Attribute) and f.attr in _KEY_WHOLE_METHODS and not e.args:
                return preserved(f.value, depth + 1)
            return set()
        if isinstance(e, ast.Attribute):
            d = _dotted(e)
            return {d} if d and d not in attr_stores and not any(d.startswith(x + ".") or x.startswith(d + ".") for x in attr_stores) else set()
        return set()

    keep = preserved(key_expr)
    if not keep:
        return False
    const_cls = False
    if repo is not None and ev.fi.cls is not None and ev.fi.kind == "classmethod" and a.args:
        const_cls = not any(ev.fi.cls in repo.mro(c) and c is not ev.fi.cls for c in repo.all_classes())
    seen = set()

    def name_leaves(x):
        if x in seen:
            return set()
        seen.add(x)
        out = set()
        items = defs.get(x, []) + muts.get(x, [])
        many = len(defs.get(x, [])) > 1
        for exprs, (loops, ifs) in items:
            for e in exprs:
                out |= leaves(e, frozenset())
            for e in loops:
                out |= leaves(e, frozenset())
            if many:
                for e in ifs:
                    out |= leaves(e, frozenset())
        return out

    def leaves(e, bound):
        if e is None or isinstance(e, ast.Constant):
            return set()
        if isinstance(e, ast.Name):
            if e.id in bound or e.id in keep:
                return set()
            if e.id in params:
                if const_cls and e.id == a.args[0].arg:
                    return set()
                return {e.id} | (name_leaves(e.id) if (defs.get(e.id) or muts.get(e.id)) else set())
            if e.id in defs or e.id in muts:
                return name_leaves(e.id)
            return set()
        if isinstance(e, ast.Attribute):
            d = _dotted(e)
            if d is not None and d in keep:
                return set()
            return leaves(e.value, bound)
        if isinstance(e, (ast.ListComp, ast.SetComp, ast.GeneratorExp, ast.DictComp)):
            b2 = set(bound)
            out = set()
            for g in e.generators:
                out |= leaves(g.iter, frozenset(b2))
                b2 |= {x.id for x in ast.walk(g.target) if isinstance(x, ast.Name)}
                for c in g.ifs:
                    out |= leaves(c, frozenset(b2))
            for part in ([e.key, e.value] if isinstance(e, ast.DictComp) else [e.elt]):
                out |= leaves(part, frozenset(b2))
            return out
        if isinstance(e, ast.Lambda):
            la = e.args
            b2 = set(bound) | {p.arg for p in la.posonlyargs + la.args + la.kwonlyargs}
            return leaves(e.body, frozenset(b2))
        out = set()
        for c in ast.iter_child_nodes(e):
            if isinstance(c, (ast.expr, ast.keyword)):
                out |= leaves(c.value if isinstance(c, ast.keyword) else c, bound)
        return out

    return not leaves(value_expr, frozenset())


def crc_reset_rule(ctx, repo, eff):
    """returns the set of calculator classes for which re-initialisation before use is proved"""
    proved = set()
    calc = repo.cls("etsi.crc.crc", "BitCrcCalculator")
    cc = repo.find_method(calc, "calculate_checksum")
    ctx.saw_func(cc)
    # must-pass-through: on every path through calculate_checksum no update() / digest() of the register happens before init()
    # of the same register (other statements may come and go — only the order of the register calls matters)
    reg_attrs = set()

    # local aliases of a field of self (`register = self._crc_register`), assigned once and never re-bound
    alias = {}
    rebound = set()
    for n_ in ast.walk(cc.node):
        if isinstance(n_, (ast.Assign, ast.AnnAssign)) and n_.value is not None:
            t_ = n_.targets[0] if isinstance(n_, ast.Assign) else n_.target
            if isinstance(t_, ast.Name):
                v_ = n_.value
                if t_.id in alias or t_.id in rebound:
                    rebound.add(t_.id)
                    alias.pop(t_.id, None)
                elif isinstance(v_, ast.Attribute) and isinstance(v_.value, ast.Name) and v_.value.id == "self":
                    alias[t_.id] = v_.attr
                else:
                    rebound.add(t_.id)

    def reg_call(node):
        """(attr of self holding the register, method) if node is self.<attr>.<method>(...) or <alias of self.<attr>>.<method>(...)"""
        if isinstance(node, ast.Call) and isinstance(node.func, ast.Attribute) and node.func.attr in ("init", "update", "digest"):
            recv = node.func.value
            if isinstance(recv, ast.Attribute) and isinstance(recv.value, ast.Name) and recv.value.id == "self":
                return recv.attr, node.func.attr
            if isinstance(recv, ast.Name) and recv.id in alias:
                return alias[recv.id], node.func.attr
        return None
    problems = []

    def walk(stmts, inited: bool) -> bool:
        for st in stmts:
            if isinstance(st, ast.If):
                for n in ast.walk(st.test):
                    rc = reg_call(n)
                    if rc and rc[1] != "init" and not inited:
                        problems.append(f"line {n.lineno}: {rc[1]}() before init()")
                a = walk(st.body, inited)
                b = walk(st.orelse, inited)
                inited = a and b
                continue
            if isinstance(st, (ast.For, ast.While, ast.With, ast.Try)):
                inited = walk(getattr(st, "body", []), inited) and inited
                continue
            calls = [reg_call(n) for n in ast.walk(st)]
            calls = [c for c in calls if c]
            # evaluation order inside one statement: source order of the calls
            for attr, meth in sorted(calls, key=lambda c: 0):
                reg_attrs.add(attr)
            for n in sorted((n for n in ast.walk(st) if reg_call(n)), key=lambda n: (n.lineno, n.col_offset)):
                attr, meth = reg_call(n)
                if meth == "init":
                    inited = True
                elif not inited:
                    problems.append(f"line {n.lineno}: {meth}() before init()")
        return inited
    walk(cc.node.body, False)
    uses = [n for n in ast.walk(cc.node) if reg_call(n)]
    order_ok = not problems and any(reg_call(n)[1] == "init" for n in uses) and any(reg_call(n)[1] == "digest" for n in uses) and len(reg_attrs) == 1
    reg_attr = next(iter(reg_attrs)) if len(reg_attrs) == 1 else None
    # register classes stored in that field
    regs = [c for c in repo.all_classes() if c.module.short == "etsi.crc.crc" and repo.find_method(c, "init") is not None and repo.find_method(c, "_process_bits") is not None
            and not any("abstractmethod" in d for d in repo.find_method(c, "_process_bits").decorators)]
    if not regs:
        raise AnalysisError("CRC register classes not found")

    def writes(ci, meth, seen=None):
        """fields of self written by method (setters resolved, calls on self followed)"""
        seen = seen if seen is not None else set()
        fi = repo.find_method(ci, meth) if isinstance(meth, str) else meth
        if fi is None or fi.qualname + str(id(fi)) in seen:
            return set(), set()
        seen.add(fi.qualname + str(id(fi)))
        w, r = set(), set()
        for n in ast.walk(fi.node):
            if isinstance(n, ast.Attribute) and isinstance(n.value, ast.Name) and n.value.id == "self":
                if isinstance(n.ctx, ast.Store):
                    setter = None
                    for c in repo.mro(ci):
                        if n.attr + ".setter" in c.methods:
                            setter = c.methods[n.attr + ".setter"]
                            break
                    if setter is not None:
                        w2, r2 = writes(ci, setter, seen)
                        w |= w2
                        r |= r2
                    else:
                        w.add(n.attr)
                else:
                    m = repo.find_method(ci, n.attr)
                    if m is not None:
                        w2, r2 = writes(ci, m, seen)
                        w |= w2
                        r |= r2
                    else:
                        r.add(n.attr)
        # augmented stores read too
        return w, r

    for ci in regs:
        w_init, r_init = writes(ci, "init")
        w_use = set()
        for m in ("update", "digest", "_process_bits", "reverse"):
            w_use |= writes(ci, m)[0]
        every = set()
        for c in repo.mro(ci):
            for name, fi in c.methods.items():
                if name not in ("__init__",):
                    every |= writes(ci, fi)[0]
        config_fields = r_init - every     # fields init reads that nothing but the constructor writes
        # init must give the register a FRESH object: `self.x = self.<configuration field>` (no copy, no constructor call) makes the
        # working register an alias of the configuration object, and the in-place shifts / xors of the use phase then change the
        # configuration for every later call
        aliased = []
        fi_init = repo.find_method(ci, "init")
        for n_ in ast.walk(fi_init.node) if fi_init is not None else ():
            if isinstance(n_, ast.Assign) and isinstance(n_.value, ast.Attribute) and isinstance(n_.value.value, ast.Name) and n_.value.value.id == "self" \
                    and n_.value.attr in config_fields:
                for t_ in n_.targets:
                    if isinstance(t_, ast.Attribute) and isinstance(t_.value, ast.Name) and t_.value.id == "self":
                        aliased.append(f"line {n_.lineno}: self.{t_.attr} = self.{n_.value.attr} (the configuration object itself, not a copy)")
        ok = order_ok and w_use <= w_init and r_init <= (config_fields | set()) and bool(w_use) and not aliased
        ctx.ob("shared/crc-reset-before-use", f"{ci.qualname}", ok,
               f"in calculate_checksum every update() / digest() of self.{reg_attr} is preceded by its init() on every path: {order_ok}{(' (' + '; '.join(problems[:2]) + ')') if problems else ''}; "
               f"written while in use {sorted(w_use)}, re-initialised by init {sorted(w_init)}, "
               f"init reads {sorted(r_init)} of which only constructor-written {sorted(config_fields)}"
               + (f"; init aliases a configuration object: {'; '.join(aliased[:2])}" if aliased else ""), ci.loc)
        if ok:
            proved.add(ci.qualname)
    return proved, len(regs), w_use | w_init


def diagnostic_flag_rule(ctx, repo, eff, origin, ev):
    """class attribute re-bound at run time: all its reads must be `if <flag>:` tests guarding print / logging only"""
    qual = origin[1]
    clsq, attr = qual.rsplit(".", 1)
    ci = next((c for c in repo.all_classes() if c.qualname == clsq), None)
    bad, reads = [], 0
    if ci is None:
        return False, "class not found"
    names = {ci.name, "cls", "self"}
    for f in eff.funcs:
        for n in ast.walk(f.node):
            if isinstance(n, ast.Attribute) and n.attr == attr and isinstance(n.ctx, ast.Load) and isinstance(n.value, ast.Name) and n.value.id in names \
                    and (n.value.id == ci.name or (f.cls is not None and (f.cls is ci or ci in repo.mro(f.cls)))):
                reads += 1
                guard = next((s for s in ast.walk(f.node) if isinstance(s, ast.If) and s.test is n), None)
                if guard is None:
                    bad.append(f"{f.qualname}:{n.lineno} read outside an `if` test")
                    continue
                for st in guard.body + guard.orelse:
                    okst = isinstance(st, ast.Expr) and isinstance(st.value, ast.Call) and (
                        (isinstance(st.value.func, ast.Name) and st.value.func.id == "print")
                        or (isinstance(st.value.func, ast.Attribute) and st.value.func.attr in ("debug", "info", "warning", "error", "log_debug", "log_info", "log_warning", "log_error")))
                    if not okst:
                        bad.append(f"{f.qualname}:{st.lineno} the guarded block does more than print / log")
    return not bad and reads > 0, "; ".join(bad[:3]) or f"{reads} reads, each the test of an `if` that only prints"


ONE_SHOT_CALLS = {"map", "filter", "zip", "iter", "reversed", "enumerate"}


def one_shot_rules(ctx, repo, eff):
    def one_shot(expr, module=None, ci=None, depth=0):
        if isinstance(expr, ast.GeneratorExp):
            return "generator expression"
        if isinstance(expr, ast.Call) and isinstance(expr.func, ast.Name) and expr.func.id in ONE_SHOT_CALLS:
            return f"{expr.func.id}() object"
        so = stateful_object(expr, module_imports(module) if module is not None else None)
        if so:
            return so
        if isinstance(expr, ast.Call) and module is not None and depth < 3:
            # the result of a library function every `return` of which hands out such an object
            callee = None
            if isinstance(expr.func, ast.Name):
                r = repo.resolve(module, expr.func.id)
                callee = r if isinstance(r, FuncInfo) else None
            elif isinstance(expr.func, ast.Attribute) and isinstance(expr.func.value, ast.Name):
                owner = ci if (ci is not None and expr.func.value.id in ("cls", "self", ci.name)) else repo.resolve_expr_class(module, expr.func.value)
                callee = repo.find_method(owner, expr.func.attr) if owner is not None else None
            if callee is not None and not isinstance(callee.node, ast.Lambda):
                rets = [x for x in ast.walk(callee.node) if isinstance(x, ast.Return) and x.value is not None]
                kinds = [one_shot(x.value, callee.module, getattr(callee, "cls", None), depth + 1) for x in rets]
                if rets and all(kinds):
                    return f"result of {callee.qualname}(), which returns a {kinds[0]}"
        return None
    n = 0
    for ci in repo.all_classes():
        for attr, expr in ci.assigns.items():
            if attr in ci.methods:
                continue
            n += 1
            k = one_shot(expr, ci.module, ci)
            if k or n <= 1:
                ctx.ob("shared/one-shot-iterator", f"{ci.qualname}.{attr}", not k, f"class-level {k}" if k else "not an iterator", f"{ci.module.relpath}:{expr.lineno}")
    for m in repo.modules.values():
        if not m.name.startswith("okdmr.dmrlib"):
            continue
        for name, expr in m.assigns.items():
            n += 1
            k = one_shot(expr, m, None)
            if k:
                ctx.ob("shared/one-shot-iterator", f"{m.short}:{name}", False, f"module-level {k}", f"{m.relpath}:{expr.lineno}")
    ctx.ob("shared/one-shot-iterator", "all class-level and module-level initialisers", True, f"{n} initialisers inspected", "")
    # salted hashes
    nh = 0
    for f in eff.funcs:
        if not in_scope(f.qualname):
            continue
        calls = [x for x in ast.walk(f.node) if isinstance(x, ast.Call) and isinstance(x.func, ast.Name) and x.func.id == "hash"
                 and not (len(x.args) == 1 and isinstance(x.args[0], ast.Constant) and isinstance(x.args[0].value, (int, bool)))]
        if f.name == "__hash__":
            continue   # defining an object's hash for use as a dictionary key is what hash() is for; the value is not a codec result
        nh += 1
        if calls:
            ctx.ob("time/no-salted-hash", f.qualname, False, f"line {calls[0].lineno}: {ast.unparse(calls[0])[:60]}", f"{f.module.relpath}:{calls[0].lineno}")
    ctx.ob("time/no-salted-hash", "all codec functions", True, f"{nh} functions inspected", "")


def cached_result_rules(ctx, repo, eff):
    n = 0
    by_q = {f.qualname: f for f in eff.funcs}
    for gq in sorted(eff.cached):
        g = by_q.get(gq)
        if g is None:
            continue
        n += 1
        gs = eff.summ[gq]
        mutable = gs.ret_kind not in ("imm", None)
        origin = ("S", f"cached result of {gq}")
        leaks = []
        if mutable and g.name.startswith(READ_METHODS) and in_scope(gq):
            leaks.append(f"{gq} is itself an entry point: each call returns the one cached {gs.ret_kind!r} object")
        if mutable:
            for f in eff.funcs:
                if f is g or not in_scope(f.qualname) or not f.name.startswith(READ_METHODS):
                    continue
                fs = eff.summ[f.qualname]
                if origin in fs.ret_own:
                    leaks.append(f"{f.qualname} returns it")
        ctx.ob("shared/cached-result-handed-out", gq, not leaks, "; ".join(leaks[:3]) or (f"result kind {gs.ret_kind!r}: " + ("immutable" if not mutable else "stays inside the library (no entry point returns it)")), g.loc)
    ctx.extra["memoised_functions"] = n
    # the same for class-level / module-level mutable objects (a table of precomputed codewords ...): a codec function whose
    # result may BE such an object, or a view of it (a numpy row), hands every caller the one object all later calls read
    inv = inventory(repo, eff)
    nt = 0
    for f in eff.funcs:
        if not in_scope(f.qualname):
            continue
        nt += 1
        fs = eff.summ[f.qualname]
        hit = sorted(o[1] for o in fs.ret_own if isinstance(o, tuple) and o in inv and not o[1].startswith("cached result of"))
        # only results that are DEFINITELY buffers (a numpy view, a bitarray / bytearray): an element of unknown kind looked up in a
        # table (an int, a tuple, an enumeration member) is what most table look-ups return, and it is immutable
        if hit and fs.ret_kind in ("np", "flat"):
            ctx.ob("shared/table-handed-out", f.qualname, False, f"the result may be (a view of) the process-lifetime object {hit[0]} ({inv[('S', hit[0])][0]}) — a caller that edits it changes what every later call returns", f.loc)
    ctx.ob("shared/table-handed-out", "all codec functions", True, f"{nt} functions inspected", "")


def shared_rules(ctx, repo, eff):
    inv = inventory(repo, eff)
    default_orig = {eff.default_origin(f, p): (f, p, d) for f, p, d in eff.defaults}
    by_origin = {}
    for ev in eff.events.values():
        if ev.origin[0] == "S":
            by_origin.setdefault(ev.origin, []).append(ev)
    proved_regs, n_regs, reg_fields = crc_reset_rule(ctx, repo, eff)
    calc_q = "etsi.crc.crc:BitCrcCalculator.calculate_checksum"
    for origin in sorted(set(inv) | set(by_origin) - set(default_orig), key=repr):
        if origin in default_orig:
            continue
        kind, loc = inv.get(origin, ("shared object", ""))
        evs = sorted(by_origin.get(origin, []), key=repr)
        left, notes = [], []
        for ev in evs:
            if memo_exempt(ev, repo):
                notes.append(f"memo store at {ev.fi.qualname}:{ev.line} (the key determines the value)")
                continue
            # only the register's own state, written by the register's own methods, is covered by the re-initialisation proof
            reg_only = ev.via and ev.via[0] == calc_q and all(v.startswith("etsi.crc.crc:") and "Register" in v for v in ev.via[1:]) \
                and ev.how.startswith("attribute store .") and ev.how.split(".", 1)[1].split()[0] in (reg_fields | {"register"})
            # the register's update() seen as an in-place call on an unresolved receiver, directly inside calculate_checksum
            # (its position after init() is what the path-order rule proves)
            reg_only = reg_only or (ev.via == (calc_q,) and ev.how in (".update() (in place)",))
            if reg_only and len(proved_regs) == n_regs:
                notes.append(f"{ev.fi.qualname}:{ev.line} uses the shared calculator through calculate_checksum (re-initialised before use: shared/crc-reset-before-use)")
                continue
            if ev.how.startswith("class attribute re-bound"):
                ok, detail = diagnostic_flag_rule(ctx, repo, eff, origin, ev)
                ctx.ob("shared/diagnostic-flag", f"{origin[1]} re-bound in {ev.fi.qualname}", ok, detail, f"{ev.fi.module.relpath}:{ev.line}")
                if ok:
                    notes.append(f"re-bound at {ev.fi.qualname}:{ev.line} (diagnostic flag: shared/diagnostic-flag)")
                    continue
            left.append(ev)
        ctx.ob("shared/no-inplace-mutation", f"{kind} {origin[1]}", not left,
               "; ".join(f"{e.fi.module.relpath}:{e.line} {e.fi.qualname}: {e.how}" + (f" (through {' <- '.join(x.split(':')[-1] for x in e.via)})" if e.via else "") for e in left[:3])
               or ("; ".join(notes[:2]) if notes else "no in-place operation reaches it"), loc or (left[0].fi.loc if left else ""))
    for origin, (f, p, d) in sorted(default_orig.items(), key=repr):
        evs = sorted(by_origin.get(origin, []), key=repr)
        stored = sorted(f"{c.split(':')[-1]}.{a}" for (c, a), os_ in eff.field_store.items() if origin in os_)
        ctx.ob("defaults/inventory", f"{f.qualname}({p}={ast.unparse(d)[:30]})", not evs,
               "; ".join(f"{e.fi.module.relpath}:{e.line} {e.fi.qualname}: {e.how}" + (f" (through {' <- '.join(x.split(':')[-1] for x in e.via)})" if e.via else "") for e in evs[:3])
               or f"never mutated in place; kept by reference in {stored or 'no field'}", f"{f.module.relpath}:{d.lineno}")


# ------------------------------------------------------------------------------------------------- argument buffers
def args_rules(ctx, repo, eff):
    by_fp = {}
    fuzzy = 0
    for ev in eff.events.values():
        if ev.origin[0] == "P" and ev.origin[1] not in ("self", "cls"):
            if ev.fuzzy:
                fuzzy += 1
                continue
            by_fp.setdefault((ev.fi.qualname, ev.origin[1]), []).append(ev)
    ctx.extra["parameter_effects_with_unresolved_receiver"] = fuzzy
    # exposure: an in-place operation on a parameter matters when the object can come from outside — the function has no caller
    # inside the library (it is API surface only), or some library caller hands it one of ITS OWN parameters / a process-lifetime
    # object (then the effect shows up at that caller too).  A helper that every library call site feeds with an object the
    # caller created itself (output-parameter style: fill / correct a work table, initialise a new burst) is internal.
    callers = {}
    for c, ts in eff.calls.items():
        for t in ts:
            callers.setdefault(t, set()).add(c)
    passed_on = {ev.via[0] for ev in eff.events.values() if ev.via and not ev.fuzzy and ev.origin[0] in ("P", "S")}
    internal = 0
    seen_exc = set()
    for f in eff.funcs:
        if not in_scope(f.qualname):
            continue
        a = f.node.args
        params = [p.arg for p in a.posonlyargs + a.args + a.kwonlyargs]
        if f.cls is not None and f.kind in ("method", "classmethod", "property", "setter") and params:
            params = params[1:]
        for p in params:
            evs = sorted(by_fp.get((f.qualname, p), []), key=repr)
            exc = ARG_EXCEPTIONS.get((f.qualname, p))
            if exc is not None:
                seen_exc.add((f.qualname, p))
                if evs:
                    ctx.ob("args/exception-is-local", f"{f.qualname}({p})", True, f"{exc}; effect: {evs[0].how}", f.loc)
                else:
                    # the documented in-place helper no longer shows an in-place effect to the analysis (the repair goes through a
                    # bound-method alias, or the helper stopped working in place): less mutation is never a violation of the property
                    ctx.info(f"exception table entry {f.qualname}({p}): no in-place effect found (entry unused on this tree)")
                continue
            if evs and not callers.get(f.qualname) and f.name.startswith(("fill_", "set_")) and p in eff.summ[f.qualname].ret_own:
                # an output-parameter builder that no library function calls (any more): it fills the object it is handed and returns that
                # very object, which is what its name says — not an encode / decode / check entry point.  (The verdict about an
                # unchanged helper must not flip because a refactoring removed its last caller.)
                internal += 1
                ctx.info(f"{f.qualname}({p}) fills and returns the object it is handed ({evs[0].how}); no library caller — output-parameter builder")
                evs = []
            if evs and callers.get(f.qualname) and f.qualname not in passed_on:
                internal += 1
                ctx.info(f"{f.qualname}({p}) works in place on its argument ({evs[0].how}); all {len(callers[f.qualname])} library caller(s) pass objects they created themselves — internal output-parameter helper")
                evs = []
            ctx.ob("args/buffers-unchanged", f"{f.qualname}({p})", not evs,
                   "; ".join(f"line {e.line}: {e.how}" + (f" through {' <- '.join(x.split(':')[-1] for x in e.via)}" if e.via else "") for e in evs[:3]), f"{f.module.relpath}:{evs[0].line if evs else f.node.lineno}")
    ctx.extra["internal_output_parameter_helpers"] = internal
    for k in ARG_EXCEPTIONS:
        if k not in seen_exc:
            ctx.info(f"exception table entry {k} names a function / parameter that no longer exists (ignored)")


# ------------------------------------------------------------------------------------------------- self
def self_rules(ctx, repo, eff):
    n = 0
    for f in eff.funcs:
        if not in_scope(f.qualname) or f.cls is None or not f.name.startswith(READ_METHODS) or f.kind in ("staticmethod", "classmethod"):
            continue
        n += 1
        evs = [ev for ev in eff.events.values() if ev.fi is f and ev.origin == ("P", "self") and not ev.fuzzy and ev.how.startswith(TOGGLES)
               and not any(v.split(":")[-1].split(".")[-1] in ("__init__",) for v in ev.via)]
        # the CRC register is a state machine by design (covered by shared/crc-reset-before-use)
        evs = [e for e in evs if not f.qualname.startswith("etsi.crc.crc:")]
        ctx.ob("self/no-toggle-in-read-path", f.qualname, not evs,
               "; ".join(f"line {e.line}: {e.how}" + (f" through {' <- '.join(x.split(':')[-1] for x in e.via)}" if e.via else "") for e in sorted(evs, key=repr)[:3]), f.loc)
    ctx.extra["read_path_methods"] = n
    # pure observers — __repr__, __str__, __len__, __eq__, __hash__ — store nothing on the object or on what it holds: a rendering that
    # attaches context to a sub-object changes what a later serialisation returns (the result depends on whether repr() was called)
    OBSERVERS = ("__repr__", "__str__", "__len__", "__eq__", "__hash__")
    n_obs = 0
    for f in eff.funcs:
        if not in_scope(f.qualname) or f.cls is None or f.name not in OBSERVERS:
            continue
        n_obs += 1
        evs = [ev for ev in eff.events.values() if ev.fi is f and ev.origin == ("P", "self") and not ev.fuzzy and ev.how.startswith("attribute store")
               and not any(v.split(":")[-1].split(".")[-1] in ("__init__",) for v in ev.via)]
        ctx.ob("self/observers-store-nothing", f.qualname, not evs,
               "; ".join(f"line {e.line}: {e.how}" + (f" through {' <- '.join(x.split(':')[-1] for x in e.via)}" if e.via else "") for e in sorted(evs, key=repr)[:3]) or "stores nothing", f.loc)
    ctx.extra["observer_methods"] = n_obs
    # a read-path method that both reads and writes one of its own attributes keeps a memo on the object: the stored value
    # outlives the fields it was computed from (len / bytes of a re-used PDU object go stale)
    for f in eff.funcs:
        if not in_scope(f.qualname) or f.cls is None or not f.name.startswith(READ_METHODS) or f.kind in ("staticmethod", "classmethod") or not f.node.args.args:
            continue
        me = f.node.args.args[0].arg
        st, ld = {}, set()
        for x in ast.walk(f.node):
            if isinstance(x, ast.Attribute) and isinstance(x.value, ast.Name) and x.value.id == me:
                if isinstance(x.ctx, (ast.Store, ast.Del)):
                    st.setdefault(x.attr, x.lineno)
                else:
                    ld.add(x.attr)
        both = sorted(a for a in st if a in ld)
        # the CRC register is a state machine by design (covered by shared/crc-reset-before-use)
        if f.qualname.startswith("etsi.crc.crc:"):
            both = []
        ctx.ob("self/no-memo-in-read-path", f.qualname, not both,
               "; ".join(f"line {st[a]}: attribute `{a}` is read and written by this read-path method" for a in both[:3]) or "no own attribute is both read and written here",
               f"{f.module.relpath}:{st[both[0]] if both else f.node.lineno}")


# ------------------------------------------------------------------------------------------------- clock
def time_rules(ctx, repo, eff):
    targets = {f"ext:{c}" for c in CLOCK}
    # reverse reachability
    rev = {}
    for c, ts in eff.calls.items():
        for t in ts:
            rev.setdefault(t, set()).add(c)
    can = {}
    work = [(t, None) for t in targets if t in rev]
    while work:
        node, nxt = work.pop()
        if node in can:
            continue
        can[node] = nxt
        for c in rev.get(node, ()):
            if c not in can:
                work.append((c, node))

    def path(q):
        out = [q]
        while can.get(out[-1]) is not None:
            out.append(can[out[-1]])
        return out
    for f in eff.funcs:
        if not in_scope(f.qualname):
            continue
        bad = f.qualname in can
        ctx.ob("time/no-clock-in-codec", f.qualname, not bad, " -> ".join(x.split(":")[-1] for x in path(f.qualname)) if bad else "", f.loc)
    # import-time expressions of codec modules
    n = 0
    for f in eff.funcs:
        if not in_scope(f.qualname):
            continue
        a = f.node.args
        for d in list(a.defaults) + [x for x in a.kw_defaults if x is not None]:
            if not any(isinstance(x, ast.Call) for x in ast.walk(d)):
                continue
            n += 1
            bad = import_time_clock(repo, eff, can, f.module, f.cls, d)
            ctx.ob("time/no-clock-at-import", f"default of {f.qualname}: {ast.unparse(d)[:40]}", not bad, bad or "", f"{f.module.relpath}:{d.lineno}")
    for ci in repo.all_classes():
        if not in_scope(ci.qualname):
            continue
        for attr, expr in ci.assigns.items():
            if any(isinstance(x, ast.Call) for x in ast.walk(expr)):
                n += 1
                bad = import_time_clock(repo, eff, can, ci.module, ci, expr)
                ctx.ob("time/no-clock-at-import", f"{ci.qualname}.{attr}", not bad, bad or "", f"{ci.module.relpath}:{expr.lineno}")
    for m in repo.modules.values():
        if not m.name.startswith("okdmr.dmrlib") or not in_scope(m.short + ":"):
            continue
        for name, expr in m.assigns.items():
            if any(isinstance(x, ast.Call) for x in ast.walk(expr)):
                n += 1
                bad = import_time_clock(repo, eff, can, m, None, expr)
                ctx.ob("time/no-clock-at-import", f"{m.short}:{name}", not bad, bad or "", f"{m.relpath}:{expr.lineno}")
    ctx.extra["import_time_expressions"] = n


def import_time_clock(repo, eff, can, module, ci, expr):
    for c in ast.walk(expr):
        if not isinstance(c, ast.Call):
            continue
        fn = c.func
        dotted = ast.unparse(fn)
        # external clock directly
        parts = dotted.split(".")
        r = repo.resolve(module, parts[0])
        from sa.model import ModRef
        if isinstance(r, ModRef):
            full = ".".join([r.name] + parts[1:])
            if full in CLOCK:
                return f"calls {full}() at import"
        target = None
        if isinstance(r, FuncInfo) and len(parts) == 1:
            target = r
        elif isinstance(r, ClassInfo):
            target = repo.find_method(r, parts[1]) if len(parts) == 2 else repo.find_method(r, "__init__")
        elif parts[0] in ("cls", "self") and ci is not None and len(parts) == 2:
            target = repo.find_method(ci, parts[1])
        if target is not None and target.qualname in can:
            chain = [target.qualname]
            while can.get(chain[-1]) is not None:
                chain.append(can[chain[-1]])
            return "evaluated at import: " + " -> ".join(x.split(":")[-1] for x in chain)
    return None


# ------------------------------------------------------------------------------------------------- positive controls
PROBE_EXPECT = {
    # marker text after "# PROBE " -> predicate over events on that line
    "shared/class-level": lambda evs: any(e.origin[0] == "S" for e in evs),
    "shared/element-of-class-level": lambda evs: any(e.origin[0] == "S" for e in evs),
    "shared/default": lambda evs: any(e.origin[0] == "S" and "default of" in e.origin[1] for e in evs),
    "shared/cached": lambda evs: any(e.origin[0] == "S" and "cached result" in e.origin[1] for e in evs),
    "self/toggle": lambda evs: any(e.origin == ("P", "self") and e.how.startswith(TOGGLES) for e in evs),
    "args/buffer (through the helper)": lambda evs: any(e.origin == ("P", "data") and e.via for e in evs),
    "args/buffer (alias)": lambda evs: any(e.origin == ("P", "bits") for e in evs),
}


def positive_controls(ctx):
    root = pathlib.Path(__file__).resolve().parent.parent / "selftest" / "probes" / "c19"
    if not (root / "okdmr" / "dmrlib" / "etsi" / "probe.py").exists():
        raise AnalysisError("positive-control probe module missing")
    prepo = Repo(str(root))
    peff = Effects(prepo).run()
    src = (root / "okdmr" / "dmrlib" / "etsi" / "probe.py").read_text().splitlines()
    by_line = {}
    for ev in peff.events.values():
        by_line.setdefault(ev.line, []).append(ev)
    n = 0
    for i, line in enumerate(src, 1):
        if "# PROBE " not in line:
            continue
        tag = line.split("# PROBE ", 1)[1].strip()
        n += 1
        if tag.startswith("time/"):
            q = next((f.qualname for f in peff.funcs if f.node.lineno <= i <= f.node.end_lineno), None)
            ok = any(t[4:] in CLOCK for t in peff.calls.get(q, ()))
        else:
            ok = PROBE_EXPECT[tag](by_line.get(i, []))
        ctx.ob("engine/positive-controls", f"probe.py:{i} {tag}", ok, "reported" if ok else "the seeded violation was NOT reported — the engine lost this capability", f"selftest/probes/c19/okdmr/dmrlib/etsi/probe.py:{i}")
    # pure twins must stay silent
    for fn in ("pure_copy", "pure_rebind"):
        f = next(x for x in peff.funcs if x.name == fn)
        evs = [e for e in peff.events.values() if e.fi is f and e.origin[0] in ("P", "S")]
        ctx.ob("engine/positive-controls", f"probe.py {fn} (pure twin)", not evs, "silent" if not evs else f"false report: {evs[0]}", "")
    good = [e for e in peff.events.values() if e.fi.name == "good" and e.origin[0] == "S"]
    ctx.ob("engine/positive-controls", "probe.py Memo.good (memo whose key determines the value)", bool(good) and all(memo_exempt(e) for e in good), "exempted" if good else "store not seen", "")
    class _Collect:
        def __init__(self):
            self.failed = set()
            self.extra = {}

        def ob(self, rule, key, ok, detail="", loc="", facts=None):
            if not ok:
                self.failed.add((rule, key.split(":")[-1]))
    col = _Collect()
    self_rules(col, prepo, peff)
    one_shot_rules(col, prepo, peff)
    ctx.ob("engine/positive-controls", "probe.py Renders.__str__ (renders without storing: pure twin)", ("self/observers-store-nothing", "Renders.__str__") not in col.failed, "silent", "")
    for rule, key in (("self/no-memo-in-read-path", "LazyLength.__len__"), ("shared/one-shot-iterator", "LazyLength.ONE_SHOT"), ("time/no-salted-hash", "encode_salted"),
                      ("self/observers-store-nothing", "Renders.__repr__")):
        ctx.ob("engine/positive-controls", f"probe.py {key} ({rule})", (rule, key) in col.failed, "reported" if (rule, key) in col.failed else "the seeded violation was NOT reported", "")
    ctx.ob("engine/positive-controls", "probe.py LazyLength.as_bytes (reads, never writes: pure twin)", ("self/no-memo-in-read-path", "LazyLength.as_bytes") not in col.failed, "silent", "")
    co = ("S", next((f"cached result of {q}" for q in peff.cached if q.endswith("cached_bits")), "?"))
    for fn, want in (("encode_hands_out_cached", True), ("encode_copies_cached", False)):
        f = next((x for x in peff.funcs if x.name == fn), None)
        got = f is not None and co in peff.summ[f.qualname].ret_own
        ctx.ob("engine/positive-controls", f"probe.py {fn} (cached result {'handed out' if want else 'copied: pure twin'})", f is not None and got == want,
               "as expected" if got == want else "the engine gave the wrong answer for a cached result returned to the caller", "")
    pinv = inventory(prepo, peff)
    for fn, want in (("encode_hands_out_row", True), ("encode_copies_row", False)):
        f = next((x for x in peff.funcs if x.name == fn), None)
        got = f is not None and any(isinstance(o, tuple) and o in pinv for o in peff.summ[f.qualname].ret_own)
        ctx.ob("engine/positive-controls", f"probe.py {fn} (class-level table row {'handed out' if want else 'copied: pure twin'})", f is not None and got == want,
               "as expected" if got == want else "the engine gave the wrong answer for a class-level table row returned to the caller", "")
    for fn, want in (("good_derived", True), ("bad_partial_key", False), ("bad_lossy_key", False), ("good_setdefault", True), ("bad_setdefault", False)):
        evs = [e for e in peff.events.values() if e.fi.name == fn and e.origin[0] == "S"]
        got = bool(evs) and all(memo_exempt(e, prepo) for e in evs)
        ctx.ob("engine/positive-controls", f"probe.py Memo.{fn} (memo rule: {'exempt' if want else 'reported'})", bool(evs) and got == want,
               ("as expected" if got == want else "the memo rule gave the wrong answer") if evs else "store not seen", "")
    if n < 9:
        raise AnalysisError("probe markers missing")
