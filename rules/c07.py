"""C07 — a generated data transmission is received back: tables, and the whole generate -> serialise ->
parse -> track pipeline analysed with a symbolic payload for each analysed length / rate / mode."""
from __future__ import annotations

import ast

from sa.bitabs import ABits, AExt, AInt, AObj, AOpq, Abort, F, Interp, OB, PartialRaise, PathRaise, explore
from sa.model import AnalysisError, ClassRef, Unfoldable
from sa.summaries import install_trellis_inverse_pair

GMOD = "transmission.transmission_generator"
RATES = [("Rate12Data", "etsi.layer2.pdu.rate12_data", 12), ("Rate34Data", "etsi.layer2.pdu.rate34_data", 18), ("Rate1Data", "etsi.layer2.pdu.rate1_data", 24)]
QUICK_LENGTHS = [0, 1, 5, 6, 7, 8, 9, 10, 11, 12, 13, 14, 16, 17, 18, 19, 20, 23, 24, 25, 35, 36, 37, 47, 48, 49, 60]


def run(ctx):
    repo = ctx.repo
    gci = repo.cls(GMOD, "TransmissionGenerator")
    gdb = repo.find_method(gci, "generate_data_bursts")
    gfull = repo.find_method(gci, "generate_full_data_transmission")
    ctx.explanation = (
        "Block-size tables of the generator are folded from its body and compared with the Rate*DataTypes member "
        "values and resolve() tables.  Then, for each block rate, confirmed/unconfirmed mode and each analysed payload "
        "length, the REAL pipeline is analysed by abstract interpretation with symbolic payload octets: "
        "TransmissionGenerator.generate_full_data_transmission -> Burst.as_bytes (real BPTC / C10 inverse pair) -> "
        "Burst.from_bytes -> Transmission.process_packet (real receiver logic, typed re-parse) with an effect-recording "
        "observer.  Checked for ALL payload contents of that length: one started + one data-ended event, the received "
        "blocks' data concatenate to exactly the payload atoms followed by the announced zero pad octets, the trailing "
        "CRC-32 equals the uninterpreted CRC-32 of that data in the transmitted byte order, every confirmed block's "
        "CRC-9 indicator is provably True, and the preamble CSBKs count down to header + data blocks."
    )
    ctx.assumptions = ["lengths analysed are listed in coverage.lengths (all payload contents of each length); other lengths are not decided (fragmentation arithmetic on runtime integers)",
                       "an uninterpreted CRC value is assumed non-zero where the constructors test the in-band sentinel (the zero case is C04's known finding)",
                       "CRC engines uninterpreted (C05), trellis as inverse pair (C10), PDUs interpreted for real"]
    ctx.rule("gen/tables", "the generator's (rate, confirmed) -> (octets, octets of last block) table equals the values of the Rate*DataTypes members it selects, and resolve(confirmed,last) returns those members")
    ctx.rule("gen/roundtrip", "for every payload of the analysed length: exactly one start and one data end; the pad is smaller than an intermediate block (minimal fragmentation); data blocks concatenate to payload + announced pad; CRC-32 matches; confirmed CRC-9 indicators True; preamble countdown exact")
    # ---- tables
    # the two (rate class, confirmed) -> ... tables: dictionary displays with tuple keys, in the function itself or in the
    # module- / class-level constants it reads
    tables = [n for n in ast.walk(gdb.node) if isinstance(n, ast.Dict) and n.keys and isinstance(n.keys[0], ast.Tuple)]
    if len(tables) < 2:
        names = {x.id for x in ast.walk(gdb.node) if isinstance(x, ast.Name)} | {x.attr for x in ast.walk(gdb.node) if isinstance(x, ast.Attribute)}
        pool = dict(gdb.module.assigns)
        pool.update(gci.assigns)
        tables = [e for nm, e in pool.items() if nm in names and isinstance(e, ast.Dict) and e.keys and isinstance(e.keys[0], ast.Tuple)]
    sizes = types_ = None
    if len(tables) >= 2:
        try:
            folded = [repo.fold_expr(t, gdb.module, gci) for t in tables[:2]]
            # which one holds plain sizes, which one enum members
            folded.sort(key=lambda d: 0 if all(isinstance(v, tuple) and all(isinstance(x, int) for x in v) for v in d.values()) else 1)
            sizes, types_ = folded
        except Unfoldable:
            sizes = types_ = None
    if sizes is None:
        ctx.info(f"{gdb.qualname}: the block-size tables were not located syntactically; the table cross-check is skipped (gen/roundtrip decides the block sizes semantically)")
        sizes, types_ = {}, {}
    bad = []
    for (cref, conf), (n_, nl) in sizes.items():
        t1, t2 = types_.get((cref, conf), (None, None))
        if t1 is None or t1.value != n_ or t2.value != nl:
            bad.append(f"{cref.info.name},{conf}: sizes ({n_},{nl}) vs members {t1}={getattr(t1, 'value', None)}, {t2}={getattr(t2, 'value', None)}")
        want = ("Confirmed", "ConfirmedLastBlock") if conf else ("Unconfirmed", "UnconfirmedLastBlock")
        if t1 is not None and (t1.name, t2.name) != want:
            bad.append(f"{cref.info.name},{conf}: selects {t1.name},{t2.name}")
    for cname, mod, N in RATES:
        tci = repo.cls(mod, cname.replace("Data", "DataTypes"))
        mem = repo.enum_members(tci)
        if [mem[k].value for k in ("Unconfirmed", "Confirmed", "UnconfirmedLastBlock", "ConfirmedLastBlock")] != [N, N - 2, N - 4, N - 6]:
            bad.append(f"{tci.name} values are not N, N-2, N-4, N-6 for N={N}")
        I = Interp(repo)
        rs = repo.find_method(tci, "resolve")
        for conf in (True, False):
            for last in (True, False):
                r = I.call(rs, [], {"confirmed": conf, "last": last})
                want = ("Confirmed" if conf else "Unconfirmed") + ("LastBlock" if last else "")
                if r != mem[want]:
                    bad.append(f"{tci.name}.resolve({conf},{last}) = {r}")
    ctx.ob("gen/tables", gdb.qualname, not bad and len(sizes) in (0, 6), "; ".join(bad[:3]) or (f"{len(sizes)} table rows agree with the enum members and resolve()" if sizes else "enum member values and resolve() agree"), gdb.loc)
    for n_ in ("generate_data_bursts", "generate_full_data_transmission", "generate_csbk_preambles", "generate_data_header_burst"):
        ctx.saw_func(repo.func(GMOD, f"TransmissionGenerator.{n_}"))
    lengths = QUICK_LENGTHS if ctx.tier == "quick" else sorted(set(QUICK_LENGTHS) | set(range(0, 130)) | {255, 256, 257, 400})
    ctx.extra["lengths"] = lengths
    tasks = []
    for cname, mod, N in RATES:
        for conf in (False, True):
            ls = lengths if ctx.tier == "thorough" else (lengths if not conf else [l for l in lengths if l <= 49])
            for L in ls:
                for csbk_count in ((0, 2) if L in (0, 13, 37) else (1,)):
                    tasks.append((str(repo.root), cname, mod, conf, L, csbk_count))
            for pair in ((13, 37), (37, 5)):
                tasks.append((str(repo.root), cname, mod, conf, pair, 1))
    from concurrent.futures import ProcessPoolExecutor
    import os
    with ProcessPoolExecutor(max_workers=min(16, os.cpu_count() or 4)) as ex:
        results = list(ex.map(_worker, tasks, chunksize=2))
    by_key = {}
    for (root, cname, mod, conf, L, csbk_count), (why, err, sample) in zip(tasks, results):
        key = f"{gfull.qualname} | {cname},{'confirmed' if conf else 'unconfirmed'}"
        d = by_key.setdefault(key, {"n": 0, "bad": [], "err": []})
        d["n"] += 1
        if err:
            d["err"].append(f"L={L},preambles={csbk_count}: {err}")
        elif why:
            d["bad"].append(f"L={L},preambles={csbk_count}: {why}")
        if sample:
            ctx.sample(sample)
    for key, d in by_key.items():
        if d["err"] and not d["bad"]:
            ctx.analysis_errors.append(f"{key}: {d['err'][0]}")
            continue
        ctx.ob("gen/roundtrip", key, not d["bad"], f"{d['n']} (length, preamble count) combinations, payload symbolic; " + ("; ".join(d["bad"][:3]) or "all received back exactly"), gfull.loc)
    ctx.require("gen/roundtrip", 6)
    preamble_countdown(ctx, repo, gci)


_REPOS = {}


def _worker(task):
    root, cname, mod, conf, L, csbk_count = task
    from sa.model import Repo
    if root not in _REPOS:
        _REPOS[root] = Repo(root)
    class _C:
        samples = []
        def sample(self, s):
            self.samples.append(s)
    c = _C()
    try:
        why = one_run(c, _REPOS[root], cname, mod, conf, L, csbk_count)
        return why, None, (c.samples[0] if c.samples else None)
    except AnalysisError as e:
        return None, str(e), None
    except Exception as e:  # fail closed as an analysis error
        return None, f"{type(e).__name__}: {e}", None


def one_run(ctx, repo, cname, mod, conf, L, csbk_count):
    I = Interp(repo)
    I.assume_fn_nonzero = True
    install_trellis_inverse_pair(I)
    bci = repo.cls("etsi.layer2.burst", "Burst")
    # the untyped PDU parse inside Burst.__init__ is irrelevant for data blocks (the tracker re-parses typed)
    pci = repo.cls(mod, cname)
    gci = repo.cls(GMOD, "TransmissionGenerator")
    tci = repo.cls("transmission.transmission", "Transmission")
    dh_ci = repo.cls("etsi.layer2.pdu.data_header", "DataHeader")
    dpf = repo.enum_members(repo.cls("etsi.layer2.elements.data_packet_formats", "DataPacketFormats"))
    sap = repo.enum_members(repo.cls("etsi.layer2.elements.sap_identifier", "SAPIdentifier"))
    fmf = repo.enum_members(repo.cls("etsi.layer2.elements.full_message_flag", "FullMessageFlag"))
    crc32 = repo.func("etsi.crc.crc32", "CRC32.calculate")
    rsf = repo.enum_members(repo.cls("etsi.layer2.elements.resynchronize_flag", "ResynchronizeFlag"))

    if isinstance(L, tuple):
        return two_runs(ctx, repo, I, cname, mod, conf, L, csbk_count)

    def run_g(st):
        I.st = st
        payload = ABits([I.atom_form(("u", i)) for i in range(8 * L)], "bytes")
        bursts, poc = I.call(repo.find_method(gci, "generate_data_bursts"), [], {"packet_type": ClassRef(pci), "userdata": ABits(list(payload.items), "bytes"), "is_confirmed": conf})
        hdr = I.construct(dh_ci, [], {"dpf": dpf["DataPacketConfirmed" if conf else "DataPacketUnconfirmed"], "is_response_requested": conf, "pad_octet_count": poc,
                                      "sap_identifier": sap["IP_PacketData"], "llid_destination": 1234, "llid_source": 5678,
                                      "full_message_flag": fmf[list(fmf)[0]], "blocks_to_follow": len(bursts),
                                      "resynchronize_flag": rsf[list(rsf)[0]], "send_sequence_number": 0, "fragment_sequence_number": 8})
        all_b = I.call(repo.find_method(gci, "generate_full_data_transmission"), [], {"packet_type": ClassRef(pci), "userdata": ABits(list(payload.items), "bytes"), "data_header": hdr, "csbk_count": csbk_count})
        t = I.construct(tci, [], {})
        t.attrs["observers"] = [AExt("obs1")]
        del st.effects[:]
        fb = repo.find_method(bci, "from_bytes")
        for b in all_b:
            raw = I.call(repo.find_method(b.cls, "as_bytes"), [b], {})
            rb = I.call(fb, [ABits(list(raw.items), "bytes")], {})
            I.call(repo.find_method(tci, "process_packet"), [t, rb], {})
        return payload, poc, all_b, t

    res = explore(run_g, max_paths=64)
    for st, (k, v) in res:
        I.st = st
        if k == "abort":
            if isinstance(v, PartialRaise):
                return str(v)
            raise AnalysisError(f"{cname},{conf},L={L}: {v}")
        if k == "raise":
            return f"raises {v.exc} at {v.msg}"
        payload, poc, all_b, t = v
        evs = [(e[0].split(".")[1], e[1], e[2]) for e in st.effects if e[0].startswith("obs1.")]
        names = [e[0] for e in evs]
        if names != ["transmission_started", "data_transmission_ended"]:
            return f"observer events {names}"
        kw = evs[1][2]
        blocks = kw.get("blocks", evs[1][1][1] if len(evs[1][1]) > 1 else None)
        data_blocks = [b for b in blocks if isinstance(b, AObj) and b.cls is pci]
        n_data = len(all_b) - csbk_count - 1
        if len(data_blocks) != n_data:
            return f"{len(data_blocks)} data blocks delivered, {n_data} generated"
        got = []
        for b in data_blocks:
            d = b.attrs.get("data")
            got.extend(list(d.items) if isinstance(d, ABits) else I.frame_bits(d) if hasattr(I, "frame_bits") else _bytes_bits(d))
        # the fragmentation is the minimal one (ETSI 8.2.0, N_BlockMax): padding never fills a whole intermediate block — otherwise
        # the header that announces the pad octets the payload really needs is rejected by the generator's own cross-check
        if n_data > 1:
            d0 = data_blocks[0].attrs.get("data")
            per = len(d0.items) // 8 if isinstance(d0, ABits) else None
            if per is not None and poc >= per:
                return f"{poc} pad octets in {n_data} blocks although an intermediate block carries {per} octets: one block fewer carries the payload (fragmentation not minimal)"
        want = list(payload.items) + [F(0, 0)] * (8 * poc)
        if I.simp_bits(got) != I.simp_bits(want):
            import os as _os
            if _os.environ.get("C07_DEBUG"):
                g_, w_ = I.simp_bits(got), I.simp_bits(want)
                print("DEBUG", len(g_), len(w_), [(i, a, b) for i, (a, b) in enumerate(zip(g_, w_)) if a != b][:4], st.labels[-4:], st.decisions[-4:])
            return f"received data ({len(got) // 8} octets) is not payload + {poc} pad octets"
        hdr_rx = kw.get("transmission_header", evs[1][1][0] if evs[1][1] else None)
        hp = hdr_rx.attrs.get("pad_octet_count") if isinstance(hdr_rx, AObj) else None
        hp_c = hp if isinstance(hp, int) else (sum((I.simp(b_).c << i) for i, b_ in enumerate(hp.bits)) if isinstance(hp, AInt) and all(I.simp(b_).is_const for b_ in hp.bits) else None)
        if hp_c != poc:
            return f"received header announces {hp_c} pad octets, {poc} were added"
        if conf:
            notok = [i for i, b in enumerate(data_blocks) if b.attrs.get("crc9_ok") is not True]
            if notok:
                return f"confirmed blocks {notok} do not have a provably valid CRC-9 ({data_blocks[notok[0]].attrs.get('crc9_ok')!r})"
        # CRC-32: the four transmitted octets, read little-endian, are CRC32(data)
        last = data_blocks[-1]
        c = last.attrs.get("crc32")
        exp = I.call(crc32, [ABits(I.simp_bits(got), "bytes")], {})
        if not isinstance(c, AInt) or not isinstance(exp, AInt):
            return f"CRC-32 of the last block is {c!r}"
        tx = c.msb_first(32)
        tx_le = [b_ for i in (3, 2, 1, 0) for b_ in tx[i * 8:i * 8 + 8]]
        if I.simp_bits(tx_le) != I.simp_bits(exp.msb_first(32)):
            return "the trailing CRC-32 is not CRC32(payload + pad) in the transmitted byte order"
        # preamble countdown
        csbks = [b for b in blocks if isinstance(b, AObj) and b.cls.name == "CSBK"]
        vals = []
        for cb in csbks:
            x = cb.attrs.get("blocks_to_follow")
            vals.append(x if isinstance(x, int) else (sum((I.simp(b_).c << i) for i, b_ in enumerate(x.bits)) if isinstance(x, AInt) and all(I.simp(b_).is_const for b_ in x.bits) else None))
        wantc = [n_data + 1 + (csbk_count - 1 - i) for i in range(csbk_count)]
        if vals != wantc:
            return f"preamble countdown {vals}, expected {wantc}"
        if len(ctx.samples) < 4 and L in (13, 37):
            ctx.sample({"rate": cname, "confirmed": conf, "length": L, "data_blocks": n_data, "pad": poc, "preambles": vals})
    return None


def two_runs(ctx, repo, I, cname, mod, conf, Ls, csbk_count):
    """two transmissions of different sizes back to back on ONE tracker: the second must be delimited on its own"""
    bci = repo.cls("etsi.layer2.burst", "Burst")
    pci = repo.cls(mod, cname)
    gci = repo.cls(GMOD, "TransmissionGenerator")
    tci = repo.cls("transmission.transmission", "Transmission")
    dh_ci = repo.cls("etsi.layer2.pdu.data_header", "DataHeader")
    dpf = repo.enum_members(repo.cls("etsi.layer2.elements.data_packet_formats", "DataPacketFormats"))
    sap = repo.enum_members(repo.cls("etsi.layer2.elements.sap_identifier", "SAPIdentifier"))
    fmf = repo.enum_members(repo.cls("etsi.layer2.elements.full_message_flag", "FullMessageFlag"))
    rsf = repo.enum_members(repo.cls("etsi.layer2.elements.resynchronize_flag", "ResynchronizeFlag"))

    def run_g(st):
        I.st = st
        t = I.construct(tci, [], {})
        t.attrs["observers"] = [AExt("obs1")]
        del st.effects[:]
        counts = []
        for n, L in enumerate(Ls):
            payload = ABits([I.atom_form((f"u{n}", i)) for i in range(8 * L)], "bytes")
            bursts, poc = I.call(repo.find_method(gci, "generate_data_bursts"), [], {"packet_type": ClassRef(pci), "userdata": ABits(list(payload.items), "bytes"), "is_confirmed": conf})
            hdr = I.construct(dh_ci, [], {"dpf": dpf["DataPacketConfirmed" if conf else "DataPacketUnconfirmed"], "is_response_requested": conf, "pad_octet_count": poc,
                                          "sap_identifier": sap["IP_PacketData"], "llid_destination": 1234, "llid_source": 5678, "full_message_flag": fmf[list(fmf)[0]],
                                          "blocks_to_follow": len(bursts), "resynchronize_flag": rsf[list(rsf)[0]], "send_sequence_number": 0, "fragment_sequence_number": 8})
            all_b = I.call(repo.find_method(gci, "generate_full_data_transmission"), [], {"packet_type": ClassRef(pci), "userdata": ABits(list(payload.items), "bytes"), "data_header": hdr, "csbk_count": csbk_count})
            counts.append(len(all_b) - csbk_count - 1)
            for b in all_b:
                raw = I.call(repo.find_method(b.cls, "as_bytes"), [b], {})
                rb = I.call(repo.find_method(bci, "from_bytes"), [ABits(list(raw.items), "bytes")], {})
                I.call(repo.find_method(tci, "process_packet"), [t, rb], {})
        return counts

    for st, (k, v) in explore(run_g, max_paths=64):
        I.st = st
        if k == "abort":
            raise AnalysisError(f"{cname},{conf},L={Ls}: {v}")
        if k == "raise":
            return f"raises {v.exc} at {v.msg}"
        evs = [(e[0].split(".")[1], e[1], e[2]) for e in st.effects if e[0].startswith("obs1.")]
        names = [e[0] for e in evs]
        if names != ["transmission_started", "data_transmission_ended"] * len(Ls):
            return f"two transmissions back to back give observer events {names}"
        ends = [e for e in evs if e[0] == "data_transmission_ended"]
        for n, e in enumerate(ends):
            blocks = e[2].get("blocks", e[1][1] if len(e[1]) > 1 else [])
            nd = len([b for b in blocks if isinstance(b, AObj) and b.cls is pci])
            if nd != v[n]:
                return f"transmission #{n + 1} delivered {nd} data blocks, {v[n]} were generated"
    return None


def _bytes_bits(d):
    if isinstance(d, (bytes, bytearray)):
        return [F(0, (x >> (7 - k)) & 1) for x in d for k in range(8)]
    raise AnalysisError(f"block data is {d!r}")


def preamble_countdown(ctx, repo, gci):
    """generate_csbk_preambles alone, up to the 8-bit limit of the blocks-to-follow field: preamble j announces exactly the
    number of bursts that follow it (remaining preambles + data blocks), the field's 8 transmitted bits carry that number"""
    from sa.bitabs import ABits, AInt, AObj, F, Interp, explore
    from sa import summaries
    ctx.rule("gen/preamble-countdown", "for (preambles, following blocks) up to a total of 255: preamble j carries blocks_to_follow = following + preambles - 1 - j, in the object and in the 8 bits CSBK.as_bits transmits")
    gp = repo.find_method(gci, "generate_csbk_preambles")
    ctx.saw_func(gp)
    for p, f in ((1, 0), (3, 1), (2, 126), (64, 64), (120, 9), (200, 55), (255, 0)):
        I = Interp(repo)
        summaries.install(I)
        I.assume_fn_nonzero = True

        def run_g(st, p=p, f=f):
            I.st = st
            src = AInt([I.atom_form(("src", i)) for i in range(24)])
            dst = AInt([I.atom_form(("dst", i)) for i in range(24)])
            return I.call(gp, [], {"source_address": src, "target_address": dst, "num_of_preambles": p, "num_of_following_data_blocks": f})
        bad = []
        res = explore(run_g, max_paths=4)
        for st, (k, v) in res:
            I.st = st
            if k != "ok":
                bad.append(f"{k}: {v}")
                continue
            if not isinstance(v, list) or len(v) != p:
                bad.append(f"{len(v) if isinstance(v, list) else v!r} preambles generated, {p} requested")
                continue
            for j, b in enumerate(v):
                want = f + p - 1 - j
                c = b.attrs.get("data") if isinstance(b, AObj) else None
                got = c.attrs.get("blocks_to_follow") if isinstance(c, AObj) else None
                gc = got if isinstance(got, int) else None
                if gc != want:
                    bad.append(f"preamble {j} announces {got!r}, {want} bursts follow")
                    break
        ctx.ob("gen/preamble-countdown", f"{gp.qualname} | {p} preambles, {f} blocks", not bad, "; ".join(bad[:2]) or f"{p} preambles count down from {f + p - 1} to {f}", gp.loc)
    ctx.require("gen/preamble-countdown", 6)
