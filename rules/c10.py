"""C10 — rate 3/4 trellis: tables exhaustive + lossless round trip decided for all 2^144 blocks."""
from __future__ import annotations

import ast
import json
import pathlib

from sa.bitabs import ABits, AInt, F, Interp, OB, explore
from sa.model import AnalysisError, Unfoldable
from sa.wiring import atom_index, single_path, Misbehaves

MOD = "etsi.fec.trellis"
SPEC = pathlib.Path(__file__).resolve().parent.parent / "spec" / "trellis.json"


def run(ctx, tables_only=False):
    repo = ctx.repo
    ci = repo.cls(MOD, "Trellis34")
    q = ci.qualname
    ctx.explanation = (
        "The four trellis tables are constant-folded and checked exhaustively (interleave matrix a permutation of "
        "0..97, 8 distinct constellation points per encoder state, bijective dibit and constellation maps, reverse "
        "tables = inverses, all pinned to ETSI B.2.4 by value).  encode and decode are then analysed by abstract "
        "interpretation with a symbolic 144-bit block: table look-ups keyed by data become exact finite functions "
        "(truth tables over at most 12 bit atoms), data-dependent branches are analysed per assignment and merged "
        "at the end of the statement.  The result — decode(encode(b))[i] is exactly atom b_i for i<144, 196 output "
        "bits, identical forms for bytes and bits input — holds for all 2^144 blocks.  Rejection of impossible "
        "points is decided structurally (per-symbol reset of the match flag dominating the assert in the same loop)."
    )
    ctx.assumptions = ["bitarray / array('b') semantics as modelled in sa/bitabs.py", "big-endian bitarray input (the library's default)"]
    ctx.saw(file=ci.module.relpath)
    try:
        M = repo.class_const(ci, "TRELLIS34_INTERLEAVE_MATRIX")
        ST = repo.class_const(ci, "TRELLIS34_ENCODER_STATE_TRANSITION")
        DB = repo.class_const(ci, "TRELLIS34_DIBITS")
        DBR = repo.class_const(ci, "TRELLIS34_DIBITS_REVERSE")
        CP = repo.class_const(ci, "TRELLIS34_CONSTELLATION_POINTS")
        CPR = repo.class_const(ci, "TRELLIS34_CONSTELLATION_POINTS_REVERSE")
    except Unfoldable as e:
        raise AnalysisError(f"{q}: table not foldable: {e}")
    for t in ("INTERLEAVE_MATRIX", "ENCODER_STATE_TRANSITION", "DIBITS", "CONSTELLATION_POINTS"):
        ctx.saw(table=f"{q}.TRELLIS34_{t}")
    spec = json.loads(SPEC.read_text())
    loc = ci.loc
    ctx.rule("table/interleave-permutation", "interleave matrix is a permutation of 0..97")
    ctx.rule("table/transitions", "64 transitions in 0..15, the 8 points of every state row pairwise distinct (unique inversion)")
    ctx.rule("table/dibits", "dibit map is a bijection {00,01,10,11} <-> {+1,+3,-1,-3}; reverse table is its inverse")
    ctx.rule("table/constellation", "constellation map is a bijection of the 16 dibit pairs onto 0..15; reverse table is its inverse")
    ctx.rule("table/pinned", "tables equal the pinned ETSI B.2.4 values")
    ctx.rule("trellis/width", "encode(144 bits) yields 196 non-opaque bits")
    ctx.rule("trellis/roundtrip", "decode(encode(b)) returns exactly b, bit for bit, for all 2^144 blocks")
    ctx.rule("trellis/bytes-bits", "bytes and bits input give identical output forms; decode(as_bytes) returns the same bits packed")
    ctx.rule("trellis/interleave-inverse", "interleave and deinterleave are mutually inverse permutations of the 98 dibit positions")
    ctx.rule("trellis/reject", "decoder: for every decoder state and every constellation point no encoder can emit from it, at the first, second and last symbol, points_to_tribits raises instead of decoding (constant evaluation of the real function)")
    ctx.ob("table/interleave-permutation", q, sorted(M) == list(range(98)), f"{len(M)} entries", loc)
    rows_ok = len(ST) == 64 and all(0 <= v <= 15 for v in ST) and all(len(set(ST[s * 8:s * 8 + 8])) == 8 for s in range(8))
    ctx.ob("table/transitions", q, rows_ok, "state rows with duplicate points: " + str([s for s in range(8) if len(set(ST[s * 8:s * 8 + 8])) != 8]), loc)
    ctx.ob("table/dibits", q, sorted(DB.keys()) == [(0, 0), (0, 1), (1, 0), (1, 1)] and sorted(DB.values()) == [-3, -1, 1, 3]
           and DBR == {v: k for k, v in DB.items()}, "dibit tables", loc)
    ctx.ob("table/constellation", q, sorted(CP.values()) == list(range(16)) and len(CP) == 16
           and set(CP.keys()) == {(a, b) for a in (-3, -1, 1, 3) for b in (-3, -1, 1, 3)} and CPR == {v: k for k, v in CP.items()}, "constellation tables", loc)
    pinned = (M == spec["TRELLIS34_INTERLEAVE_MATRIX"] and ST == spec["TRELLIS34_ENCODER_STATE_TRANSITION"]
              and {tuple(k): v for k, v in spec["TRELLIS34_DIBITS"]} == DB and {tuple(k): v for k, v in spec["TRELLIS34_CONSTELLATION_POINTS"]} == CP)
    diffs = [i for i, (a, b) in enumerate(zip(ST, spec["TRELLIS34_ENCODER_STATE_TRANSITION"])) if a != b]
    ctx.ob("table/pinned", q, pinned, f"differs from pinned B.2.4 values (transition entries {diffs[:6]})", loc)
    if tables_only:
        return

    enc = repo.find_method(ci, "encode")
    dec = repo.find_method(ci, "decode")
    il = repo.find_method(ci, "interleave")
    dil = repo.find_method(ci, "deinterleave")
    p2t = repo.find_method(ci, "points_to_tribits")
    for f in (enc, dec, il, dil, p2t):
        if f is None:
            raise AnalysisError(f"{q}: encode/decode/interleave/deinterleave/points_to_tribits not found")
        ctx.saw_func(f)
    I = Interp(repo)

    def rt(st):
        I.st = st
        m = I.wire("b", 144)
        out = I.call(enc, [m], {})
        back = I.call(dec, [ABits(list(out.items))] if isinstance(out, ABits) else [out], {})
        return out, back

    try:
        st, (out, back) = single_path(I, rt, f"{q}: decode(encode(b))")
    except Misbehaves as e:
        ctx.ob("trellis/roundtrip", q, False, f"the decoder does not accept / restore the encoder's own output: {e}", dec.loc)
        out = back = None
    okw = isinstance(out, ABits) and len(out.items) == 196 and not any(isinstance(b, OB) for b in out.items)
    if out is not None:
        ctx.ob("trellis/width", q, okw, f"encode returns {out!r}", enc.loc)
    bad = []
    if out is None:
        pass
    elif not isinstance(back, ABits) or len(back.items) != 144:
        bad = [("length", repr(back))]
    else:
        bad = [i for i in range(144) if atom_index(I, I.to_bit_simple(back.items[i]) if hasattr(I, "to_bit_simple") else back.items[i], "b") != i]
    if out is not None:
        ctx.ob("trellis/roundtrip", q, not bad, f"bit positions not restored by decode(encode(.)): {bad[:10]}", dec.loc)
    ctx.sample({"encode_out[0..3]": [repr(x) for x in (out.items[:4] if okw else [])], "atoms": len(I.atoms.names)})

    # bytes input / as_bytes output
    I2 = Interp(repo)

    def by(st2):
        I2.st = st2
        m = I2.wire("b", 144)
        a = I2.call(enc, [m], {})
        b = I2.call(enc, [ABits(list(m.items), "bytes")], {})
        c = I2.call(dec, [ABits(list(a.items))], {"as_bytes": True})
        return a, b, c, m

    try:
        st2, (a, b, c, m) = single_path(I2, by, f"{q}: bytes input")
    except Misbehaves as e:
        a = b = c = m = None
    same = isinstance(a, ABits) and isinstance(b, ABits) and a.items == b.items and isinstance(c, ABits) and c.kind == "bytes" \
        and I2.simp_bits(c.items) == I2.simp_bits(m.items)
    if a is not None:
        ctx.ob("trellis/bytes-bits", q, same, "bytes input / as_bytes output differ from the bit path", enc.loc)

    # interleave / deinterleave on 98 symbolic dibits
    I3 = Interp(repo)

    def perm(st3):
        I3.st = st3
        d = [AInt([I3.atom_form(("d", i, 0)), I3.atom_form(("d", i, 1))]) for i in range(98)]
        x = I3.call(il, [list(d)], {})
        y = I3.call(dil, [list(x)], {})
        z = I3.call(il, [I3.call(dil, [list(d)], {})], {})
        return d, x, y, z

    st3, (d, x, y, z) = single_path(I3, perm, f"{q}: interleave/deinterleave")

    def ident(v):
        return [(I3.atoms.names[e.bits[0].atoms()[0]][1] if isinstance(e, AInt) and isinstance(e.bits[0], F) and len(e.bits[0].atoms()) == 1 else None) for e in v]

    px = ident(x)
    okp = sorted(p for p in px if p is not None) == list(range(98)) and ident(y) == list(range(98)) and ident(z) == list(range(98)) \
        and px == list(M)
    ctx.ob("trellis/interleave-inverse", q, okp, "interleave is not the gather through the matrix / deinterleave not its inverse", il.loc)

    # rejection of impossible points: decided on the real points_to_tribits by constant evaluation of every (decoder state,
    # point no encoder can emit from that state) pair at the first symbol, right after the first symbol and at the last one
    # (a valid prefix of table points leads to the state); every such stream must end in an exception, on every path.
    bad = []
    n_cases = 0
    for pos in (0, 1, 48):
        for state in (range(8) if pos else [0]):
            row = ST[state * 8:state * 8 + 8]
            prefix = []
            if pos:
                tribits = [0] * (pos - 1) + [state]
                cur = 0
                for t in tribits:
                    prefix.append(ST[cur * 8 + t])
                    cur = t
            for point in [x for x in range(16) if x not in row]:
                tail_state = 0
                stream = list(prefix) + [point]
                while len(stream) < 49:
                    stream.append(ST[tail_state * 8 + 0])
                    tail_state = 0
                n_cases += 1
                I4 = Interp(repo)

                def rej(st4, stream=stream):
                    I4.st = st4
                    return I4.call(p2t, [list(stream)], {})
                for st4, (k4, v4) in explore(rej, max_paths=8):
                    if k4 == "ok":
                        bad.append(f"state {state}, impossible point {point} at symbol {pos}: decoded instead of rejected")
                    elif k4 == "abort":
                        raise AnalysisError(f"{q}.points_to_tribits on a constant stream: {v4}")
    ctx.ob("trellis/reject", q, not bad, "; ".join(bad[:3]) or f"{n_cases} (state, impossible point, position) streams all end in an exception", p2t.loc,
           facts={"cases": n_cases})
    ctx.require("trellis/roundtrip", 1)
    ctx.require("table/transitions", 1)


def reject_structure(fi):
    """in points_to_tribits: find `assert <flag>`; it must sit in a for-loop body in which <flag> = False is
    assigned at the top level of that same body before the assert, and <flag> = True only inside the search."""
    asserts = []
    for loop in ast.walk(fi.node):
        if not isinstance(loop, ast.For):
            continue
        for i, st in enumerate(loop.body):
            if isinstance(st, ast.Assert) and isinstance(st.test, ast.Name):
                asserts.append((loop, i, st.test.id))
    if not asserts:
        loose = [n for n in ast.walk(fi.node) if isinstance(n, ast.Assert) and isinstance(n.test, ast.Name)]
        if loose:
            return False, f"the match assert (line {loose[0].lineno}) is outside the per-symbol loop"
        raise AnalysisError(f"{fi.qualname}: rejection idiom not recognised (no `assert <flag>` found)")
    for loop, i, flag in asserts:
        resets = [j for j, st in enumerate(loop.body[:i]) if isinstance(st, (ast.Assign, ast.AnnAssign))
                  and ast.unparse(st.targets[0] if isinstance(st, ast.Assign) else st.target) == flag
                  and isinstance(st.value, ast.Constant) and st.value.value is False]
        if not resets:
            return False, f"`{flag}` is not reset to False inside the per-symbol loop before the assert at line {loop.body[i].lineno} (a match on an earlier symbol would mask an impossible point)"
        # no unconditional True at the top level between reset and assert
        for st in loop.body[resets[-1] + 1:i]:
            if isinstance(st, (ast.Assign, ast.AnnAssign)) and ast.unparse(st.targets[0] if isinstance(st, ast.Assign) else st.target) == flag:
                return False, f"`{flag}` is overwritten unconditionally at line {st.lineno}"
    return True, f"{len(asserts)} per-symbol assert(s) with a reset in the same iteration"
