"""C09 — variable-length BPTCs: tables, placement, row/column code membership, checksum order, input forms."""
from __future__ import annotations

from sa import wiring


def run(ctx):
    ctx.explanation = (
        "For VBPTC(128,72), (68,28) and (32,11): the interleave tables and derived maps are constant-folded and "
        "checked against the ETSI B.2 column-wise transmit order, row-major placement and flag sets; encode, the "
        "extractors and the checksum extractors are analysed by abstract interpretation over GF(2)-affine forms of a "
        "symbolic message, which decides for ALL messages at once: message bit i is transmitted at il(k_i) and "
        "extracted from there; every data row of the transmitted matrix has zero Hamming syndrome; every column has "
        "the required parity (even / odd variant); the checksum read back by the library's extractor is the "
        "uninterpreted checksum value of the message in the bit order the library's consumers expect; the three "
        "accepted input forms produce identical bits."
    )
    ctx.assumptions = [
        "C06 holds for Hamming(16,11,4) and Hamming(17,12,3) (generate = G-product)",
        "FiveBitChecksum.calculate / the CRC-8 engine are treated as uninterpreted functions of their input bits",
        "numpy/bitarray view and subscript semantics as modelled in sa/bitabs.py",
    ]
    ctx.rule("table/keys", "INTERLEAVING_INDICES has exactly the keys 0..n-1")
    ctx.rule("table/placement", "key k sits at row k//C+1, column k%C")
    ctx.rule("table/interleave-formula", "transmit index = col*R + row (B.2.1/B.2.3) resp. (2*col + 17*row) mod 32 (B.2.2); a bijection")
    ctx.rule("table/flags", "hamming flag <=> data row and col >= k; checksum/parity flag <=> the standard's checksum cells / parity row")
    ctx.rule("table/info-count", "72 / 28 / 11 information cells")
    ctx.rule("table/derived-maps", "derived maps are what the table says")
    ctx.rule("wiring/encode-width", "encode yields n non-opaque bits")
    ctx.rule("wiring/encode-systematic", "message bit i is transmitted at il(k_i)")
    ctx.rule("wiring/rows-codewords", "every data row of the transmitted matrix is a Hamming codeword (syndrome forms identically zero)")
    ctx.rule("wiring/column-parity", "every column XORs to 0 (even) / 1 (odd variant)")
    ctx.rule("vbptc/checksum-order", "extractor(encode(m)) is the checksum value of m in the bit order the consumers use")
    ctx.rule("wiring/extract", "deinterleave_data_bits reads message bit i from il(k_i)")
    ctx.rule("wiring/input-forms", "message, message+checksum and full de-interleaved matrix encode to identical bits")
    ctx.rule("wiring/deinterleave-all", "deinterleave_all_bits is a bijection")
    ctx.rule("component/dimensions", "the row code's (n,k) equals the matrix width and the row slice")
    for name in ("VBPTC12873", "VBPTC6828", "VBPTC3211"):
        wiring.check_vbptc(ctx, name)
    ctx.require("table/interleave-formula", 3)
    ctx.require("wiring/rows-codewords", 4)
    ctx.require("wiring/column-parity", 4)
    ctx.require("vbptc/checksum-order", 2)
    ctx.require("wiring/input-forms", 4)
