"""C12 — Hytera HSTRP / HRNP / HDAP framing and field symmetry, shape-seeded.

The byte-level Hytera codecs take slice bounds from length fields on the wire, so a fully symbolic wire has
no fixed layout.  Shapes are therefore taken from the captured packets that the repository's own tests
contain (hex constants, read as DATA by ast): each capture is decoded by constant evaluation to obtain one
object SHAPE (class, opcode, lengths); then every field of that object is replaced by symbols and the real
writer -> reader -> writer chain is analysed abstractly, which decides layout symmetry, length fields,
terminator, reported length and re-encoding for ALL field values of that shape."""
from __future__ import annotations

import ast
import os
import pathlib
import re

from sa.bitabs import (ABits, ACond, AEnum, AExt, AFin, AInt, AObj, AOpq, Abort, F, Interp, OB, PartialRaise, PathRaise, explore)
from sa.model import AnalysisError, ClassRef, EnumMember
from sa.bitabs_models import fn_int

PMOD = "hytera.pdu"
DECODERS = [("hdap", "HDAP"), ("hrnp", "HRNP"), ("hstrp", "HSTRP")]
KEEP_CONCRETE = {"opcode", "raw_opcode", "has_option", "version", "header", "pkt_type"}
# (class, opcode) pairs whose writer output the reader takes back on today's tree (confirmed by hand: the captured ones, the siblings
# derived from them and the five RRS opcodes the reader lists) — the reference for later changes: each of them must still be written
# and read back to an object.  Opcodes outside the table (TMP work orders: serialised generically, not parsed) are not implemented.
IMPLEMENTED_OPCODES = {
    "RadioRegistrationService": ("RadioRegistrationRequest", "RadioRegistrationAnswer", "RadioGoingOffline", "RegistrationStatusCheckRequest", "RegistrationStatusCheckAnswer"),
    "LocationProtocol": ("StandardRequest", "StandardReport"),
    "RadioControlProtocol": ("BroadcastMessageConfigurationReply", "BroadcastMessageConfigurationRequest", "BroadcastStatusConfigurationReply",
                             "BroadcastStatusConfigurationRequest", "CallReply", "CallRequest", "RadioIDAndRadioIPQueryRequest", "RadioStatusReport",
                             "SendTalkerAliasReply", "SendTalkerAliasRequest", "RadioIDAndRadioIPQueryReply", "StatusChangeNotificationReply", "StatusChangeNotificationRequest", "UnknownService",
                             "ZoneAndChannelOperationReply", "ZoneAndChannelOperationRequest", "RepeaterBroadcastTransmitStatus"),
    "TextMessageProtocol": ("GroupShortData", "GroupShortDataAck", "PrivateShortData", "PrivateShortDataAck", "SendGroupMessage", "SendGroupMessageAck",
                            "SendPrivateMessage", "SendPrivateMessageAck"),
}
MIN_CAPTURES_FOLLOWED = 37   # distinct captured packets (hex constants of the tests) followed through reader and writer today
MIN_SHAPES = {"RadioRegistrationService": 2, "LocationProtocol": 2, "TextMessageProtocol": 3, "RadioControlProtocol": 4, "HRNP": 4, "HSTRP": 3}


def seeds(repo):
    out = []
    tdir = repo.root / "okdmr" / "tests" / "dmrlib" / "hytera"
    if not tdir.is_dir():
        raise AnalysisError("captured packets (okdmr/tests/dmrlib/hytera) not found — they provide the analysed shapes")
    for p in sorted(tdir.rglob("test_*.py")):
        try:
            tree = ast.parse(p.read_text())
        except SyntaxError:
            continue
        for n in ast.walk(tree):
            if isinstance(n, ast.Constant) and isinstance(n.value, str):
                s = n.value.strip().replace(" ", "")
                if len(s) >= 12 and len(s) % 2 == 0 and re.fullmatch(r"[0-9a-fA-F]+", s):
                    out.append((p.name, bytes.fromhex(s)))
    return out


def install(I, repo, concrete=False):
    """GPS text block and the HRNP ones-complement sum are boxes (uninterpreted functions of their inputs)"""
    gci = repo.cls(f"{PMOD}.location_protocol", "GPSData")

    def gps_from(I_, fi, args, kw, bc):
        d = args[0] if args else kw.get("data")
        if isinstance(d, (bytes, bytearray)):
            d = ABits([F(0, (x >> (7 - k)) & 1) for x in d for k in range(8)], "bytes")
        if not isinstance(d, ABits) or len(d.items) != 320:
            raise PathRaise("AssertionError", "GPS Data expects 40 bytes")
        return AObj(gci, {"__box__": ABits(list(d.items), "bytes")})

    I.summaries[repo.find_method(gci, "from_bytes").qualname] = gps_from
    I.summaries[repo.find_method(gci, "as_bytes").qualname] = lambda I_, fi, a, kw, bc: ABits(list(a[0].attrs["__box__"].items), "bytes") if "__box__" in a[0].attrs else NotImplemented
    I.summaries[repo.find_method(gci, "__repr__").qualname] = lambda *a: "GPS"
    I.summaries[repo.find_method(gci, "zero").qualname] = lambda I_, fi, a, kw, bc: AObj(gci, {"__box__": ABits([F(0, 0)] * 320, "bytes")})
    if concrete:
        return  # constant evaluation of captures runs the real checksum loop
    hci = repo.cls(f"{PMOD}.hrnp", "HRNP")
    vc = repo.find_method(hci, "verify_checksum")
    host, sum_stmt, data_name = hrnp_sum_host(repo)
    if host is not vc:
        # the summation lives in a helper that receives the covered octets: the HELPER is the uninterpreted function of exactly
        # those octets (its carry handling is decided separately by checksum/no-carry-dropped); verify_checksum itself is interpreted
        hp = [x.arg for x in host.node.args.posonlyargs + host.node.args.args]
        if data_name not in hp or sum_stmt not in host.node.body:
            raise AnalysisError(f"{host.qualname}: summation helper of an unexpected form (data {data_name!r} is not a parameter / the summation is nested)")

        def helper(I_, fi, args, kw, bc):
            from sa.bitabs import Frame
            env = dict(zip(hp, args))
            env.update(kw)
            fr = Frame(I_, fi, env, bc)
            fr.exec_block(host.node.body[:host.node.body.index(sum_stmt)])   # padding of odd lengths etc.
            cd = fr.env.get(data_name)
            if isinstance(cd, (bytes, bytearray)):
                cd = ABits([F(0, (x >> (7 - k)) & 1) for x in cd for k in range(8)], "bytes")
            if not isinstance(cd, ABits):
                return NotImplemented
            I_.st.__dict__.setdefault("hrnp_checked", []).append(cd)
            calc = fn_int(fr, "hrnp-ones-complement", [ABits(I_.simp_bits(cd.items), "seq")], 16)
            I_.st.__dict__.setdefault("hrnp_calc", []).append(calc)
            return calc

        I.summaries[host.qualname] = helper
        I.fn_compare_structural = True   # `computed == received` stays a condition, as in the in-line form below
        return

    def verify(I_, fi, args, kw, bc):
        from sa.bitabs import Frame
        self_, given = args[0], (args[1] if len(args) > 1 else kw.get("checksum", b"\x00\x00"))
        fr = Frame(I_, fi, {fi.params[0]: self_, "checksum": given}, bc)
        prefix = []
        for st in fi.node.body:
            if isinstance(st, (ast.For, ast.While)):
                break
            prefix.append(st)
        if len(prefix) == len(fi.node.body) or any(isinstance(x, ast.Return) for s_ in prefix for x in ast.walk(s_)):
            # no summation loop to stop in front of (the sum is an expression): the body is not of the form this summary cuts —
            # the real method is interpreted instead (a `return` executed here would leave the CALLER's frame)
            return NotImplemented
        fr.exec_block([s for s in prefix if not (isinstance(s, (ast.Assign, ast.AnnAssign)) and ast.unparse(s.targets[0] if isinstance(s, ast.Assign) else s.target) == "check")])
        cd = fr.env.get("checked_data")
        if not isinstance(cd, (ABits, bytes)):
            return NotImplemented
        if isinstance(cd, bytes):
            cd = ABits([F(0, (x >> (7 - k)) & 1) for x in cd for k in range(8)], "bytes")
        I_.st.__dict__.setdefault("hrnp_checked", []).append(cd)
        calc = fn_int(fr, "hrnp-ones-complement", [ABits(I_.simp_bits(cd.items), "seq")], 16)
        I_.st.__dict__.setdefault("hrnp_calc", []).append(calc)
        g = given
        if isinstance(g, (bytes, bytearray)):
            g = int.from_bytes(g, "big")
        elif isinstance(g, ABits):
            g = AInt(list(reversed(g.items)))
        ok = ACond("hrnp-checksum-equals-received", calc, g)  # structural, never decided here
        return (ok, ABits(calc.msb_first(16), "bytes"))

    I.summaries[vc.qualname] = verify


def shape_of(v, depth=0):
    if isinstance(v, AObj):
        return (v.cls.name,) + tuple(sorted((k, shape_of(x, depth + 1)) for k, x in v.attrs.items() if not k.startswith("_")))
    if isinstance(v, (bytes, bytearray)):
        return ("bytes", len(v))
    if isinstance(v, ABits):
        return ("bytes", len(v.items) // 8)
    if isinstance(v, EnumMember):
        return ("enum", v.cls, v.name) if depth <= 1 else ("enum", v.cls)
    if isinstance(v, (list, tuple)):
        return ("seq",) + tuple(shape_of(x, depth + 1) for x in v)
    if isinstance(v, dict):
        return ("dict", tuple(sorted((repr(k), shape_of(x, depth + 1)) for k, x in v.items())))
    if isinstance(v, bool):
        return "bool"
    if isinstance(v, int):
        return "int"
    if isinstance(v, AInt):
        return "int"
    return type(v).__name__


class Symboliser:
    def __init__(self, I):
        self.I = I
        self.fields = {}   # symbol name -> (original value, symbol)
        self.n = 0

    concrete = frozenset()

    def sym(self, path, v):
        I = self.I
        if path in self.concrete:
            return v
        if isinstance(v, AObj):
            if "__box__" in v.attrs:
                b = v.attrs["__box__"]
                s = ABits([I.atom_form((f"f.{path}", "seq", i)) for i in range(len(b.items))], "bytes")
                v.attrs["__box__"] = s
                self.fields[path] = s
                return v
            for k in list(v.attrs):
                if k.startswith("_") or k in KEEP_CONCRETE or k in ("checksum_correct", "checksum"):
                    continue
                v.attrs[k] = self.sym(f"{path}.{k}" if path else k, v.attrs[k])
            return v
        if isinstance(v, bool):
            s = AInt([I.atom_form((f"f.{path}", "int", 0))], isbool=True)
        elif isinstance(v, int):
            s = AInt([], ext=f"f.{path}", interp=I)
        elif isinstance(v, AInt):
            s = AInt([], ext=f"f.{path}", interp=I)
        elif isinstance(v, (bytes, bytearray)):
            if len(v) == 0:
                return v
            s = ABits([I.atom_form((f"f.{path}", "seq", i)) for i in range(8 * len(v))], "bytes")
        elif isinstance(v, ABits) and v.kind == "bytes":
            if not v.items:
                return v
            s = ABits([I.atom_form((f"f.{path}", "seq", i)) for i in range(len(v.items))], "bytes")
        elif isinstance(v, list):
            return [self.sym(f"{path}[{i}]", x) for i, x in enumerate(v)]
        elif isinstance(v, tuple):
            return tuple(self.sym(f"{path}[{i}]", x) for i, x in enumerate(v))
        else:
            return v  # enums, strings, floats, None, dicts keep their captured value (they select the shape)
        self.fields[path] = s
        return s


def lookup(obj, path):
    cur = obj
    for part in re.findall(r"[^.\[\]]+|\[\d+\]", path):
        if part.startswith("["):
            if not isinstance(cur, (list, tuple)) or int(part[1:-1]) >= len(cur):
                return None      # the decoded object has fewer elements than the one that was serialised
            cur = cur[int(part[1:-1])]
        elif isinstance(cur, AObj):
            if part not in cur.attrs:
                return None
            cur = cur.attrs[part]
        else:
            return None
    return cur


def bits_of(I, v, w=None):
    if isinstance(v, ABits):
        return I.simp_bits(v.items)
    if isinstance(v, AInt):
        return I.simp_bits(v.msb_first(w or max(len(v.bits), 1)))
    if isinstance(v, (bytes, bytearray)):
        return [F(0, (x >> (7 - k)) & 1) for x in v for k in range(8)]
    if isinstance(v, bool):
        return [F(0, int(v))]
    if isinstance(v, int) and v >= 0:
        w = w or max(v.bit_length(), 1)
        return [F(0, (v >> (w - 1 - i)) & 1) for i in range(w)]
    return None


def run(ctx):
    repo = ctx.repo
    ctx.explanation = __doc__.split("\n\n", 1)[1] + (
        "  Frame rules (service byte, opcode, length field = payload length in the protocol's endianness, checksum "
        "over opcode..payload, 0x03 terminator, len(pdu) = bytes produced; HRNP length field and checksum coverage; "
        "HSTRP option TLV chain) are read off the symbolic output.  Text-format rules for the GPS block and the "
        "optional option-data field are decided separately."
    )
    ctx.assumptions = ["shapes = those of the captured packets in okdmr/tests/dmrlib/hytera (listed in coverage.shapes) plus the listed TMP option variants; other shapes are not decided",
                       "GPS text block boxed; HRNP ones-complement sum and HDAP checksum are uninterpreted functions of exactly the bytes fed to them (their coverage is checked)"]
    ctx.rule("shape/roundtrip-fields", "for all field values of the shape: decode(encode(pdu)) has equal field bits (every bit the writer transmits)")
    ctx.rule("shape/reencode", "encode(decode(encode(pdu))) == encode(pdu) for all field values of the shape")
    ctx.rule("shape/no-crash", "writer and reader do not raise on the shape")
    ctx.rule("frame/hdap", "service byte = service | 0x80*reliable, 2-byte opcode, length field = len(payload) in get_endianness(), terminator 0x03, checksum fed with exactly opcode..payload, len(pdu) = bytes produced")
    ctx.rule("frame/hrnp", "HRNP length field = 12 + len(HDAP) = bytes produced; checksum fed with every octet except the checksum field; checksum field = the computed value")
    ctx.rule("frame/hstrp-options", "every option is written as (continuation bit | command, length, data) with the continuation bit set on all but the last; len(options) = bytes produced")
    ctx.rule("text/flag-distinguished", "a field declared Literal[<non-empty texts>] is never tested for mere truthiness (every declared value is truthy, so such a test cannot tell them apart)")
    ctx.rule("text/fixed-width", "a text field the reader slices with fixed width w is written with a format that yields exactly w characters over the field's declared range")
    ctx.rule("optional/deref", "a field the reader may set to None is not dereferenced by the writer under the same flags")
    ctx.rule("shape/coverage", "at least the hand-confirmed number of distinct shapes per PDU family is analysed")
    ctx.rule("checksum/verdict", "HRNP.verify_checksum accepts a frame received with its correct checksum and rejects every single-bit corruption of the checksum field and its all-bits inversion — constant evaluation of the real decoder on crafted frames whose correct checksum is 0x0000, 0x0001, 0x8000, 0xFFFE")
    ctx.rule("checksum/no-carry-dropped", "HRNP ones-complement sum: by interval analysis over all packets the length field allows, every mask keeps all bits of its operand or is the end-around-carry idiom, "
                                          "and the value that is complemented lies in [0, 0xFFFF]")
    sd = seeds(repo)
    decoders = {}
    for mod, cls in DECODERS:
        ci = repo.cls(f"{PMOD}.{mod}", cls)
        decoders[cls] = (ci, repo.find_method(ci, "from_bytes"))
        ctx.saw_func(decoders[cls][1])
    # ---- phase 1: shapes by constant evaluation of the captures
    shapes = {}
    decoded_captures = set()
    I0 = Interp(repo)
    I0.uninterpreted_arith = True
    install(I0, repo, concrete=True)
    for fname, raw in sd:
        for dname, (ci, fb) in decoders.items():
            def run_c(st, raw=raw, fb=fb):
                I0.st = st
                o = I0.call(fb, [raw], {})
                if not isinstance(o, AObj):
                    raise PathRaise("ValueError", "no object")
                back = I0.call(repo.find_method(o.cls, "as_bytes"), [o], {})
                return o, back
            try:
                res = explore(run_c, max_paths=8)
            except AnalysisError:
                continue
            if len(res) != 1 or res[0][1][0] != "ok":
                continue
            o, back = res[0][1][1]
            bb = bits_of(I0, back)
            if bb is None or bb != bits_of(I0, raw):
                continue
            if dname == "HDAP" and o.cls.name == "HDAP":
                continue
            top = o.cls.name
            shp = (dname, shape_of(o))
            shapes.setdefault(shp, (fname, raw, dname))
            decoded_captures.add(raw)
    # every capture that was followed through reader and writer on the reference tree must still be: a packet that drops out here
    # (a construct the interpreter stopped following, a reader that now refuses it) would take its shape out of the analysis silently
    ctx.extra["captures_followed"] = len(decoded_captures)
    if len(decoded_captures) < MIN_CAPTURES_FOLLOWED:
        raise AnalysisError(f"only {len(decoded_captures)} of the captured packets are followed through reader and writer ({MIN_CAPTURES_FOLLOWED} on the reference tree) — shapes would be missing")
    # ---- phase 1b: sibling shapes — the captured object re-encoded under every other opcode of its service
    # (constant evaluation; kept when writer and reader accept it), so opcodes without a capture are covered too
    hd_ci, hd_fb = decoders["HDAP"]
    derived = 0
    n_sib_ok = 0
    sib_ok, captured_ops = set(), set()
    ctx.rule("shape/built-hstrp", "HSTRP connect / close packets with option lists no capture has (a zero-length option last in the datagram, every documented option type, one option twice), built through the constructors: what the writer serialises the reader takes back")
    ctx.rule("shape/sibling-opcodes", "a captured PDU re-encoded under every other opcode of its service: whatever the writer serialises, the reader of the class parses back to an object (opcodes the writer itself refuses are not implemented and skipped)")
    for shp, (fname, raw, dname) in list(shapes.items()):
        if dname != "HDAP":
            continue
        def run_o(st, raw=raw):
            I0.st = st
            return I0.call(hd_fb, [raw], {})
        r0 = explore(run_o, max_paths=4)
        if len(r0) != 1 or r0[0][1][0] != "ok":
            continue
        o = r0[0][1][1]
        disc = [k for k in ("opcode", "specific_service") if isinstance(o.attrs.get(k), EnumMember)]
        if not disc:
            continue
        captured_ops.add((o.cls.name, o.attrs[disc[0]].name))
        eci = None
        for c_ in repo.all_classes():
            if c_.name == o.attrs[disc[0]].cls and repo.is_enum(c_):
                eci = c_
        if eci is None:
            continue
        for m in repo.enum_members(eci).values():
            if m == o.attrs[disc[0]]:
                continue
            def run_v(st, raw=raw, m=m, d=disc[0]):
                I0.st = st
                ob = I0.call(hd_fb, [raw], {})
                ob.attrs[d] = m
                if d == "specific_service" and "general_service" in ob.attrs:
                    gs = repo.cls(f"{PMOD}.location_protocol", "LocationProtocolGeneralService")
                    ob.attrs["general_service"] = I0.call(repo.find_method(gs, "from_specific"), [m], {})
                w = I0.call(repo.find_method(ob.cls, "as_bytes"), [ob], {})
                st.__dict__["sibling_written"] = True
                ob2 = I0.call(hd_fb, [w], {})
                if not isinstance(ob2, AObj):
                    raise PathRaise("ValueError", f"reader returns {ob2!r}")
                w2 = I0.call(repo.find_method(ob2.cls, "as_bytes"), [ob2], {})
                return ob2, w, w2
            try:
                rv = explore(run_v, max_paths=4)
            except AnalysisError:
                continue
            if len(rv) == 1 and rv[0][1][0] == "raise" and rv[0][0].__dict__.get("sibling_written") and m.name in IMPLEMENTED_OPCODES.get(o.cls.name, ()):
                # the writer serialises this opcode of the service, the reader does not take its own output back
                ctx.ob("shape/sibling-opcodes", f"{o.cls.name}[{m.name}] | from capture {raw[:6].hex()}…", False,
                       f"the writer serialises opcode {m.name}, the reader of the same class answers: {rv[0][1][1].exc} {rv[0][1][1].msg}", hd_fb.loc)
                continue
            if len(rv) != 1 or rv[0][1][0] != "ok":
                continue
            n_sib_ok += 1
            sib_ok.add((o.cls.name, m.name))
            ob2, w, w2 = rv[0][1][1]
            bw, bw2 = bits_of(I0, w), bits_of(I0, w2)
            if bw is None or bw != bw2 or not isinstance(ob2, AObj) or ob2.attrs.get(disc[0]) != m:
                continue
            rawv = bytes(int("".join(str(b.c) for b in bw[i:i + 8]), 2) for i in range(0, len(bw), 8)) if all(isinstance(b, F) and b.is_const for b in bw) else None
            if rawv is None:
                continue
            shp2 = ("HDAP", shape_of(ob2))
            if shp2 not in shapes:
                shapes[shp2] = (fname + "+sibling", rawv, "HDAP")
                derived += 1
    # ---- phase 1c: messages built through the constructor — the five RRS messages (no capture is a bare RRS HDAP frame) and the RCP
    # opcodes that both reader and writer implement but no capture (nor a re-encoded sibling of one) carries
    rrs_ci = repo.cls(f"{PMOD}.radio_registration_service", "RadioRegistrationService")
    rrs_ops = repo.enum_members(repo.cls(f"{PMOD}.radio_registration_service", "RRSTypes"))
    rip_ci = repo.cls(f"{PMOD}.radio_ip", "RadioIP")
    rcp_ci = repo.cls(f"{PMOD}.radio_control_protocol", "RadioControlProtocol")
    rcp_ops = repo.enum_members(repo.cls(f"{PMOD}.radio_control_protocol", "RCPOpcode"))
    rcp_ct = repo.enum_members(repo.cls(f"{PMOD}.radio_control_protocol", "RCPCallType"))
    rcp_tg = repo.enum_members(repo.cls(f"{PMOD}.radio_control_protocol", "RadioIpIdTarget"))
    rcp_res = repo.enum_members(repo.cls(f"{PMOD}.radio_control_protocol", "RCPResult"))
    tadf = repo.enum_members(repo.cls("etsi.layer3.elements.talker_alias_data_format", "TalkerAliasDataFormat"))
    builds = []
    for m in rrs_ops.values():
        builds.append((rrs_ci, m, "built:RRS", lambda I_, m=m: I_.construct(rrs_ci, [], {
            "opcode": m, "radio_ip": I_.construct(rip_ci, [], {"radio_id": 2305, "subnet": 10}), "renew_time_seconds": 3600})))
    if "SendTalkerAliasRequest" in rcp_ops and rcp_ct:
        ct0 = sorted(rcp_ct.values(), key=lambda e: e.name)[0]
        for fm in tadf.values():
            for alias in (b"\x41\x00\x42\x00\x43\x00", b"\x41\x00\x42\x00\x43\x00\x44\x00\x45\x00\x46\x00\x47\x00\x48\x00"):
                builds.append((rcp_ci, rcp_ops["SendTalkerAliasRequest"], "built:RCP", lambda I_, fm=fm, alias=alias: I_.construct(rcp_ci, [], {
                    "opcode": rcp_ops["SendTalkerAliasRequest"], "call_type": ct0, "sender_id": 2305, "target_id": 2306,
                    "talker_alias_format": fm, "talker_alias_data": alias})))
    if "RadioIDAndRadioIPQueryReply" in rcp_ops and rcp_res:
        res0 = sorted(rcp_res.values(), key=lambda e: e.name)[0]
        for tg in rcp_tg.values():
            builds.append((rcp_ci, rcp_ops["RadioIDAndRadioIPQueryReply"], "built:RCP", lambda I_, tg=tg: I_.construct(rcp_ci, [], {
                "opcode": rcp_ops["RadioIDAndRadioIPQueryReply"], "result": res0, "target": tg, "raw_value": b"\x0a\x00\x09\x01"})))
    # HSTRP link-management packets with option lists that no capture has: a zero-length option last in the datagram, the
    # documented option types with their lengths, the same option twice (built through the constructors, no payload)
    hs_ci, hs_fb = decoders["HSTRP"]
    hpt_ci = repo.cls(f"{PMOD}.hstrp", "HSTRPPacketType")
    hop_ci = repo.cls(f"{PMOD}.hstrp", "HSTRPOptions")
    hot = repo.enum_members(repo.cls(f"{PMOD}.hstrp", "HSTRPOptionType"))
    opt_lists = [[("RTP", b"")], [("DeviceID", b"\x00\x23\x37\xfa"), ("RTP", b"")], [("RTP", b""), ("ChannelID", b"\x01")],
                 [("ChannelID", b"\x01"), ("DeviceID", b"\x00\x23\x37\xfa"), ("ChannelID", b"\x01")], [("RTP", b""), ("RTP", b"")],
                 [("XPTSiteID", b"\x02"), ("XPTIndex", b"\x03"), ("XPTChannelType", b"\x01")]]
    for flag in ("is_connect", "is_close"):
        for ol in opt_lists:
            if not all(n_ in hot for n_, _ in ol):
                continue
            def mk_h(I_, flag=flag, ol=ol):
                pt = I_.construct(hpt_ci, [], {"have_options": True, flag: True})
                ops = I_.construct(hop_ci, [], {})
                for n_, d_ in ol:
                    I_.call(repo.find_method(hop_ci, "add_option"), [ops, hot[n_], d_], {})
                return I_.construct(hs_ci, [], {"pkt_type": pt, "sn": 1, "options": ops})
            builds.append((hs_ci, None, "built:HSTRP", mk_h, hs_fb, f"{flag[3:]} with options {'+'.join(n_ + '(' + str(len(d_)) + ')' for n_, d_ in ol)}"))
    n_hs_built = 0
    for b_ in builds:
        b_ci, m, b_label, mk = b_[:4]
        fbx = b_[4] if len(b_) > 4 else hd_fb

        def run_b(st, mk=mk, fbx=fbx):
            I0.st = st
            ob = mk(I0)
            w = I0.call(repo.find_method(ob.cls, "as_bytes"), [ob], {})
            st.__dict__["sibling_written"] = True
            ob2 = I0.call(fbx, [w], {})
            if not isinstance(ob2, AObj):
                raise PathRaise("ValueError", f"reader returns {ob2!r}")
            return ob2, w
        try:
            rb = explore(run_b, max_paths=4)
        except AnalysisError:
            continue
        if m is None:
            # a constructor-built HSTRP packet: whatever the writer serialises the reader must take back as an HSTRP object
            n_hs_built += 1
            okb = len(rb) == 1 and rb[0][1][0] == "ok"
            if not okb and any(k_ == "abort" for _, (k_, _v) in rb):
                raise AnalysisError(f"constructor-built HSTRP packet: {next(v_ for _, (k_, v_) in rb if k_ == 'abort')}")
            ctx.ob("shape/built-hstrp", f"HSTRP | built {b_[5] if len(b_) > 5 else n_hs_built}", okb,
                   "written and read back" if okb else f"the writer serialises it, the reader answers: {rb[0][1][0]} {getattr(rb[0][1][1], 'exc', '')} {getattr(rb[0][1][1], 'msg', rb[0][1][1])}", hs_fb.loc)
            if not okb:
                continue
            ob2, w = rb[0][1][1]
            bw = bits_of(I0, w)
            if bw is None or not all(isinstance(b, F) and b.is_const for b in bw):
                continue
            rawv = bytes(int("".join(str(b.c) for b in bw[i:i + 8]), 2) for i in range(0, len(bw), 8))
            shp2 = ("HSTRP", shape_of(ob2))
            if shp2 not in shapes:
                shapes[shp2] = (b_label, rawv, "HSTRP")
                derived += 1
            continue
        if len(rb) == 1 and rb[0][1][0] == "raise" and rb[0][0].__dict__.get("sibling_written") and m.name in IMPLEMENTED_OPCODES.get(b_ci.name, ()):
            ctx.ob("shape/sibling-opcodes", f"{b_ci.name}[{m.name}] | built through the constructor", False,
                   f"the writer serialises opcode {m.name}, the reader answers: {rb[0][1][1].exc} {rb[0][1][1].msg}", hd_fb.loc)
            continue
        if len(rb) != 1 or rb[0][1][0] != "ok":
            continue
        ob2, w = rb[0][1][1]
        bw = bits_of(I0, w)
        if bw is None or not all(isinstance(b, F) and b.is_const for b in bw) or ob2.attrs.get("opcode") != m:
            continue
        if (b_ci.name, m.name) not in sib_ok:
            sib_ok.add((b_ci.name, m.name))
            n_sib_ok += 1
        rawv = bytes(int("".join(str(b.c) for b in bw[i:i + 8]), 2) for i in range(0, len(bw), 8))
        shp2 = ("HDAP", shape_of(ob2))
        if shp2 not in shapes:
            shapes[shp2] = (b_label, rawv, "HDAP")
            derived += 1
    ctx.extra["derived_sibling_shapes"] = derived
    if os.environ.get("C12_DEBUG_SIB"):
        print("SIB", sorted(sib_ok), "CAP", sorted(captured_ops))
    missing_sib = sorted((c_, m_) for c_, ms in IMPLEMENTED_OPCODES.items() for m_ in ms if (c_, m_) not in sib_ok and (c_, m_) not in captured_ops)
    for c_, m_ in missing_sib:
        ctx.ob("shape/sibling-opcodes", f"{c_}[{m_}] | implemented opcode", False,
               f"opcode {m_} of {c_} was written and read back on the reference tree; now neither a capture nor a re-encoded sibling of it comes back from the reader as an object of that opcode", hd_fb.loc)
    ctx.ob("shape/sibling-opcodes", "all services", n_sib_ok >= 8, f"{n_sib_ok} (capture, other opcode) pairs written and read back, {derived} new shapes among them", hd_fb.loc)
    ctx.extra["captures"] = len(sd)
    ctx.extra["shapes"] = len(shapes)
    fam_count = {}
    # ---- phase 2: symbolic analysis per shape
    n = 0
    for shp, (fname, raw, dname) in sorted(shapes.items(), key=lambda kv: repr(kv[0])):
        ci, fb = decoders[dname]
        variants = [None]
        for variant in variants:
            n += 1
            # one shape the interpreter cannot follow does not hide the verdicts of the other shapes and rules (the run still ends in
            # exit 2 unless one of them finds a violation)
            with ctx.guard(f"shape {dname} {raw[:12].hex()}"):
                analyse_shape(ctx, repo, raw, dname, fb, fam_count, variant)
    for variant in ("option3", "option0"):
        for shp, (fname, raw, dname) in sorted(shapes.items(), key=lambda kv: repr(kv[0])):
            if dname == "HDAP" and shp[1][0] == "TextMessageProtocol":
                with ctx.guard(f"shape {dname} {raw[:12].hex()} {variant}"):
                    analyse_shape(ctx, repo, raw, dname, decoders[dname][1], fam_count, variant)
                break
    for fam, need in MIN_SHAPES.items():
        ctx.coverage("shape/coverage", fam, fam_count.get(fam, 0), need, f"{fam_count.get(fam, 0)} shapes analysed, {need} confirmed by hand", "")
    ctx.extra.pop("_seen", None)
    text_rules(ctx, repo)
    with ctx.guard("HRNP checksum carry analysis"):
        checksum_carry_rule(ctx, repo)
    with ctx.guard("HRNP checksum verdict"):
        hrnp_verdict_rule(ctx, repo, sd)
    ctx.require("shape/roundtrip-fields", 20)
    ctx.require("frame/hdap", 10)
    ctx.require("frame/hrnp", 4)


def hdap_objects(o):
    """(path, object) of HDAP-family objects inside o"""
    out = []
    def rec(v, path):
        if isinstance(v, AObj):
            names = [c for c in (v.cls.name,)]
            out.append((path, v))
            for k, x in v.attrs.items():
                if isinstance(x, AObj):
                    rec(x, f"{path}.{k}" if path else k)
    rec(o, "")
    return out


def explore_or_blame(run, max_paths):
    """like sa.bitabs.explore, but on a path explosion names the symbolised field whose atoms the reader forks on"""
    from sa.bitabs import PathState
    out, stack = [], [[]]
    while stack:
        script = stack.pop()
        st = PathState(script)
        try:
            res = ("ok", run(st))
        except PathRaise as e:
            res = ("raise", e)
        except Abort as e:
            res = ("abort", e)
        out.append((st, res))
        if len(out) > max_paths:
            for l in st.labels:
                m = re.search(r"'f\.([^']+)'", l)
                if m:
                    return None, m.group(1)
            raise AnalysisError(f"more than {max_paths} paths ({st.labels[:4]})")
        for i in range(len(script), len(st.decisions)):
            stack.append(st.decisions[:i] + [not st.decisions[i]])
    return out, None


def analyse_shape(ctx, repo, raw, dname, fb, fam_count, variant, concrete=()):
    I = Interp(repo)
    I.uninterpreted_arith = True   # lengths and counters computed from symbolic fields are compared structurally
    # a range assertion that some in-range field value fails is an explored (raising) path — for the fields whose full wire width IS
    # the in-range domain by the property's own words (radio ids 0..2^24-1, request ids 0..2^32-1); other fields may be narrower
    # than their wire width by documented choice (RRS renew time 1..0xFFFE in four octets) and their assertions stay preconditions
    I.assert_ranges = lambda fi, st_: (fi.cls is not None and fi.cls.name == "RadioIP") or "request_id" in ast.unparse(st_.test)
    install(I, repo)
    hdap_ci = repo.cls(f"{PMOD}.hdap", "HDAP")

    def run_s(st):
        I.st = st
        o = I.call(fb, [raw], {})
        if variant:
            tgt = o
            while not (isinstance(tgt, AObj) and tgt.cls.name == "TextMessageProtocol"):
                tgt = tgt.attrs.get("data", tgt.attrs.get("payload"))
            tgt.attrs["has_option"] = True
            tgt.attrs["option_data"] = b"\x01\x02\x03" if variant == "option3" else b""
        sy = Symboliser(I)
        sy.concrete = set(concrete)
        sy.sym("", o)
        w = repo.find_method(o.cls, "as_bytes")
        wire = I.call(w, [o], {})
        if isinstance(wire, (bytes, bytearray)):
            wire = ABits([F(0, (x >> (7 - k)) & 1) for x in wire for k in range(8)], "bytes")
        if not isinstance(wire, ABits):
            raise AnalysisError(f"shape {dname} {raw[:12].hex()}: the writer's output is not an octet string the analysis can read ({wire!r})")
        ln = I.call(repo.find_method(o.cls, "__len__"), [o], {}) if repo.find_method(o.cls, "__len__") is not None else None
        st.__dict__["hrnp_checked_w"] = list(st.__dict__.get("hrnp_checked", []))
        st.__dict__["hrnp_calc_w"] = list(st.__dict__.get("hrnp_calc", []))
        o2 = I.call(fb, [ABits(list(wire.items), "bytes")], {})
        wire2 = I.call(repo.find_method(o2.cls, "as_bytes"), [o2], {}) if isinstance(o2, AObj) else None
        if isinstance(wire2, (bytes, bytearray)):
            wire2 = ABits([F(0, (x >> (7 - k)) & 1) for x in wire2 for k in range(8)], "bytes")
        return o, sy, wire, ln, o2, wire2

    res, blame = explore_or_blame(run_s, 32)
    if res is None:
        # the reader's control flow depends on the content of this field (e.g. a raw block with an inner count):
        # it selects the shape, so it keeps its captured value
        if blame in concrete or len(concrete) > 4:
            raise AnalysisError(f"shape {dname} {raw[:12].hex()}: path explosion on field {blame}")
        ctx.info(f"shape {dname} {raw[:8].hex()}: field {blame} kept concrete (the reader branches on its content)")
        return analyse_shape(ctx, repo, raw, dname, fb, fam_count, variant, tuple(concrete) + (blame,))
    for st, (k, v) in res:
        I.st = st
        key0 = None
        if k == "abort":
            if isinstance(v, PartialRaise):
                ctx.ob("shape/no-crash", f"{dname} | capture {raw[:8].hex()}…{'/' + variant if variant else ''}", False, str(v), fb.loc)
                continue
            raise AnalysisError(f"shape {dname} {raw[:12].hex()}: {v}")
        if k == "raise" and v.exc == "AssertionError" and "[in-range value refused]" not in v.msg:
            # an assertion of the constructor / reader refuses some values of a field that was symbolised over its whole wire
            # width: a documented precondition (RRS renew time 1..0xFFFE in four octets), not a crash — except for the fields whose
            # wire width is the in-range domain by the property's words (tagged by the interpreter)
            ctx.info(f"shape {dname} {raw[:8].hex()}: values outside a documented range are refused by the assertion at {v.msg}")
            continue
        if k == "raise":
            rule = "optional/deref" if variant == "option0" and v.exc == "TypeError" else "shape/no-crash"
            kk = f"{hdap_family(raw, dname)} | {'TextMessageProtocol.option_data, zero-length option data' if variant == 'option0' else 'capture ' + raw[:8].hex()}"
            if (rule, kk) in ctx.extra.setdefault("_seen", set()):
                continue
            ctx.extra["_seen"].add((rule, kk))
            ctx.ob(rule, kk, False,
                   f"writer/reader raises {v.exc} at {v.msg}" + (" — the reader stores None for a zero-length option, the writer calls len() on it" if rule == "optional/deref" else ""), fb.loc)
            continue
        o, sy, wire, ln, o2, wire2 = v
        fam = o.cls.name if dname != "HDAP" else o.cls.name
        inner = [x for _, x in hdap_objects(o) if hdap_ci in repo.mro(x.cls)]
        label_obj = inner[0] if inner else o
        opc = label_obj.attrs.get("opcode")
        key = f"{dname}>{label_obj.cls.name}[{getattr(opc, 'name', opc)}] | {len(raw)} octets" + (f" | {variant}" if variant else "")
        for x in {o.cls.name} | {y.cls.name for y in inner}:
            fam_count[x] = fam_count.get(x, 0) + (0 if variant else 1)
        if not isinstance(wire, ABits) or wire.kind != "bytes":
            raise AnalysisError(f"{key}: writer returns {wire!r}")
        ctx.ob("shape/no-crash", key, isinstance(o2, AObj), f"reader returns {o2!r}" if not isinstance(o2, AObj) else "ok", fb.loc)
        if not isinstance(o2, AObj):
            continue
        # field equality
        bad = []
        n_fields = 0
        wire_atoms = set()
        for b in I.simp_bits(wire.items):
            if isinstance(b, F):
                wire_atoms.update(b.atoms())
        for path, s in sy.fields.items():
            got = lookup(o2, path)
            if isinstance(got, AObj) and "__box__" in got.attrs:
                got = got.attrs["__box__"]
            # only the bits the writer actually transmits are comparable
            if isinstance(s, AInt) and s.ext is not None:
                js = sorted(nm[2] for nm in (I.atoms.names[a] for a in wire_atoms) if isinstance(nm, tuple) and len(nm) == 3 and nm[0] == s.ext and nm[1] == "int")
                if not js:
                    continue
                n_fields += 1
                gi = got if isinstance(got, AInt) else (AInt(list(reversed(got.items))) if isinstance(got, ABits) else None)
                if isinstance(got, AEnum):
                    gi = got.val
                if isinstance(got, int):
                    gi = I_to_aint(got)
                if gi is None:
                    bad.append(f"{path}: decoded as {got!r}")
                    continue
                wrong = [j for j in js if I.simp(gi.bit(j)) != I.simp(s.bit(j))]
                extra = [j for j in range(max(js) + 1, max(len(gi.bits), max(js) + 1)) if I.simp(gi.bit(j)) != F(0, 0)]
                if wrong or extra:
                    bad.append(f"{path}: value bits {wrong[:6] or extra[:6]} not restored")
            else:
                sb = bits_of(I, s)
                gb = bits_of(I, got, len(sb)) if got is not None else None
                n_fields += 1
                if gb != sb:
                    bad.append(f"{path}: decoded {'as ' + repr(got) if gb is None else 'with different bits'}")
        ctx.ob("shape/roundtrip-fields", key, not bad, f"{n_fields} symbolic fields; " + ("; ".join(bad[:3]) or "all restored"), fb.loc)
        same = isinstance(wire2, ABits) and I.simp_bits(wire2.items) == I.simp_bits(wire.items)
        diff = sorted({i // 8 for i, (a, b) in enumerate(zip(I.simp_bits(wire2.items), I.simp_bits(wire.items))) if a != b}) if isinstance(wire2, ABits) else []
        if not same and os.environ.get("C12_DEBUG"):
            for i in diff[:1]:
                for j in range(8 * i, 8 * i + 2):
                    for w_ in (wire, wire2):
                        b = I.simp(w_.items[j])
                        print("DEBUG", key, j, [I.atoms.names[a] for a in b.atoms()][:2])
        ctx.ob("shape/reencode", key, same, f"{len(wire.items) // 8} octets; " + (f"octets that differ after re-encoding: {diff[:10]} (lengths {len(wire2.items) // 8 if isinstance(wire2, ABits) else '?'}/{len(wire.items) // 8})" if not same else "identical"), fb.loc)
        frame_rules(ctx, repo, I, st, key, o, wire, ln, dname, hdap_ci)
        if len(ctx.samples) < 5:
            ctx.sample({"shape": key, "symbolic_fields": sorted(sy.fields)[:10], "octets": len(wire.items) // 8})


def hdap_family(raw, dname):
    return dname


def I_to_aint(v):
    return AInt([F(0, (v >> i) & 1) for i in range(max(v.bit_length(), 1))])


def const_byte(I, bits):
    bs = I.simp_bits(bits)
    if all(isinstance(b, F) and b.is_const for b in bs):
        return int("".join(str(b.c) for b in bs), 2)
    return None


def frame_rules(ctx, repo, I, st, key, o, wire, ln, dname, hdap_ci):
    items = wire.items
    nbytes = len(items) // 8
    def byte(i):
        return items[i * 8:i * 8 + 8]
    # locate the HDAP frame inside the wire
    hd = [x for _, x in hdap_objects(o) if hdap_ci in repo.mro(x.cls)]
    off = None
    if dname == "HDAP":
        off = 0
    elif dname == "HRNP" and hd:
        off = 12
    elif dname == "HSTRP" and hd:
        opts = o.attrs.get("options")
        olen = 0
        if isinstance(opts, AObj):
            for c, d in opts.attrs.get("options", []):
                olen += 2 + (len(d.items) // 8 if isinstance(d, ABits) else len(d))
        off = 6 + olen
    if hd and off is not None:
        h = hd[0]
        bad = []
        L = nbytes - off
        svc = I.call(repo.find_method(h.cls, "get_service_type"), [h], {})
        b0 = I.simp_bits(byte(off))
        rel = h.attrs.get("is_reliable")
        relb = I.simp(rel.bit(0)) if isinstance(rel, AInt) else F(0, int(bool(rel)))
        if b0[0] != relb or const_byte(I, [F(0, 0)] + b0[1:]) != svc.value:
            bad.append("service byte is not service | 0x80*reliable")
        endian = I.call(repo.find_method(h.cls, "get_endianness"), [h], {})
        plen = L - 7
        lb = [const_byte(I, byte(off + 3)), const_byte(I, byte(off + 4))]
        want = list(plen.to_bytes(2, endian))
        if lb != want:
            bad.append(f"length field {lb} != payload length {plen} in {endian}-endian")
        if const_byte(I, byte(off + L - 1)) != 0x03:
            bad.append("terminator is not 0x03")
        if isinstance(ln, int) and dname == "HDAP" and ln != nbytes:
            bad.append(f"len(pdu) = {ln}, {nbytes} octets produced")
        hl = I.call(repo.find_method(h.cls, "__len__"), [h], {})
        if hl != L:
            bad.append(f"len(HDAP) = {hl}, {L} octets produced")
        # checksum coverage: every atom of opcode..payload must feed the checksum byte
        cs = I.simp_bits(byte(off + L - 2))
        cov = set()
        seen = set()
        stack = []
        for b in cs:
            if isinstance(b, F):
                stack.extend(b.atoms())
            elif isinstance(b, AFin):
                stack.extend(b.atoms)
        while stack:
            a = stack.pop()
            if a in seen:
                continue
            seen.add(a)
            nm = I.atoms.names[a]
            if isinstance(nm, tuple) and nm[0] == "fn":
                todo = [nm[1]]
                while todo:
                    x = todo.pop()
                    if isinstance(x, F):
                        stack.extend(x.atoms())
                    elif isinstance(x, AFin):
                        stack.extend(x.atoms)
                    elif isinstance(x, tuple):
                        todo.extend(x)
            else:
                cov.add(a)
        need = set()
        for b in I.simp_bits(items[(off + 1) * 8:(off + L - 2) * 8]):
            if isinstance(b, F):
                need.update(a for a in b.atoms() if not (isinstance(I.atoms.names[a], tuple) and I.atoms.names[a][0] == "fn"))
        if need - cov:
            bad.append(f"{len(need - cov)} field bits of opcode..payload do not feed the checksum")
        ctx.ob("frame/hdap", key, not bad, "; ".join(bad[:3]) or f"service {svc.name}, payload {plen} octets ({endian}), checksum covers opcode..payload, terminator ok", "")
    if dname == "HRNP":
        bad = []
        lf = [const_byte(I, byte(8)), const_byte(I, byte(9))]
        if lf != list(nbytes.to_bytes(2, "big")):
            bad.append(f"length field {lf} != {nbytes} octets produced")
        if isinstance(ln, int) and ln != nbytes:
            bad.append(f"len(HRNP) = {ln}, {nbytes} octets produced")
        checked = st.__dict__.get("hrnp_checked_w", [])
        if not checked:
            bad.append("checksum input not observed")
        else:
            cd = I.simp_bits(checked[-1].items)
            want = I.simp_bits(items[:80] + items[96:])
            if cd[:len(want)] != want or any(not (isinstance(b, F) and b.is_const and b.c == 0) for b in cd[len(want):]):
                bad.append("the checksum is not fed with exactly the frame minus the checksum field")
            csf = I.simp_bits(items[80:96])
            calcs = st.__dict__.get("hrnp_calc_w", [])
            # the field must carry the value computed over that input (compared as forms: a path on which the received checksum
            # matched has LEARNT the value of the uninterpreted function, so "is an fn atom" would be the wrong test)
            if not calcs or csf != I.simp_bits(calcs[-1].msb_first(16)):
                bad.append("the checksum field is not the computed value")
        ctx.ob("frame/hrnp", key, not bad, "; ".join(bad[:3]) or f"length field = {nbytes}, checksum over everything but the checksum field", "")
    if dname == "HSTRP":
        opts = o.attrs.get("options")
        ol = opts.attrs.get("options", []) if isinstance(opts, AObj) else []
        if ol:
            bad = []
            pos = 6
            for i, (c, d) in enumerate(ol):
                dl = len(d.items) // 8 if isinstance(d, ABits) else len(d)
                cb = const_byte(I, byte(pos))
                want = c.value | (0x80 if i < len(ol) - 1 else 0)
                if cb != want:
                    bad.append(f"option {i}: command byte {cb} expected {want}")
                if const_byte(I, byte(pos + 1)) != dl:
                    bad.append(f"option {i}: length byte != {dl}")
                pos += 2 + dl
            olen = I.call(repo.find_method(opts.cls, "__len__"), [opts], {})
            if olen != pos - 6:
                bad.append(f"len(options) = {olen}, {pos - 6} octets produced")
            ctx.ob("frame/hstrp-options", key, not bad, "; ".join(bad[:3]) or f"{len(ol)} option(s) chained correctly", "")


def text_rules(ctx, repo):
    """GPSData.as_bytes: each f-string piece against the reader's slice width"""
    gci = repo.cls(f"{PMOD}.location_protocol", "GPSData")
    wr = repo.find_method(gci, "as_bytes")
    rd = repo.find_method(gci, "from_bytes")
    init = repo.find_method(gci, "__init__")
    ctx.saw_func(wr)
    ctx.saw_func(rd)
    # reader slice widths per constructor keyword
    widths = {}

    def const(e):
        try:
            return repo.fold_expr(e, rd.module, gci)
        except Exception:
            return None

    def slice_width(s):
        """width of data[a:b] / data[<constant slice object>] with bounds that fold to constants"""
        if not isinstance(s, ast.Subscript):
            return None
        if isinstance(s.slice, ast.Slice):
            lo = 0 if s.slice.lower is None else const(s.slice.lower)
            hi = const(s.slice.upper) if s.slice.upper is not None else None
        else:
            so = const(s.slice)
            if not isinstance(so, slice) or so.step not in (None, 1):
                return None
            lo, hi = so.start or 0, so.stop
        if isinstance(lo, int) and isinstance(hi, int) and not isinstance(lo, bool) and 0 <= lo <= hi:
            return hi - lo
        return None
    # locals of the reader that are bound once to a slice of the data
    local_w = {}
    for n in ast.walk(rd.node):
        if isinstance(n, (ast.Assign, ast.AnnAssign)) and n.value is not None:
            t = n.targets[0] if isinstance(n, ast.Assign) else n.target
            if isinstance(t, ast.Name):
                ws = [w for w in (slice_width(x) for x in ast.walk(n.value)) if w is not None]
                if len(ws) == 1:
                    local_w[t.id] = ws[0] if t.id not in local_w else None
    for n in ast.walk(rd.node):
        if isinstance(n, ast.keyword) and n.arg:
            for s in ast.walk(n.value):
                w = slice_width(s)
                if w is None and isinstance(s, ast.Name) and local_w.get(s.id) is not None:
                    w = local_w[s.id]
                if w is not None:
                    widths[n.arg] = w
    # table-driven reader: {name: data[where] for name, where in <constant table of slices>.items()} passed on as keywords
    for n in ast.walk(rd.node):
        if isinstance(n, ast.DictComp) and len(n.generators) == 1 and isinstance(n.value, ast.Subscript) and isinstance(n.value.slice, ast.Name) \
                and isinstance(n.generators[0].target, ast.Tuple) and len(n.generators[0].target.elts) == 2 and not n.generators[0].ifs \
                and isinstance(n.key, ast.Name) and isinstance(n.generators[0].iter, ast.Call) and isinstance(n.generators[0].iter.func, ast.Attribute) \
                and n.generators[0].iter.func.attr == "items":
            kn, vn = n.generators[0].target.elts
            table = const(n.generators[0].iter.func.value)
            if isinstance(kn, ast.Name) and isinstance(vn, ast.Name) and kn.id == n.key.id and vn.id == n.value.slice.id and isinstance(table, dict):
                for name, so in table.items():
                    if isinstance(name, str) and isinstance(so, slice) and so.step in (None, 1) and isinstance(so.stop, int) and (so.start or 0) <= so.stop:
                        widths.setdefault(name, so.stop - (so.start or 0))
    # declared type of each attribute
    types = {}
    for n in ast.walk(init.node):
        if isinstance(n, ast.AnnAssign) and isinstance(n.target, ast.Attribute):
            types[n.target.attr] = ast.unparse(n.annotation)
    found = 0
    # the writer and the helper methods of the class it calls (self._speed_text() ...), transitively
    writers, seen_w = [wr], {wr.qualname}
    for h in writers:
        for n in ast.walk(h.node):
            if isinstance(n, ast.Call) and isinstance(n.func, ast.Attribute) and isinstance(n.func.value, ast.Name) and n.func.value.id in ("self", "cls", gci.name):
                m_ = repo.find_method(gci, n.func.attr)
                if m_ is not None and m_.qualname not in seen_w and m_.name not in ("__repr__", "__str__", "from_bytes") and len(writers) < 24:
                    seen_w.add(m_.qualname)
                    writers.append(m_)
    for n in (x for h in writers for x in ast.walk(h.node)):
        # f"{self.fld:spec}"  or  format(self.fld, "spec")
        is_fs = isinstance(n, ast.FormattedValue) and isinstance(n.value, ast.Attribute) and isinstance(n.value.value, ast.Name) and n.value.value.id == "self"
        is_fc = isinstance(n, ast.Call) and isinstance(n.func, ast.Name) and n.func.id == "format" and len(n.args) == 2 and not n.keywords \
            and isinstance(n.args[0], ast.Attribute) and isinstance(n.args[0].value, ast.Name) and n.args[0].value.id == "self" \
            and isinstance(n.args[1], ast.Constant) and isinstance(n.args[1].value, str)
        if is_fs or is_fc:
            fld = n.value.attr if is_fs else n.args[0].attr
            if is_fs:
                spec = "".join(v.value for v in n.format_spec.values if isinstance(v, ast.Constant)) if n.format_spec else ""
            else:
                spec = n.args[1].value
            w = widths.get(fld)
            if w is None:
                continue
            found += 1
            t = types.get(fld, "")
            m = re.fullmatch(r"0?(\d+)(?:\.(\d+))?([df]?)", spec)
            ok, why = True, f"format '{spec}' on {t} for a {w}-octet slice"
            if not m:
                ok = False
                why += ": format not recognised"
            else:
                fw, prec, kind = int(m.group(1)), m.group(2), m.group(3)
                if fw != w:
                    ok, why = False, why + f": minimum width {fw} != {w}"
                elif "float" in t and kind != "f":
                    ok, why = False, why + ": a width-only format on a float renders its full repr (e.g. 12.5 -> '12.5', 4 characters), so the field overflows its fixed width"
            ctx.ob("text/fixed-width", f"{gci.qualname} | {fld}", ok, why, wr.loc)
    if found < 3:
        raise AnalysisError(f"{wr.qualname}: only {found} formatted text fields matched to reader slices")
    # single-character flag fields (declared Literal["A", "V"] ...): every declared value is a non-empty text, hence truthy — a
    # test of the bare field (`"A" if self.data_valid else "V"`) is the same for all of them and the writer cannot tell them apart
    lit = {}
    for n in ast.walk(init.node):
        if isinstance(n, ast.AnnAssign) and isinstance(n.target, ast.Attribute) and isinstance(n.annotation, ast.Subscript) \
                and ast.unparse(n.annotation.value).split(".")[-1] == "Literal":
            vals = [e.value for e in ast.walk(n.annotation.slice) if isinstance(e, ast.Constant)]
            if vals and all(isinstance(v, str) and v for v in vals):
                lit[n.target.attr] = vals
    for fld, vals in sorted(lit.items()):
        bare = []
        for m in gci.methods.values():
            if m.name in ("__repr__", "__str__"):
                continue   # diagnostic text is not part of the wire format the property is about
            for n in ast.walk(m.node):
                tests = []
                if isinstance(n, (ast.If, ast.IfExp, ast.While)):
                    tests = [n.test]
                elif isinstance(n, ast.BoolOp):
                    tests = list(n.values)
                elif isinstance(n, ast.UnaryOp) and isinstance(n.op, ast.Not):
                    tests = [n.operand]
                for t in tests:
                    if isinstance(t, ast.UnaryOp) and isinstance(t.op, ast.Not):
                        t = t.operand
                    if isinstance(t, ast.Attribute) and t.attr == fld and isinstance(t.value, ast.Name) and t.value.id == "self":
                        bare.append(f"{m.name}:{t.lineno}")
        ctx.ob("text/flag-distinguished", f"{gci.qualname} | {fld}", not bare,
               (f"truthiness of the field is tested at {bare[:3]}: it is the same for all declared values {vals}" if bare else f"declared values {vals}: never tested for mere truthiness"), wr.loc)
    ctx.coverage("text/flag-distinguished", f"{gci.qualname} | declared single-character flags", len(lit), 3, f"{len(lit)} Literal-typed text fields", wr.loc)


def hrnp_reference_checksum(frame: bytes) -> int:
    """the checker's own ones-complement checksum of an HRNP frame: octets 0..9 and 12.. as big-endian 16-bit words (an odd tail
    padded with a zero octet), end-around carry folded, complemented"""
    data = frame[:10] + frame[12:]
    if len(data) % 2:
        data += b"\x00"
    acc = sum(int.from_bytes(data[i:i + 2], "big") for i in range(0, len(data), 2))
    while acc >> 16:
        acc = (acc & 0xFFFF) + (acc >> 16)
    return ~acc & 0xFFFF


def hrnp_verdict_rule(ctx, repo, captures):
    """how verify_checksum turns the computed value into its verdict — the part the shape analysis treats structurally — decided by
    CONSTANT evaluation of the real decoder on crafted frames: a captured header-only frame with its packet number chosen so that
    the correct checksum takes the boundary values 0x0000, 0xFFFF-adjacent and an ordinary value, received (a) correctly,
    (b) with each single bit of the checksum field inverted, (c) as the ones-complement 'other zero' (0xFFFF for 0x0000)"""
    hr = repo.cls("hytera.pdu.hrnp", "HRNP")
    fb = repo.find_method(hr, "from_bytes")
    base = next((raw for _, raw in captures if len(raw) == 12 and raw[:1] == b"\x7e" and raw[8:10] == b"\x00\x0c"), None)
    if base is None:
        raise AnalysisError("no captured header-only HRNP frame (12 octets) to craft the verdict cases from")
    I = Interp(repo)
    install(I, repo, concrete=True)

    def verdict(frame):
        def run_v(st):
            I.st = st
            return I.call(fb, [frame], {})
        res = explore(run_v, max_paths=4)
        if len(res) != 1:
            raise AnalysisError(f"HRNP.from_bytes on a constant frame: {len(res)} paths")
        k, v = res[0][1]
        if k == "raise":
            return "raises " + v.exc
        if k != "ok" or not isinstance(v, AObj):
            raise AnalysisError(f"HRNP.from_bytes on a constant frame: {k}: {v}")
        c = v.attrs.get("checksum_correct")
        if isinstance(c, AInt) and c.ext is None:
            cb = I.simp_bits(c.bits)
            if all(isinstance(x, F) and x.is_const for x in cb):
                c = any(x.c for x in cb)
        if c not in (True, False):
            raise AnalysisError(f"checksum_correct of a constant frame is {c!r}")
        return c
    wanted = {}
    for pn in range(65536):
        f = base[:6] + pn.to_bytes(2, "big") + base[8:]
        cs = hrnp_reference_checksum(f)
        for label, target in (("checksum 0x0000", 0x0000), ("checksum 0x0001", 0x0001), ("checksum 0xfffe", 0xFFFE), ("checksum 0x8000", 0x8000)):
            if cs == target and label not in wanted:
                wanted[label] = f
        if len(wanted) == 4:
            break
    if "checksum 0x0000" not in wanted:
        raise AnalysisError("no packet number gives the boundary checksum 0x0000 for the captured header")
    n_cases = 0
    for label, f in sorted(wanted.items()):
        cs = hrnp_reference_checksum(f)
        bad = []
        good = f[:10] + cs.to_bytes(2, "big") + f[12:]
        if verdict(good) is not True:
            bad.append(f"the correct checksum {cs:#06x} is not accepted ({verdict(good)})")
        for bit in range(16):
            rx = cs ^ (1 << bit)
            if rx == 0:
                continue     # an all-zero field is the constructor's 'please generate' sentinel (see C04's known findings)
            n_cases += 1
            r = verdict(f[:10] + rx.to_bytes(2, "big") + f[12:])
            if r is not False:
                bad.append(f"received {rx:#06x} (bit {bit} of the checksum field inverted) gives {r}")
        other = cs ^ 0xFFFF
        if other != 0:
            n_cases += 1
            r = verdict(f[:10] + other.to_bytes(2, "big") + f[12:])
            if r is not False:
                bad.append(f"received {other:#06x} (every bit of the checksum field inverted: the ones-complement 'other zero' when the sum is 0 / 0xFFFF) gives {r}")
        ctx.ob("checksum/verdict", f"HRNP.verify_checksum | {label} | frame {f[:10].hex()}", not bad, "; ".join(bad[:3]) or "accepted when received correctly, rejected for each of the 16 single-bit corruptions and the all-bits inversion", fb.loc)
    ctx.extra["hrnp_verdict_cases"] = n_cases
    ctx.coverage("checksum/verdict", "crafted boundary frames", len(wanted), 3, f"{len(wanted)} boundary checksums crafted", fb.loc)


def hrnp_sum_host(repo):
    """(function holding the additive checksum summation, the summation statement, name of the octet buffer it sums): HRNP's
    verify_checksum itself or a helper of the class that it calls, directly or through one more helper"""
    from sa.intervals import CarryAnalysis
    hr = repo.cls("hytera.pdu.hrnp", "HRNP")
    fi = repo.find_method(hr, "verify_checksum")
    cands, seen_q = [fi], {fi.qualname}
    for h in cands:
        for n in ast.walk(h.node):
            if isinstance(n, ast.Call) and isinstance(n.func, ast.Attribute) and isinstance(n.func.value, ast.Name) and n.func.value.id in ("self", "cls", hr.name):
                m = repo.find_method(hr, n.func.attr)
                if m is not None and m.qualname not in seen_q and len(cands) < 12:
                    seen_q.add(m.qualname)
                    cands.append(m)
    first_err = None
    for cand in cands:
        try:
            stmt = CarryAnalysis(cand, 32768).find_sum_loop()
        except AnalysisError as e:
            first_err = first_err or e
            continue
        words = stmt.body if isinstance(stmt, ast.For) else [stmt.value.args[0].elt]
        name = next((x.value.id for w in words for x in ast.walk(w) if isinstance(x, ast.Subscript) and isinstance(x.value, ast.Name)), None)
        return cand, stmt, name
    raise first_err


def checksum_carry_rule(ctx, repo):
    """the part of the HRNP checksum that the shape analysis treats as an uninterpreted function: its carry handling, decided
    by an interval analysis (sa/intervals.py) for every packet length the 16-bit length field admits"""
    from sa.intervals import CarryAnalysis
    hr = repo.cls("hytera.pdu.hrnp", "HRNP")
    fi = repo.find_method(hr, "verify_checksum")
    ctx.saw_func(fi)
    # the length field is written with to_bytes(2): at most 65535 octets, one pad octet -> 32768 words
    # the length field is written with to_bytes(2) somewhere in the class: at most 65535 octets, one pad octet -> 32768 words
    two = []
    for m in hr.methods.values():
        for n in ast.walk(m.node):
            if isinstance(n, ast.Call) and isinstance(n.func, ast.Attribute) and n.func.attr == "to_bytes" and "len(self)" in ast.unparse(n.func.value) \
                    and ((n.args and isinstance(n.args[0], ast.Constant) and n.args[0].value == 2)
                         or any(k.arg == "length" and isinstance(k.value, ast.Constant) and k.value.value == 2 for k in n.keywords)):
                two.append(n)
    if not two:
        raise AnalysisError("HRNP: the 2-octet length field (bound of the packet size) not found")
    fi, _stmt, _name = hrnp_sum_host(repo)
    ctx.saw_func(fi)
    a = CarryAnalysis(fi, 32768, fold=lambda e: repo.fold_expr(e, fi.module, hr)).run()
    bad = [ev for ev in a.events if not ev[3]]
    for line, expr, iv, ok, why in a.events:
        ctx.ob("checksum/no-carry-dropped", f"HRNP.verify_checksum | `{expr}` with operand in {iv}", ok, why, f"{fi.module.relpath}:{line}")
    ctx.ob("checksum/no-carry-dropped", "HRNP.verify_checksum | value that is complemented / returned", a.final.lo >= 0 and a.final.hi <= 0xFFFF,
           f"accumulator after the summation loop {a.after_sum} ({a.max_words} words of {a.word_bits} bits at most), after folding {a.final}", fi.loc)
    ctx.require("checksum/no-carry-dropped", 3)
