#!/bin/bash
# run every registered check (quick tier) against /repo, in parallel; prints one summary line per property
cd /verif
ids=$(python3 -c "import json;print(' '.join(c['property_id'] for c in json.load(open('MANIFEST.json'))['checks']))")
tier=${1:-quick}
mkdir -p /tmp/verif-runall
for id in $ids; do
  ( timeout 3000 /venv/bin/python check.py $id --tier $tier > /tmp/verif-runall/$id.log 2>&1; echo "$id rc=$? $(grep -c '^VIOLATION' /tmp/verif-runall/$id.log) violations $(grep -c '^KNOWN-FINDING' /tmp/verif-runall/$id.log) known | $(grep "^$id:" /tmp/verif-runall/$id.log | tail -1)" ) &
done
wait
