#!/usr/bin/env python3
"""per-round statistics of the seeded corpus from seeded/*/meta.json (what tools/seed_full_matrix.py --update recorded)"""
import json, glob, collections
rounds = collections.defaultdict(lambda: [0, 0, 0])
missed = []
for m in sorted(glob.glob("/verif/seeded/*/meta.json")):
    d = json.load(open(m)); r = d["seed"].split("-")[0]
    if d.get("retired"):
        print("RETIRED", d["seed"]); continue
    rounds[r][0] += 1
    if d.get("caught_by"):
        rounds[r][1] += 1
    else:
        res = d.get("checks_run", {}).get("results", {})
        missed.append((d["seed"], d["property"], {c: v["outcome"] for c, v in res.items()}))
    if d.get("own_check_catches"):
        rounds[r][2] += 1
tot = [sum(v[i] for v in rounds.values()) for i in range(3)]
for r, (n, c, o) in sorted(rounds.items()):
    print(f"{r}: {n} seeds, {c} reported by some check, {o} by the own check")
print(f"all: {tot[0]} seeds, {tot[1]} reported, {tot[2]} by the own check")
for s in missed:
    print("MISSED", *s)
