#!/usr/bin/env python3
"""usage: record_neutral_outcomes.py <output of tools/neutral_matrix.py> — writes, per neutral/<Cxx>-N-k/meta.json, the outcome of every
check that was run on the patch ("silent" / "exit 2: <first line>" / "FALSE VIOLATION: <first line>") and prints the totals"""
import json, pathlib, sys
V = pathlib.Path("/verif")
res = {}
for line in open(sys.argv[1]):
    parts = line.rstrip("\n").split(" ", 3)
    if len(parts) < 3 or not parts[0][:1] == "C":
        continue
    name, check, status = parts[:3]
    first = parts[3] if len(parts) > 3 else ""
    res.setdefault(name, {})[check] = "silent" if status == "silent" else (("exit 2: " if status == "ERROR" else "FALSE VIOLATION: ") + first[:240])
tot = {"silent": 0, "exit 2": 0, "FALSE VIOLATION": 0}
for name, r in sorted(res.items()):
    mp = V / "neutral" / name / "meta.json"
    try:
        m = json.loads(mp.read_text()) if mp.exists() else {"property": name[:3], "kind": "neutral"}
    except Exception:
        m = {"property": name[:3], "kind": "neutral"}
    m["outcome"] = r
    m["outcome_how"] = "tools/neutral_matrix.py: the registered check (same code, --repo <scratch copy of /repo's working tree with the patch>) for the own property, C19 and every check anchored in a touched file"
    mp.write_text(json.dumps(m, indent=1) + "\n")
    for v in r.values():
        tot["silent" if v == "silent" else ("exit 2" if v.startswith("exit 2") else "FALSE VIOLATION")] += 1
print(len(res), "patches;", sum(tot.values()), "patch x check pairs;", tot)
