#!/usr/bin/env python3
"""usage: import_seeds.py <dir with Cxx-k/{patch.diff,demo.py,meta.json}> <confirm.jsonl> <round> — copies CONFIRMED seeded changes
(patch applies, pinned suite passes with it, demo exits 1 with it and 0 without) into /verif/seeded/r<round>-Cxx-k/"""
import json, pathlib, shutil, subprocess, sys
src, conf, rnd = pathlib.Path(sys.argv[1]), sys.argv[2], int(sys.argv[3])
head = subprocess.run(["git", "-C", "/repo", "rev-parse", "--short", "HEAD"], capture_output=True, text=True).stdout.strip()
confirmed = {}
for line in open(conf):
    line = line.strip()
    if line.startswith("{"):
        d = json.loads(line)
        confirmed[d["id"].split("/")[-1]] = d
n = 0
for d in sorted(src.iterdir()):
    c = confirmed.get(d.name)
    if not c or not (d / "patch.diff").exists():
        continue
    ok = c["applies"] and " passed" in c["tests"] and "failed" not in c["tests"] and c["demo_exit_with_change"] == "1" and c["demo_exit_without"] == "0"
    if not ok:
        print("NOT CONFIRMED", d.name, c)
        continue
    m = json.loads((d / "meta.json").read_text())
    dst = pathlib.Path("/verif/seeded") / f"r{rnd}-{d.name}"
    dst.mkdir(parents=True, exist_ok=True)
    shutil.copy(d / "patch.diff", dst / "patch.diff")
    shutil.copy(d / "demo.py", dst / "demo.py")
    meta = {
        "seed": dst.name, "property": m["property"], "round": rnd, "written_against": head,
        "summary": m.get("summary", ""), "needs_to_manifest": m.get("needs_to_manifest", ""), "clause_broken": m.get("clause_broken", ""),
        "files": m.get("files", []),
        "confirmed_on_current_tree": {
            "how": f"tools/confirm_seed.sh <seed> <work path>: scratch copy of /repo's working tree (HEAD {head}); demo.py on the clean copy; git apply patch.diff; "
                   "the pinned test suite (/venv/bin/python -m pytest -q -p no:cacheprovider --timeout=900 -x); demo.py with the change",
            "patch_applies": True, "tests_with_change": c["tests"], "demo_exit_with_change": 1, "demo_exit_without_change": 0},
        "checks_run": {}, "caught_by": [],
    }
    (dst / "meta.json").write_text(json.dumps(meta, indent=1) + "\n")
    n += 1
print("imported", n)
