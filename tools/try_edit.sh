#!/bin/bash
# usage: try_edit.sh <relative file under okdmr/dmrlib> <python-expr old> <python-expr new> <Cxx>...  — text edit on a scratch copy, run checks
set -e
F="$1"; OLD="$2"; NEW="$3"; shift 3
D=$(mktemp -d /tmp/okdmr-try-XXXXXX); trap 'rm -rf "$D"' EXIT
mkdir -p "$D/okdmr"; cp -r /repo/okdmr/dmrlib "$D/okdmr/dmrlib"; cp -r /repo/okdmr/tests "$D/okdmr/tests"
python3 - "$D/okdmr/dmrlib/$F" "$OLD" "$NEW" <<'PY'
import sys
p,old,new=sys.argv[1:4]; s=open(p).read()
assert s.count(old)>=1, "anchor not found"
open(p,'w').write(s.replace(old,new,1))
PY
for pid in "$@"; do /venv/bin/python /verif/check.py "$pid" --repo "$D" --no-evidence --quiet | sed "s#$D/##g" | grep -v "^  rule\|^  info\|KNOWN" | cut -c1-300 | head -6; done
